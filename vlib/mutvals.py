"""Value mutators for C04 / C17: turn a valid assignment into one that is out of range, of the
wrong type or of the wrong shape at exactly one site."""
from __future__ import annotations

import copy
from typing import Any

from hypothesis import strategies as st

from vlib import refcodec

DELETE = {"__delete__": True}


def sites(params, values, path=()):
    """yield (path, kind, info) for every mutable site of a parameter list"""
    yield (path, "struct", {"params": params})
    for p in params:
        name = p["name"]
        if p["pk"] in ("const", "physconst", "reserved", "matchreq"):
            yield (path + (name,), "nonsettable", {"p": p})
            continue
        if p["pk"] == "tablestruct" and name in values:
            tk = [q for q in params if q["pk"] == "tablekey" and q["name"] == p["key"]][0]
            val = values[name]
            yield (path + (name,), "tstruct", {"p": p, "tk": tk})
            if isinstance(val, (list, tuple)) and len(val) == 2:
                # an explicit value for the TABLE-KEY parameter next to the TABLE-STRUCT's (row, content) pair
                yield (path + (tk["name"],), "tablekey", {"p": p, "tk": tk, "chosen": val[0]})
                row = [r for r in tk["table"]["rows"] if r["name"] == val[0]]
                if row and row[0].get("st") is not None and isinstance(val[1], dict):
                    yield from sites(row[0]["st"]["params"], val[1], path + (name, 1))
            continue
        if p["pk"] != "value" or name not in values:
            continue
        yield from dop_sites(p["dop"], values[name], path + (name,))


def dop_sites(dop, value, path):
    k = dop["k"]
    if k == "simple":
        dct = dop["dct"]
        bt = dct["bt"]
        if dop["compu"]["c"] == "TEXTTABLE":
            yield (path, "text", {"dop": dop})
        elif dop["compu"]["c"] == "LINEAR":
            yield (path, "linear", {"dop": dop})
        elif dct["t"] in ("std", "paramlen") and bt in refcodec.INT_TYPES:
            yield (path, "int", {"dop": dop})
        elif bt in refcodec.FLOAT_TYPES:
            yield (path, "float", {"dop": dop})
        elif bt == "A_BYTEFIELD":
            yield (path, "bytes", {"dop": dop})
        else:
            yield (path, "str", {"dop": dop})
    elif k == "struct":
        if isinstance(value, dict):
            yield from sites(dop["params"], value, path)
    elif k == "sfield":
        yield (path, "sfield", {"dop": dop})
        if isinstance(value, list):
            for i, it in enumerate(value):
                if isinstance(it, dict):
                    yield from sites(dop["st"]["params"], it, path + (i,))
    elif k in ("dlfield", "eopf", "emfield"):
        yield (path, "list", {"dop": dop})
        if isinstance(value, list):
            for i, it in enumerate(value):
                if isinstance(it, dict):
                    yield from sites(dop["st"]["params"], it, path + (i,))
    elif k == "mux":
        yield (path, "mux", {"dop": dop})
        if isinstance(value, (list, tuple)) and len(value) == 2 and isinstance(value[1], dict):
            for c in dop["cases"]:
                if c["name"] == value[0] and c.get("st") is not None:
                    yield from sites(c["st"]["params"], value[1], path + (1,))


def get(values, path):
    v = values
    for k in path:
        v = v[k]
    return v


def put(values, path, new):
    values = copy.deepcopy(values)
    if not path:
        return new
    v = values
    for k in path[:-1]:
        v = v[k]
    if new is DELETE:
        del v[path[-1]]
    else:
        if isinstance(v, tuple):
            raise TypeError("tuple in values")
        v[path[-1]] = new
    return values


WRONG_TYPES = [None, "abc", 1.5, [1], {"x": 1}, b"\x01", True, 3.0, "", (1, 2), float("nan")]


def mutation(draw, kind: str, info: dict, cur: Any):
    """returns (new value, label)"""
    pick = lambda xs: draw(st.sampled_from(list(xs)))  # noqa: E731
    if kind == "int":
        dct = info["dop"]["dct"]
        if dct["t"] == "paramlen":
            v = pick(["x", 1.5, None, b"\x00", -1, 1 << 70])
            return v, "paramlen-int:" + type(v).__name__
        lo, hi = refcodec.int_range(dct["bt"], dct.get("enc"), dct["bl"])
        n = dct["bl"]
        if draw(st.integers(0, 9)) < 7:
            cands = {lo - 1, lo - 2, hi + 1, hi + 2, lo - (1 << n), hi + (1 << n), (1 << n), -(1 << n), (1 << (n - 1)) if n > 1 else 2,
                     -(1 << (n - 1)) - 1, 1 << 64, -(1 << 63) - 1, (1 << n) - 1, (1 << n) + 1}
            if dct.get("mask") is not None:
                cands |= {x for x in range(0, min(hi, 255) + 1) if x & ~dct["mask"]}
            cands = sorted(c for c in cands if not (lo <= c <= hi) or (dct.get("mask") is not None and c & ~dct["mask"]))
            v = pick(cands)
            return v, "int-out-of-range"
        v = pick(WRONG_TYPES)
        return v, "int-wrong-type:" + type(v).__name__
    if kind == "linear":
        v = pick(WRONG_TYPES + [1 << 70, -(1 << 70)])
        return v, "linear:" + type(v).__name__
    if kind == "float":
        v = pick([None, "abc", [1.0], {"x": 1.0}, b"\x01", 1e39 if info["dop"]["dct"]["bt"] == "A_FLOAT32" else "1.0",
                  float("inf"), 1 << 2000])
        return v, "float:" + type(v).__name__
    if kind == "text":
        v = pick(["no-such-text", "", 0, 1, None, b"t0", ["t0"], 1.0])
        return v, "text:" + type(v).__name__
    if kind == "bytes":
        dct = info["dop"]["dct"]
        cur_b = bytes(cur) if isinstance(cur, (bytes, bytearray)) else b""
        opts = [("bytes-longer", cur_b + b"\x01"), ("bytes-much-longer", cur_b + b"\x01\x02\x03\x04\x05\x06\x07\x08"),
                ("bytes-shorter", cur_b[:-1] if cur_b else None),
                ("bytes-wrong-type:str", cur_b.hex() or "00"), ("bytes-wrong-type:int", 5), ("bytes-wrong-type:None", None),
                ("bytes-wrong-type:list", list(cur_b)), ("bytes-bytearray", bytearray(cur_b))]
        if dct["t"] == "minmax":
            term = {"ZERO": b"\x00", "HEX-FF": b"\xff"}.get(dct["term"])
            if term:
                opts.append(("bytes-contains-terminator", (cur_b[:1] or b"\x01") + term + b"\x02"))
            if dct["max"] is not None:
                opts.append(("bytes-over-max", b"\x01" * (dct["max"] + 1)))
            if dct["min"] > 0:
                opts.append(("bytes-under-min", b"\x01" * (dct["min"] - 1)))
        if dct["t"] == "leading":
            opts.append(("bytes-too-long-for-length-field", b"\x01" * (1 << min(dct["bl"], 10))))
        if dct["t"] == "std" and dct.get("mask") is not None:
            opts.append(("bytes-outside-mask", b"\xff" * (dct["bl"] // 8)))
        lab, v = pick(opts)
        return v, lab
    if kind == "str":
        dct = info["dop"]["dct"]
        cur_s = cur if isinstance(cur, str) else ""
        opts = [("str-longer", cur_s + "A"), ("str-much-longer", cur_s + "ABCDEFGH"), ("str-shorter", cur_s[:-1] if cur_s else None),
                ("str-wrong-type:bytes", cur_s.encode("utf-8")), ("str-wrong-type:int", 7), ("str-wrong-type:None", None),
                ("str-wrong-type:list", [cur_s]), ("str-unencodable", (cur_s[:-1] if cur_s else "") + "\U0001F600"),
                ("str-unencodable-cjk", (cur_s[:-1] if cur_s else "") + "中"), ("str-surrogate", "\ud800")]
        if dct["t"] == "minmax":
            opts.append(("str-contains-terminator", "A\x00B" if dct["term"] == "ZERO" else "AÿB"))
            if dct["max"] is not None:
                opts.append(("str-over-max", "A" * (dct["max"] + 1)))
            if dct["min"] > 0:
                opts.append(("str-under-min", ""))
        lab, v = pick(opts)
        return v, lab
    if kind == "struct":
        params = info["params"]
        cur_d = cur if isinstance(cur, dict) else {}
        opts = [("struct-unknown-param", dict(cur_d, no_such_parameter=1)), ("struct-not-a-dict:list", [cur_d]),
                ("struct-not-a-dict:None", None), ("struct-not-a-dict:int", 3), ("struct-not-a-dict:str", "x")]
        req = [p["name"] for p in params if p["pk"] == "value" and p.get("default") is None and p["name"] in cur_d]
        if req:
            name = pick(req)
            d2 = dict(cur_d)
            del d2[name]
            opts.append(("struct-missing-required", d2))
            opts.append(("struct-missing-required", d2))
        lab, v = pick(opts)
        return v, lab
    if kind == "nonsettable":
        p = info["p"]
        if p["pk"] in ("const", "physconst") and draw(st.integers(0, 9)) < 6:
            # a value that is *nearly* the constant: it is not the constant, so it cannot be represented
            c = p["v"]
            if isinstance(c, (bytes, bytearray)):
                c = bytes(c)
                near = [c.rstrip(b"\x00"), c + b"\x00", c[:-1], b"\x00" + c, bytes(reversed(c))] + \
                    ([c[:-1] + bytes([c[-1] ^ 1])] if c else [])
            elif isinstance(c, bool) or not isinstance(c, (int, float)):
                near = [str(c) + " ", str(c).lower(), str(c)[:-1]]
            elif isinstance(c, int):
                near = [c + 1, c - 1, -c if c else 1, c ^ 0x80, float(c) + 0.5, c + (1 << 8), c + (1 << 32)]
            else:
                near = [c + 1.0, -c if c else 1.0, c * 2 + 1]
            near = [x for x in near if x != c]
            if near:
                return pick(near), "const-near-miss:" + p["pk"]
        v = pick([12345, "x", b"\x01", -1, [1]])
        return v, "nonsettable-given:" + p["pk"]
    if kind == "tablekey":
        rows = [r["name"] for r in info["tk"]["table"]["rows"]]
        others = [r for r in rows if r != info["chosen"]]
        opts = [("tablekey-unknown-row", "no_such_row"), ("tablekey-wrong-type:int", 1), ("tablekey-wrong-type:bytes", b"r"),
                ("tablekey-wrong-type:list", [info["chosen"]])]
        opts += [("tablekey-conflict", r) for r in others] * 3
        lab, v = pick(opts)
        return v, lab
    if kind == "tstruct":
        rows = [r["name"] for r in info["tk"]["table"]["rows"]]
        row, content = (cur[0], cur[1]) if isinstance(cur, (list, tuple)) and len(cur) == 2 else (rows[0], {})
        opts = [("tstruct-unknown-row", ["no_such_row", content]), ("tstruct-not-a-pair:int", 5), ("tstruct-arity-1", [row]),
                ("tstruct-arity-3", [row, content, 1]), ("tstruct-row-not-str:int", [1, content]),
                ("tstruct-row-not-str:None", [None, content]), ("tstruct-not-a-pair:dict", {row: content}),
                ("tstruct-not-a-pair:str", row)]
        lab, v = pick(opts)
        return v, lab
    if kind == "sfield":
        cur_l = list(cur) if isinstance(cur, list) else []
        opts = [("sfield-too-few", cur_l[:-1]), ("sfield-too-many", cur_l + cur_l[:1]), ("sfield-too-many", cur_l + cur_l[:1] + cur_l[:1]),
                ("sfield-too-many", cur_l + cur_l[:1]), ("sfield-not-a-list:dict", {"a": 1}),
                ("sfield-not-a-list:None", None), ("sfield-item-not-dict", [5] * len(cur_l)), ("sfield-not-a-list:str", "ab")]
        lab, v = pick(opts)
        return v, lab
    if kind == "list":
        cur_l = list(cur) if isinstance(cur, list) else []
        opts = [("list-not-a-list:dict", {"a": 1}), ("list-not-a-list:None", None), ("list-item-not-dict", [5]),
                ("list-not-a-list:int", 4), ("list-item-none", cur_l + [None]),
                ("list-too-long-for-count", cur_l[:1] * 300 if cur_l else [{}] * 300)]
        lab, v = pick(opts)
        return v, lab
    if kind == "mux":
        content = cur[1] if isinstance(cur, (list, tuple)) and len(cur) == 2 else {}
        dop = info["dop"]
        used = set()
        for c in dop["cases"]:
            used |= set(range(c["lo"], c["hi"] + 1))
        free = [k for k in range(0, 300) if k not in used][:3] + [-1, 1 << 40]
        # (None selects the default case; its content is not the selected regular case's content)
        opts = [("mux-none-case", [None, {}]), ("mux-unknown-case", ["no_such_case", content]),
                ("mux-arity-1", [cur[0]] if isinstance(cur, (list, tuple)) and cur else [1]),
                ("mux-arity-3", list(cur) + [1] if isinstance(cur, (list, tuple)) else [1, 2, 3]),
                ("mux-not-a-pair:int", 5), ("mux-not-a-pair:None", None),

                ("mux-float-case", [1.5, content]), ("mux-dict-two-keys", {"c0": content, "c1": content})]
        # content of the wrong shape only for cases that have content (for a case without structure there is
        # nothing the content could be represented by, so ignoring it is not a misrepresentation)
        if dop.get("default") is None:
            # (with a DEFAULT-CASE such a key legitimately selects it)
            opts.append(("mux-key-without-case", [pick(free), content]))
        sel = [c for c in dop["cases"] if isinstance(cur, (list, tuple)) and cur and c["name"] == cur[0]]
        if sel and sel[0].get("st") is not None:
            opts.append(("mux-content-not-dict", [cur[0], 7]))
        lab, v = pick(opts)
        return v, lab
    raise AssertionError(kind)
