"""Hypothesis strategies for ODX message descriptions (IR of vlib/refcodec.py) together with
value assignments that are valid for them by construction (DESIGN 2.1, "construction over
rejection")."""
from __future__ import annotations

import struct
from fractions import Fraction
from typing import Any, Optional

from hypothesis import strategies as st

BITLENS = [1, 2, 3, 4, 5, 7, 8, 9, 12, 15, 16, 17, 24, 31, 32, 33, 40, 48, 63, 64]
ASCII = "AZaz09 _-"
LATIN = ASCII + "éßÄ"
UTF8 = ASCII + "é€中"
# (U+0100, U+00FF and U+FF21 make 00 00 / FF FF byte pairs that straddle two code units: not terminators)
UCS2 = "AzĀ0éĀA€中Āÿ\uff21ÿ\U0001F600"


class G:
    def __init__(self, draw, opts: Optional[dict] = None):
        self.draw = draw
        self.n = 0
        self.opts = opts or {}
        self.features: set = set()

    def nid(self, p: str) -> str:
        self.n += 1
        return f"{p}{self.n}"

    def d(self, s):
        return self.draw(s)

    def chance(self, pct: int) -> bool:
        return self.d(st.integers(0, 99)) < pct

    def pick(self, xs):
        return self.d(st.sampled_from(list(xs)))

    # ------------------------------------------------------------------ leaves
    def int_dct(self, max_bits: int = 64, signed: Optional[bool] = None, small: bool = False) -> dict:
        if signed is None:
            signed = self.chance(40)
        lens = [b for b in BITLENS if b <= max_bits and (b >= 2 or not signed)]
        if small:
            lens = [b for b in lens if b <= 16]
        bl = self.pick(lens)
        hl = self.pick([None, True, False, False])
        if signed:
            enc = self.pick([None, "2C", "1C", "SM"])
            return {"t": "std", "bt": "A_INT32", "bl": bl, "enc": enc, "hl": hl}
        enc = self.pick([None, None, None, "NONE", "BCD-P", "BCD-UP"])
        if enc == "BCD-P":
            bl = max(4, (bl // 4) * 4)
        elif enc == "BCD-UP":
            bl = max(8, (bl // 8) * 8)
        return {"t": "std", "bt": "A_UINT32", "bl": bl, "enc": enc, "hl": hl}

    def int_value(self, dct) -> int:
        from vlib.refcodec import int_range
        lo, hi = int_range(dct["bt"], dct.get("enc"), dct["bl"])
        if dct.get("mask") is not None:
            return self.d(st.integers(lo, hi)) & dct["mask"]
        return self.d(st.one_of(st.sampled_from(sorted({lo, hi, 0 if lo <= 0 <= hi else lo, min(hi, 1), max(lo, -1)})),
                                st.integers(lo, hi)))

    def simple_int_dop(self, max_bits: int = 64, signed=None, identical: bool = False, small: bool = False) -> dict:
        dct = self.int_dct(max_bits, signed, small)
        compu = {"c": "IDENTICAL"}
        pt = dct["bt"]
        r = self.d(st.integers(0, 99))
        # float-valued and text compu methods only on integers of at most 32 bits (a double cannot hold wider
        # integers); LINEAR methods with integer coefficients and integer physical type on every width
        if not identical and (dct["bl"] <= 32 or r < 15):
            if r < 15:
                n1 = self.pick([1, 2, -1, 3, 5, -4])
                n0 = self.pick([0, 1, -3, 10, 100])
                d = self.pick([1, 1, 1, 2, 4]) if self.opts.get("linear_int_denominator", True) else 1
                from vlib.refcodec import int_range
                lo_, hi_ = int_range(dct["bt"], dct.get("enc"), dct["bl"])
                if d > 1 and not any((n0 + n1 * i) % d == 0 for i in range(lo_, min(hi_, lo_ + d - 1) + 1)):
                    d = 1       # no internal value has an integral image
                compu = {"c": "LINEAR", "n0": n0, "n1": n1, "d": d}
                pt = "A_INT32"
                self.features.add("compu:LINEAR")
                if d > 1:
                    self.features.add("compu:LINEAR-int-denominator")
            elif r < 22:
                compu = {"c": "LINEAR", "n0": self.pick([0, 1, -5]), "n1": self.pick([1, 3, -1]),
                         "d": self.pick([2, 4, 8])}
                pt = "A_FLOAT64"
                self.features.add("compu:LINEAR-float")
            elif r < 22 + self.opts.get("texttable_pct", 10) and dct["bt"] == "A_UINT32" and dct.get("enc") in (None, "NONE") \
                    and dct["bl"] <= 12:
                hi = (1 << dct["bl"]) - 1
                rows, lo = [], self.d(st.integers(0, min(2, hi)))
                for i in range(self.d(st.integers(1, 4))):
                    if lo > hi:
                        break
                    up = min(hi, lo + self.pick([0, 0, 1, 3]))
                    rows.append([lo, up, f"t{i}"])
                    lo = up + 1 + self.pick([0, 0, 2])
                compu = {"c": "TEXTTABLE", "rows": rows}
                if self.chance(40):
                    compu["default"] = "dflt"      # COMPU-DEFAULT-VALUE for internal values no scale covers
                    self.features.add("compu:default-value")
                pt = "A_UNICODE2STRING"
                self.features.add("compu:TEXTTABLE")
        if dct["bt"] == "A_UINT32" and dct.get("enc") in (None, "NONE") and compu["c"] == "IDENTICAL" and \
                self.chance(40 if self.opts.get("condensed") else 8):
            full = (1 << dct["bl"]) - 1
            dct["mask"] = self.d(st.integers(1, full))
            self.features.add("bitmask")
            if self.opts.get("condensed") and self.chance(50):
                dct["cond"] = True
                self.features.add("condensed-mask")
        out = {"k": "simple", "id": self.nid("dop"), "dct": dct, "compu": compu, "pt": pt}
        self.display_hints(out)
        return out

    def display_hints(self, dop):
        """PRECISION / DISPLAY-RADIX of the PHYSICAL-TYPE: hints for presenting values, without effect on them"""
        if not self.opts.get("display_hints", True):
            return
        if dop["pt"] in ("A_FLOAT32", "A_FLOAT64") and self.chance(30):
            dop["precision"] = self.pick([0, 1, 2])
            self.features.add("physical-type:precision")
        elif dop["pt"] in ("A_UINT32", "A_INT32") and self.chance(10):
            dop["radix"] = self.pick(["HEX", "DEC", "BIN", "OCT"])
            self.features.add("physical-type:display-radix")

    def simple_value(self, dop) -> Any:
        """draw a physical value valid for a simple DOP (as image of a valid internal value)"""
        from vlib import refcodec
        dct, c = dop["dct"], dop["compu"]
        bt = dct["bt"]
        if dct["t"] == "std" and bt in refcodec.INT_TYPES:
            if c["c"] == "TEXTTABLE":
                return self.pick([r[2] for r in c["rows"]])
            i = self.int_value(dct)
            if c["c"] == "LINEAR" and c["d"] > 1 and dop["pt"] in refcodec.INT_TYPES:
                # an integer physical type: only internal values with an integral image are exact
                lo_, hi_ = refcodec.int_range(dct["bt"], dct.get("enc"), dct["bl"])
                for delta in range(0, 2 * c["d"] + 1):
                    j = next((x for x in (i + delta, i - delta) if lo_ <= x <= hi_ and (c["n0"] + c["n1"] * x) % c["d"] == 0), None)
                    if j is not None:
                        i = j
                        break
                else:
                    i = next(x for x in range(lo_, min(hi_, lo_ + c["d"] - 1) + 1) if (c["n0"] + c["n1"] * x) % c["d"] == 0)
            if i < 0:
                self.features.add("negative")
            return refcodec.i2p(dop, i)
        if bt in ("A_FLOAT32", "A_FLOAT64") and c["c"] == "LINEAR":
            x = Fraction(self.d(st.integers(4 * c["lo"], 4 * c["hi"])), 4)     # exact in binary32
            return float((c["n0"] + c["n1"] * x) / c["d"])
        if bt == "A_FLOAT32":
            x = self.d(st.floats(width=32, allow_nan=False, allow_infinity=False))
            return x
        if bt == "A_FLOAT64":
            return self.d(st.floats(allow_nan=False, allow_infinity=False))
        raise AssertionError(dop)

    def float_dop(self) -> dict:
        bt = self.pick(["A_FLOAT32", "A_FLOAT64"])
        self.features.add(bt)
        compu, pt = {"c": "IDENTICAL"}, bt
        if self.opts.get("float_linear", True) and self.chance(35):
            # a float-coded value scaled by a LINEAR method whose scale has (float typed) limits
            compu = {"c": "LINEAR", "n0": self.pick([0, 1, -5]), "n1": self.pick([1, 2, -1]), "d": self.pick([1, 2]),
                     "lo": self.pick([0, 1, 2]), "hi": self.pick([3, 100, 255])}
            if compu["n1"] < 0:
                compu["lo"] = max(compu["lo"], 1)     # (no signed zeroes: -1 * 0.0 is -0.0, equal but not bit-identical)
            pt = "A_FLOAT64"
            self.features.add("compu:LINEAR-float-coded")
        out = {"k": "simple", "id": self.nid("dop"),
               "dct": {"t": "std", "bt": bt, "bl": 32 if bt == "A_FLOAT32" else 64, "enc": None,
                       "hl": self.pick([None, True, False])},
               "compu": compu, "pt": pt}
        self.display_hints(out)
        return out

    def str_params(self):
        bt = self.pick(["A_ASCIISTRING", "A_UTF8STRING", "A_UNICODE2STRING"])
        if bt == "A_ASCIISTRING":
            enc = self.pick([None, "ISO-8859-1", "ISO-8859-2", "WINDOWS-1252"])
            alpha = LATIN
        elif bt == "A_UTF8STRING":
            enc = self.pick([None, "UTF-8"])
            alpha = UTF8
        else:
            enc = self.pick([None, "UCS-2"])
            alpha = UCS2
        hl = self.pick([None, True, False])
        self.features.add(bt)
        return bt, enc, hl, alpha

    def text(self, alpha: str, lo: int, hi: int) -> str:
        return self.d(st.text(alphabet=alpha, min_size=lo, max_size=hi))

    def fixed_bytes_like(self):
        """STANDARD-LENGTH byte field or string; returns (dop, value, size)"""
        from vlib.refcodec import str_codec
        if self.chance(55):
            n = self.d(st.integers(1, 5))
            dct = {"t": "std", "bt": "A_BYTEFIELD", "bl": 8 * n, "enc": None, "hl": self.pick([None, True, False])}
            val = self.d(st.binary(min_size=n, max_size=n))
            if self.chance(10):
                dct["mask"] = self.d(st.integers(1, (1 << (8 * n)) - 1))
                mb = dct["mask"].to_bytes(n, "big")
                val = bytes(a & b for a, b in zip(val, mb))
                self.features.add("bitmask")
            self.features.add("A_BYTEFIELD")
            size = n
        else:
            bt, enc, hl, alpha = self.str_params()
            s = self.text(alpha, 1, 4)
            raw = s.encode(str_codec(bt, enc, hl in (None, True)))
            dct = {"t": "std", "bt": bt, "bl": 8 * len(raw), "enc": enc, "hl": hl}
            val, size = s, len(raw)
        pt = "A_BYTEFIELD" if dct["bt"] == "A_BYTEFIELD" else "A_UNICODE2STRING"
        return {"k": "simple", "id": self.nid("dop"), "dct": dct, "compu": {"c": "IDENTICAL"}, "pt": pt}, val, size

    def dyn_value(self, dct):
        """draw a value for a dynamic-length diag coded type (min-max / leading length / param length)"""
        from vlib.refcodec import str_codec
        bt, enc, hl = dct["bt"], dct.get("enc"), dct.get("hl")
        if bt == "A_UINT32":
            # PARAM-LENGTH-INFO integer: magnitudes that need different numbers of bytes
            return self.d(st.one_of(st.integers(0, 255), st.integers(256, 65535), st.integers(65536, (1 << 32) - 1)))
        is_bytes = bt == "A_BYTEFIELD"
        unit = 2 if bt == "A_UNICODE2STRING" else 1
        if dct["t"] == "minmax":
            lo_b = dct["min"]
            hi_b = dct["max"] if dct["max"] is not None else dct["min"] + 3 * unit
            forbid = {"ZERO": b"\x00", "HEX-FF": b"\xff", "END-OF-PDU": b""}[dct["term"]]
        else:
            lo_b, hi_b, forbid = 0, 4 * unit, b""
        if is_bytes:
            v = self.d(st.binary(min_size=lo_b, max_size=hi_b))
            if forbid:
                v = bytes((b ^ 0x55) if bytes([b]) == forbid else b for b in v)
            return v
        codec = str_codec(bt, enc, hl in (None, True))
        alpha = {"A_ASCIISTRING": LATIN, "A_UTF8STRING": UTF8, "A_UNICODE2STRING": UCS2}[bt]
        if forbid and unit == 1:
            alpha = "".join(ch for ch in alpha if forbid[:1] not in ch.encode(codec))
        # (two-byte code units: only an *aligned* 0x0000 / 0xFFFF unit is a terminator, and neither U+0000 nor
        # U+FFFF is in the alphabet; code units containing a single 0x00 / 0xFF byte are legitimate values)
        out, nb = "", 0
        target = self.d(st.integers(lo_b, hi_b))
        for _ in range(16):
            ch = self.pick(alpha)
            e = len(ch.encode(codec))
            if nb + e > hi_b or nb >= target:
                break
            out += ch
            nb += e
        while nb < lo_b:
            out += "A"
            nb += unit
        return out

    def dyn_leaf(self, tail: bool, lenkeys: list):
        """dynamic-length simple DOP; returns (dop, value, lenkey_param|None)"""
        from vlib.refcodec import str_codec
        kind = self.pick(["minmax", "minmax", "leading", "paramlen"])
        is_bytes = self.chance(50)
        if is_bytes:
            bt, enc, hl, alpha = "A_BYTEFIELD", None, self.pick([None, True, False]), None
        else:
            bt, enc, hl, alpha = self.str_params()
        unit = 2 if bt == "A_UNICODE2STRING" else 1
        pt = "A_BYTEFIELD" if is_bytes else "A_UNICODE2STRING"

        lk = None
        if kind == "minmax":
            term = self.pick(["ZERO", "HEX-FF", "END-OF-PDU"] if tail else ["ZERO", "HEX-FF"])
            mn = self.pick([0, 0, 1, 2]) * unit
            mx = self.pick([None, mn + unit * self.pick([0, 1, 3])])
            dct = {"t": "minmax", "bt": bt, "min": mn, "max": mx, "term": term, "enc": enc, "hl": hl}
            val = self.dyn_value(dct)
            self.features.add("dct:minmax")
        elif kind == "leading":
            bl = self.pick([8, 16, 8, 4, 12])
            dct = {"t": "leading", "bt": bt, "bl": bl, "enc": enc, "hl": hl}
            val = self.dyn_value(dct)
            self.features.add("dct:leading")
        else:
            kname = self.nid("lk")
            kdop = {"k": "simple", "id": self.nid("dop"),
                    "dct": {"t": "std", "bt": "A_UINT32", "bl": self.pick([8, 16]), "enc": None,
                            "hl": self.pick([None, True, False])},
                    "compu": {"c": "IDENTICAL"}, "pt": "A_UINT32"}
            kbit = self.d(st.integers(1, 7)) if self.chance(30) else 0
            if kbit:
                self.features.add("lenkey-bitpos")
            lk = {"pk": "lenkey", "name": kname, "id": self.nid("lkid"), "pos": None, "bit": kbit, "dop": kdop}
            dct = {"t": "paramlen", "bt": bt, "key": kname, "enc": enc, "hl": hl}
            val = self.dyn_value(dct)
            self.features.add("dct:paramlen")
        dop = {"k": "simple", "id": self.nid("dop"), "dct": dct, "compu": {"c": "IDENTICAL"}, "pt": pt}
        return dop, val, lk

    # ------------------------------------------------------------------ parameter lists
    def params(self, depth: int, must_static: bool, tail: bool, top: bool = False, response: bool = False,
               max_slots: int = 5):
        """returns (params, values, static_size_or_None).
        tail: this list is in the tail position of the PDU (its last parameter is at the end of the PDU)"""
        slots = []   # (param dicts in layout order, values)
        pos = 0
        params: list = []
        values: dict = {}
        nslots = self.d(st.integers(1, max_slots))
        if top and self.chance(12):
            # half-constant first byte: a 4 bit constant in the high nibble, a 4 bit VALUE in the low nibble
            # (the byte is only partly determined by constants, so it must not be part of the constant prefix)
            params.append({"pk": "const", "name": "sidhi", "pos": 0, "bit": 4, "_end": 1,
                           "dct": {"t": "std", "bt": "A_UINT32", "bl": 4, "enc": None, "hl": None},
                           "v": self.d(st.integers(0, 15))})
            ndop = {"k": "simple", "id": self.nid("dop"),
                    "dct": {"t": "std", "bt": "A_UINT32", "bl": 4, "enc": None, "hl": None},
                    "compu": {"c": "IDENTICAL"}, "pt": "A_UINT32"}
            nname = self.nid("p")
            params.append({"pk": "value", "name": nname, "pos": 0, "bit": 0, "_end": 1, "dop": ndop, "default": None})
            values[nname] = self.d(st.integers(0, 15))
            pos = 1
            self.features.add("half-constant-first-byte")
            self.features.add("bitpos")
        elif top and self.chance(70):
            # constant prefix (service id)
            v = self.d(st.integers(0, 255))
            p = {"pk": "const", "name": "sid", "pos": 0, "bit": 0, "_end": 1,
                 "dct": {"t": "std", "bt": "A_UINT32", "bl": 8, "enc": None, "hl": None}, "v": v}
            params.append(p)
            pos = 1
        if response and self.chance(50):
            n = self.d(st.integers(1, 3))
            rp = self.d(st.integers(0, 2))
            params.append({"pk": "matchreq", "name": self.nid("mr"), "pos": pos, "_end": pos + n,
                           "rpos": rp, "n": n})
            pos += n
            self.features.add("pk:matchreq")
            self.req_need = max(getattr(self, "req_need", 0), rp + n)
        static_layout: list = []   # params of the static part, in layout order
        static_layout.extend(params)
        params = []
        dynamic = False
        dyn_params: list = []
        force_next = False
        for si in range(nslots):
            last_slot = si == nslots - 1
            r = self.d(st.integers(0, 99))
            forced_explicit = False
            if force_next:
                r, force_next, forced_explicit = 67, False, True     # a plain integer parameter with explicit position
            slot_tail = tail and last_slot
            if not dynamic:
                if r < 12:
                    # several sub-byte integers packed into 1..2 bytes
                    nbytes = self.pick([1, 1, 2])
                    bits_left = 8 * nbytes
                    bitpos = self.d(st.integers(0, 3))
                    bits_left -= bitpos
                    le = self.chance(30) and nbytes > 1
                    group = []
                    while bits_left > 0 and len(group) < 4:
                        bl = self.d(st.integers(1, min(bits_left, 9)))
                        if nbytes == 2 and ((bitpos % 8) + bl > 8) and (bitpos // 8 == 0) and False:
                            pass
                        signed = bl >= 2 and self.chance(30)
                        dct = {"t": "std", "bt": "A_INT32" if signed else "A_UINT32", "bl": bl,
                               "enc": self.pick([None, "2C", "1C", "SM"]) if signed else None,
                               "hl": True}
                        # an object must not cross into the next byte unless it starts in the first one
                        bpos_byte, bpos_bit = divmod(bitpos, 8)
                        if bpos_bit + bl > 8 and bpos_byte + (bpos_bit + bl + 7) // 8 > nbytes:
                            break
                        if bpos_bit + bl > 8:
                            # spans two bytes (big endian word); fine for high-low order
                            pass
                        dop = {"k": "simple", "id": self.nid("dop"), "dct": dct, "compu": {"c": "IDENTICAL"},
                               "pt": dct["bt"]}
                        name = self.nid("p")
                        # position of an object occupying bits [bitpos, bitpos+bl) counted from the LSB of
                        # the big-endian word made of the nbytes bytes: for a single byte that is plain
                        # BIT-POSITION; for two bytes we only place objects inside one byte or spanning
                        # from the second byte (low) into the first (high)
                        if nbytes == 1:
                            pp, bb = pos, bitpos
                        else:
                            # bit index counted from LSB of the 16-bit word: byte 1 holds bits 0..7
                            if bitpos < 8 and bitpos + bl <= 8:
                                pp, bb = pos + 1, bitpos
                            elif bitpos >= 8:
                                pp, bb = pos, bitpos - 8
                            else:
                                pp, bb = pos, bitpos     # spans both bytes: k=2 word at pos
                        group.append(({"pk": "value", "name": name, "pos": pp, "bit": bb, "dop": dop,
                                       "default": None}, self.int_value(dct)))
                        bitpos += bl + self.pick([0, 0, 1])
                        bits_left = 8 * nbytes - bitpos
                    if not group:
                        continue
                    for p, v in group:
                        static_layout.append(p)
                        values[p["name"]] = v
                    for p, _ in group:
                        p["_end"] = p["pos"] + ((p["bit"] + p["dop"]["dct"]["bl"] + 7) // 8)
                    pos += nbytes
                    self.features.add("packed-subbyte")
                    self.features.add("bitpos")
                    continue
                if r < 18:
                    bl = self.pick([4, 8, 12, 16, 3, 8, 16, 72, 128, 67])
                    if bl > 64:
                        self.features.add("reserved:over-64-bits")
                    bit = self.d(st.integers(0, 7)) if (bl < 8 or (bl > 64 and self.chance(30))) else 0
                    sz = (bit + bl + 7) // 8
                    p = {"pk": "reserved", "name": self.nid("rsv"), "pos": pos, "bit": bit, "bl": bl, "_end": pos + sz}
                    static_layout.append(p)
                    pos += sz
                    self.features.add("pk:reserved")
                    continue
                if r < 24:
                    if self.chance(35) and self.opts.get("bytefield_const", True):
                        nb = self.d(st.integers(1, 3))
                        dct = {"t": "std", "bt": "A_BYTEFIELD", "bl": 8 * nb, "enc": None, "hl": None}
                        bit, sz = 0, nb
                        cv = self.d(st.binary(min_size=nb, max_size=nb))
                        self.features.add("const:bytefield")
                    else:
                        wide = self.chance(25)      # constants of up to 64 bits (not exactly representable as double)
                        dct = self.int_dct(64 if wide else 32, signed=False)
                        dct.pop("mask", None)
                        bit = self.d(st.integers(0, 7)) if self.chance(30) else 0
                        sz = (bit + dct["bl"] + 7) // 8
                        cv = self.int_value(dct)
                        if wide and dct["bl"] >= 56:
                            from vlib.refcodec import int_range
                            lo_, hi_ = int_range(dct["bt"], dct.get("enc"), dct["bl"])
                            cv = min(hi_, max(lo_, (cv | (1 << 55) | 1)))
                            self.features.add("const:over-53-bits")
                    p = {"pk": "const", "name": self.nid("cc"), "pos": pos, "bit": bit, "dct": dct,
                         "v": cv, "_end": pos + sz}
                    static_layout.append(p)
                    pos += sz
                    self.features.add("pk:const")
                    continue
                if r < 29:
                    dop = self.simple_int_dop(64, identical=True) if self.chance(20) else self.simple_int_dop(32)
                    dop["dct"].pop("mask", None)
                    bit = self.d(st.integers(0, 7)) if self.chance(30) else 0
                    sz = (bit + dop["dct"]["bl"] + 7) // 8
                    p = {"pk": "physconst", "name": self.nid("pc"), "pos": pos, "bit": bit, "dop": dop,
                         "v": self.simple_value(dop), "_end": pos + sz}
                    static_layout.append(p)
                    pos += sz
                    self.features.add("pk:physconst")
                    continue
            # DTC parameter + ENV-DATA-DESC parameter
            if top and not must_static and r in (88, 89, 90, 91) and self.opts.get("envdata", True):
                ddop, dval, dsz = self.dtc_dop()
                dname = self.nid("p")
                dp = {"pk": "value", "name": dname, "pos": None, "bit": 0, "dop": ddop, "default": None}
                if not dynamic:
                    dp["pos"] = pos
                    dp["_end"] = pos + dsz
                    static_layout.append(dp)
                    pos += dsz
                else:
                    dyn_params.append(dp)
                values[dname] = dval
                code = dval if isinstance(dval, int) else [c for n_, c in ddop["dtcs"] if n_ == dval][0]
                envs, evals = [], {}
                if self.chance(60):
                    eps, ev, _ = self.params(0, True, False, max_slots=2)
                    envs.append({"id": self.nid("env"), "name": self.nid("envall"), "all": True, "dtcs": [], "params": eps})
                    evals.update(ev)
                codes = [c for _, c in ddop["dtcs"]]
                for c in codes[:3]:
                    if self.chance(70):
                        eps, ev, _ = self.params(0, True, False, max_slots=2)
                        envs.append({"id": self.nid("env"), "name": self.nid("envdtc"), "all": False, "dtcs": [c], "params": eps})
                        if c == code:
                            evals.update(ev)
                edop = {"k": "envdesc", "id": self.nid("edd"), "param": dname, "envs": envs}
                ename = self.nid("p")
                dynamic = True
                dyn_params.append({"pk": "value", "name": ename, "pos": None, "bit": 0, "dop": edop, "default": None})
                values[ename] = evals
                self.features.add("envdata")
                continue
            # TABLE-KEY + TABLE-STRUCT pair
            if not must_static and r >= 92 and self.opts.get("tables", True):
                # (option, C08 only - such a list can be encoded but the key is needed first for decoding:) the
                # TABLE-STRUCT listed in front of its TABLE-KEY, both explicitly positioned, nothing behind them
                struct_first = (not dynamic) and self.opts.get("table_struct_first") and self.chance(35)
                tk, ts, tval, kval = self.table_group(slot_tail and not struct_first)
                ksz = (tk["table"]["keydop"]["dct"]["bl"] + 7) // 8
                if struct_first:
                    tk["pos"] = pos
                    tk["_end"] = pos + ksz
                    tk["_explicit"] = True
                    ts["pos"] = pos + ksz
                    ts["_before"] = tk["name"]
                    static_layout.append(tk)
                    pos += ksz
                    dynamic = True
                    dyn_params.append(ts)
                    values[ts["name"]] = tval
                    if kval is not None:
                        values[tk["name"]] = kval
                    self.features.add("table-struct-listed-first")
                    break
                if not dynamic:
                    tk["pos"] = pos
                    tk["_end"] = pos + ksz
                    static_layout.append(tk)
                    pos += ksz
                else:
                    dyn_params.append(tk)
                if self.opts.get("table_key_only", True) and self.chance(25):
                    # a TABLE-KEY without TABLE-STRUCT (e.g. the identifier of a "read data by identifier" request)
                    self.features.add("table-key-only")
                    if tk["row"] is None:
                        values[tk["name"]] = tval[0]
                    elif self.chance(40):
                        values[tk["name"]] = tk["row"]
                    continue
                dynamic = True
                dyn_params.append(ts)
                values[ts["name"]] = tval
                if kval is not None:
                    values[tk["name"]] = kval
                continue
            # value-carrying slot
            complex_ok = depth > 0
            pk_kind = "value"
            if r in self.opts.get("dtc_r", (60, 61)) and self.opts.get("dtc", True):
                dop, val, size = self.dtc_dop()
                bit = 0
            elif r in (58, 59) and self.opts.get("system", True):
                # a plain 16 bit unsigned DOP can hold every predefined numeric system value (SECOND ... YEAR)
                dop = {"k": "simple", "id": self.nid("dop"),
                       "dct": {"t": "std", "bt": "A_UINT32", "bl": 16, "enc": None, "hl": self.pick([None, False])},
                       "compu": {"c": "IDENTICAL"}, "pt": "A_UINT32"}
                val = self.simple_value(dop)
                bit, size = 0, (dop["dct"]["bl"] + 7) // 8
                pk_kind = "system"
                self.features.add("pk:system")
            elif complex_ok and r < 55:
                dop, val, size = self.complex(depth - 1, must_static or False, slot_tail and not must_static,
                                              dynamic_ctx=dynamic)
                bit = 0
            elif complex_ok and not must_static and not dynamic and not last_slot and r in (55, 56, 57) \
                    and self.opts.get("mux_bounded", True):
                dop, val, size = self.complex(depth - 1, False, False, dynamic_ctx=False, force="mux", bounded=True)
                bit = 0
                force_next = True
                self.features.add("mux-followed-by-explicit-position")
            elif r < 62 or must_static or (r < 80):
                if r % 5 == 0:
                    dop = self.float_dop()
                    val = self.simple_value(dop)
                    size, bit = dop["dct"]["bl"] // 8, 0
                elif r % 5 == 1:
                    dop, val, size = self.fixed_bytes_like()
                    bit = 0
                else:
                    dop = self.simple_int_dop()
                    val = self.simple_value(dop)
                    bit = self.d(st.integers(0, 7)) if self.chance(35) else 0
                    if bit:
                        self.features.add("bitpos")
                    size = (bit + dop["dct"]["bl"] + 7) // 8
                    if dop["dct"].get("hl") is False and dop["dct"]["bl"] > 8:
                        self.features.add("lowhigh-multibyte")
            else:
                dop, val, lk = self.dyn_leaf(slot_tail, [])
                size, bit = None, 0
                if lk is not None:
                    # the length key goes in front (static part if still static)
                    ksz = (lk["bit"] + lk["dop"]["dct"]["bl"] + 7) // 8
                    if not dynamic:
                        lk["pos"] = pos
                        lk["_end"] = pos + ksz
                        static_layout.append(lk)
                        pos += ksz
                    else:
                        dyn_params.append(lk)
                    if self.chance(40):
                        from vlib.refcodec import to_bytes_value
                        raw = to_bytes_value(dop["dct"]["bt"], dop["dct"].get("enc"),
                                             dop["dct"].get("hl") in (None, True), val)
                        values[lk["name"]] = 8 * len(raw)
                        self.features.add("lenkey-explicit")
            name = self.nid("p")
            p = {"pk": pk_kind, "name": name, "pos": None, "bit": bit, "dop": dop, "default": None}
            if pk_kind == "value" and dop["k"] == "simple" and dop["dct"]["t"] in ("minmax", "leading") \
                    and dop["compu"]["c"] == "IDENTICAL" and self.opts.get("minmax_const", True) and self.chance(25):
                # a constant of MIN-MAX-LENGTH / LEADING-LENGTH type (e.g. a fixed identification string)
                p = {"pk": "const", "name": self.nid("cc"), "pos": None, "bit": 0, "dct": dop["dct"], "v": val}
                self.features.add("const:" + dop["dct"]["t"])
                dynamic = True
                dyn_params.append(p)
                continue
            if pk_kind == "system":
                p["sys"] = self.pick(["SECOND", "MINUTE", "HOUR", "DAY", "MONTH", "YEAR", "CENTURY", "WEEK",
                                      "VENDORSPECIFIC", "MYSYSPARAM"])
            if pk_kind == "value" and dop["k"] == "simple" and dop["dct"]["t"] == "std" and self.chance(12):
                p["default"] = val if self.chance(50) else self.simple_or_same(dop, val)
                self.features.add("default-value")
            if size is None or dynamic:
                dynamic = True
                dyn_params.append(p)
            else:
                gap = self.pick([0, 0, 0, 0, 1, 2])
                if gap:
                    self.features.add("gap")
                p["pos"] = pos + gap
                p["_end"] = pos + gap + size
                if forced_explicit:
                    p["_explicit"] = True
                if dop["k"] == "mux":
                    p["_noimp"] = True      # the parameter listed behind it must not rely on the cursor
                static_layout.append(p)
                pos += gap + size
            if p.get("default") is not None and self.chance(60):
                pass  # omitted: default applies
            else:
                values[name] = val
        if must_static and dynamic:
            raise AssertionError("generator bug: dynamic content where static was required")
        # ---- list order and explicit/implicit positions for the static part -------------
        # every static parameter carries its absolute "pos" and "_end".  The last listed static
        # parameter is the positionally last one (E19: the implicit cursor after a list is the end
        # of its last-listed parameter).
        order = list(static_layout)
        if order:
            lastp = max(reversed(order), key=lambda q: q["_end"])
            order.remove(lastp)
            if len(order) > 1 and self.chance(25) and not any(q["pk"] == "lenkey" for q in order):
                order = list(self.d(st.permutations(order)))
                self.features.add("out-of-order")
            order.append(lastp)
            if top and not dyn_params and len(order) > 1 and self.opts.get("last_listed_not_last") and self.chance(35) \
                    and not any(q["pk"] == "lenkey" for q in order):
                # nothing follows a top-level list, so the cursor after it is immaterial and the positionally
                # last parameter need not be listed last (the PDU still ends at the largest end position)
                # (the parameter listed last instead must not care about being "at the end of the PDU")
                plain = [q for q in order[:-1] if q["pk"] in ("const", "reserved", "matchreq") or
                         (q["pk"] == "value" and q["dop"]["k"] == "simple" and q["dop"]["dct"]["t"] == "std")]
                if plain:
                    q = self.pick(plain)
                    order.remove(q)
                    order.append(q)
                    self.features.add("last-listed-not-last")
        cursor = 0
        prev_noimp = False
        for q in order:
            if q["pos"] == cursor and not prev_noimp and not q.get("_explicit") and self.chance(45):
                q["pos"] = None
                self.features.add("implicit-pos")
            cursor = q["_end"]
            prev_noimp = bool(q.get("_noimp"))
        static_end = pos
        out = order + dyn_params
        for q in list(out):
            if q.get("_before"):
                out.remove(q)
                out.insert([x["name"] for x in out].index(q.pop("_before")), q)
        for q in out:
            q.pop("_end", None)
            q.pop("_explicit", None)
            q.pop("_noimp", None)
        if not out:
            dop = self.simple_int_dop(16)
            val = self.simple_value(dop)
            out = [{"pk": "value", "name": self.nid("p"), "pos": None, "bit": 0, "dop": dop, "default": None}]
            values[out[0]["name"]] = val
            static_end = (dop["dct"]["bl"] + 7) // 8
        return out, values, (None if dynamic else static_end)

    def simple_or_same(self, dop, val):
        try:
            return self.simple_value(dop)
        except AssertionError:
            return val

    def dtc_dop(self):
        bl = self.pick([16, 24, 32])
        codes = sorted({self.d(st.integers(0, (1 << bl) - 1)) for _ in range(self.d(st.integers(1, 4)))})
        dtcs = [[f"DTC{i}", c] for i, c in enumerate(codes)]
        dop = {"k": "dtc", "id": self.nid("dtcdop"),
               "dct": {"t": "std", "bt": "A_UINT32", "bl": bl, "enc": None, "hl": self.pick([None, False])},
               "dtcs": dtcs}
        if self.opts.get("dtc_linked", True) and self.chance(40):
            # LINKED-DTC-DOPS: some of the effective DTCs are inherited from another DTC-DOP, which also has
            # DTCs that are explicitly not inherited or hidden by an own DTC of the same name
            k = self.d(st.integers(0, len(dtcs) - 1))
            own, inh = dtcs[:k], dtcs[k:]
            unused = [c for c in (0, 1, 2, 3, 4, 5, (1 << bl) - 1, (1 << bl) - 2) if c not in codes]
            hidden = [[f"DTCH{i}", unused.pop(0)] for i in range(self.d(st.integers(0, 2)))]
            clash = [[own[0][0], unused.pop(0)]] if own and self.chance(50) else []
            dop["linked"] = {"id": self.nid("dtcdopL"), "own": [n for n, _ in own], "hidden": hidden, "clash": clash}
            self.features.add("dtc-linked")
            if inh:
                self.features.add("dtc-inherited")
        name, code = self.pick(dtcs)
        if dop.get("linked") and self.chance(60):
            name, code = dtcs[-1]   # an inherited one (if any is)
        val = code if self.chance(60) else name
        self.features.add("dtc")
        return dop, val, bl // 8

    def table_group(self, tail: bool):
        ktype = self.pick(["int", "int", "int", "str", "bytes"]) if self.opts.get("table_key_types", True) else "int"
        if ktype == "int":
            kbits = self.pick([8, 8, 16])
            kdop = {"k": "simple", "id": self.nid("dop"),
                    "dct": {"t": "std", "bt": "A_UINT32", "bl": kbits, "enc": None, "hl": self.pick([None, False])},
                    "compu": {"c": "IDENTICAL"}, "pt": "A_UINT32"}
            keys = sorted({self.d(st.integers(0, (1 << kbits) - 1)) for _ in range(self.d(st.integers(1, 3)))})
        elif ktype == "str":
            kbits = 16
            kdop = {"k": "simple", "id": self.nid("dop"),
                    "dct": {"t": "std", "bt": "A_ASCIISTRING", "bl": 16, "enc": None, "hl": None},
                    "compu": {"c": "IDENTICAL"}, "pt": "A_UNICODE2STRING"}
            keys = sorted({self.d(st.text(alphabet="ABXY01", min_size=2, max_size=2)) for _ in range(self.d(st.integers(1, 3)))})
            self.features.add("table-key:str")
        else:
            kbits = 16
            kdop = {"k": "simple", "id": self.nid("dop"),
                    "dct": {"t": "std", "bt": "A_BYTEFIELD", "bl": 16, "enc": None, "hl": None},
                    "compu": {"c": "IDENTICAL"}, "pt": "A_BYTEFIELD"}
            keys = sorted({self.d(st.binary(min_size=2, max_size=2)) for _ in range(self.d(st.integers(1, 3)))})
            self.features.add("table-key:bytes")
        rows = []
        for i, kv in enumerate(keys):
            row = {"name": f"row{i}", "id": self.nid("tr"), "key": kv, "st": None, "dop": None}
            if self.chance(70):
                row["st"], _, _ = self.struct(0, not tail, tail)
            else:
                row["dop"] = self.simple_int_dop(32)
            rows.append(row)
        real_rows = list(rows)
        if self.opts.get("table_empty_row", True) and self.chance(25):
            # a row that references neither a structure nor a DOP (it cannot be encoded, but its key can arrive)
            used_keys = [r["key"] for r in rows]
            cand = [kv for kv in ([0, 1, 2, 255] if ktype == "int" else ["ZZ", "Z0"] if ktype == "str" else [b"\xfe\xfe", b"\x00\x00"])
                    if kv not in used_keys]
            if cand:
                rows.append({"name": "row_empty", "id": self.nid("tr"), "key": cand[0], "st": None, "dop": None})
                self.features.add("table-empty-row")
        table = {"k": "table", "id": self.nid("tab"), "keydop": kdop, "rows": rows}
        kname = self.nid("tk")
        tk = {"pk": "tablekey", "name": kname, "id": self.nid("tkid"), "pos": None, "bit": 0, "table": table, "row": None}
        ts = {"pk": "tablestruct", "name": self.nid("ts"), "pos": None, "key": kname, "snref": self.chance(40)}
        row = self.pick(real_rows)
        if self.opts.get("static_table_row", True) and self.chance(30):
            tk["row"] = row["name"]
            self.features.add("static-table-row")
        content = self.values_for_struct(row["st"]) if row["st"] is not None else self.simple_value(row["dop"])
        kval = row["name"] if self.chance(35) else None
        self.features.add("table")
        return tk, ts, [row["name"], content], kval

    def env_item_struct(self):
        """structure [DTC parameter, ENV-DATA-DESC parameter]: one record of a DTC + environment data list"""
        ddop, _, dsz = self.dtc_dop()
        dname = self.nid("p")
        envs = []
        if self.chance(60):
            eps, _, _ = self.params(0, True, False, max_slots=2)
            envs.append({"id": self.nid("env"), "name": self.nid("envall"), "all": True, "dtcs": [], "params": eps})
        for _, c in ddop["dtcs"][:3]:
            if self.chance(75):
                eps, _, _ = self.params(0, True, False, max_slots=2)
                envs.append({"id": self.nid("env"), "name": self.nid("envdtc"), "all": False, "dtcs": [c], "params": eps})
        edop = {"k": "envdesc", "id": self.nid("edd"), "param": dname, "envs": envs}
        self.features.add("envdata")
        self.features.add("envdata-in-field")
        self.features.add("struct")
        return {"k": "struct", "id": self.nid("st"), "bs": None, "params": [
            {"pk": "value", "name": dname, "pos": 0, "bit": 0, "dop": ddop, "default": None},
            {"pk": "value", "name": self.nid("p"), "pos": None, "bit": 0, "dop": edop, "default": None}]}

    def emfield(self, tail: bool):
        """dynamic end-marker field; at the tail of the PDU no termination value is on the wire, otherwise
        the field is wrapped into a structure with BYTE-SIZE that has room for the termination value (E17)"""
        tv = self.pick([0xFF, 0x00])
        tdop = {"k": "simple", "id": self.nid("dop"),
                "dct": {"t": "std", "bt": "A_UINT32", "bl": 8, "enc": None, "hl": None},
                "compu": {"c": "IDENTICAL"}, "pt": "A_UINT32"}
        leaf = self.simple_int_dop(16, identical=True)
        leaf["dct"].pop("mask", None)
        cv = self.pick([0x01, 0x10, 0x7F])
        if self.opts.get("emfield_restricted", True) and self.chance(45):
            # end-marker DOP with a restricted internal domain (LINEAR with limits): an item that starts with a
            # byte outside that domain is not an end marker (the probe's conversion error just means "no")
            k = self.pick([1, 2, 5, 20])
            hi = self.pick([50, 100, 200])
            x = self.d(st.integers(0, hi))          # the end marker on the wire
            tv = x + k                               # ... is the image of the TERMINATION-VALUE
            tdop = {"k": "simple", "id": self.nid("dop"),
                    "dct": {"t": "std", "bt": "A_UINT32", "bl": 8, "enc": None, "hl": None},
                    "compu": {"c": "LINEAR", "n0": k, "n1": 1, "d": 1, "lo": 0, "hi": hi}, "pt": "A_UINT32"}
            cands = [c for c in (tv, tv, tv, hi + 1, 0xFF, x + 1, x - 1, 0x01) if 0 <= c <= 0xFF and c != x]
            cv = self.pick(cands)
            self.features.add("emfield-restricted-marker")
            if cv > hi:
                self.features.add("emfield-item-outside-marker-domain")
        st_ = {"k": "struct", "id": self.nid("st"), "bs": None, "params": [
            {"pk": "const", "name": self.nid("cc"), "pos": 0, "bit": 0,
             "dct": {"t": "std", "bt": "A_UINT32", "bl": 8, "enc": None, "hl": None}, "v": cv},
            {"pk": "value", "name": self.nid("p"), "pos": 1, "bit": 0, "dop": leaf, "default": None}]}
        isz = 1 + (leaf["dct"]["bl"] + 7) // 8
        n = self.d(st.integers(0, 3))
        vals = [self.values_for_struct(st_) for _ in range(n)]
        em = {"k": "emfield", "id": self.nid("em"), "st": st_, "tdop": tdop, "tv": tv}
        self.features.add("emfield")
        if n >= 2:
            self.features.add("field>=2")
        if tail:
            return em, vals, None
        total = n * isz + 1 + self.pick([0, 1])
        wrap = {"k": "struct", "id": self.nid("st"), "bs": total, "params": [
            {"pk": "value", "name": self.nid("p"), "pos": None, "bit": 0, "dop": em, "default": None}]}
        self.features.add("BYTE-SIZE")
        return wrap, {wrap["params"][0]["name"]: vals}, total

    # ------------------------------------------------------------------ complex DOPs
    def struct(self, depth: int, must_static: bool, tail: bool, min_prefix: bool = False):
        params, values, size = self.params(depth, must_static, tail, max_slots=4)
        st_ = {"k": "struct", "id": self.nid("st"), "params": params, "bs": None}
        if size is not None and self.chance(25):
            st_["bs"] = size + self.pick([0, 1, 2])
            size = st_["bs"]
            self.features.add("BYTE-SIZE")
        self.features.add("struct")
        return st_, values, size

    def item_struct_lengthkey(self, owner: str):
        """field item made of a LENGTH-KEY and a PARAM-LENGTH-INFO value (key left implicit)"""
        kname = self.nid("lk")
        kdop = {"k": "simple", "id": self.nid("dop"),
                "dct": {"t": "std", "bt": "A_UINT32", "bl": 8, "enc": None, "hl": None},
                "compu": {"c": "IDENTICAL"}, "pt": "A_UINT32"}
        bt = self.pick(["A_BYTEFIELD", "A_UINT32", "A_UINT32", "A_UTF8STRING"])
        pdct = {"t": "paramlen", "bt": bt, "key": kname, "enc": None, "hl": None}
        pdop = {"k": "simple", "id": self.nid("dop"), "dct": pdct, "compu": {"c": "IDENTICAL"},
                "pt": {"A_BYTEFIELD": "A_BYTEFIELD", "A_UINT32": "A_UINT32"}.get(bt, "A_UNICODE2STRING")}
        self.features.add(f"{owner}-lengthkey-items")
        self.features.add("dct:paramlen")
        self.features.add("struct")
        return {"k": "struct", "id": self.nid("st"), "bs": None, "params": [
            {"pk": "lenkey", "name": kname, "id": self.nid("lkid"), "pos": 0, "bit": 0, "dop": kdop},
            {"pk": "value", "name": self.nid("p"), "pos": None, "bit": 0, "dop": pdop, "default": None}]}

    def item_struct_terminated(self, owner: str):
        """field item ending in a terminated MIN-MAX value"""
        lead = {"k": "simple", "id": self.nid("dop"),
                "dct": {"t": "std", "bt": "A_UINT32", "bl": 8, "enc": None, "hl": None},
                "compu": {"c": "IDENTICAL"}, "pt": "A_UINT32"}
        bt = self.pick(["A_BYTEFIELD", "A_ASCIISTRING", "A_UNICODE2STRING"])
        unit = 2 if bt == "A_UNICODE2STRING" else 1
        mdct = {"t": "minmax", "bt": bt, "min": 0, "max": self.pick([None, None, 4 * unit]),
                "term": self.pick(["ZERO", "HEX-FF"]), "enc": None, "hl": self.pick([None, False])}
        mdop = {"k": "simple", "id": self.nid("dop"), "dct": mdct, "compu": {"c": "IDENTICAL"},
                "pt": "A_BYTEFIELD" if bt == "A_BYTEFIELD" else "A_UNICODE2STRING"}
        self.features.add(f"{owner}-terminated-items")
        self.features.add("dct:minmax")
        self.features.add("struct")
        return {"k": "struct", "id": self.nid("st"), "bs": None, "params": [
            {"pk": "value", "name": self.nid("p"), "pos": 0, "bit": 0, "dop": lead, "default": None},
            {"pk": "value", "name": self.nid("p"), "pos": None, "bit": 0, "dop": mdop, "default": None}]}

    def complex(self, depth: int, must_static: bool, tail: bool, dynamic_ctx: bool, force=None, bounded: bool = False):
        kinds = ["struct", "struct", "sfield"]
        if self.opts.get("emfield", True):
            kinds += ["emfield"]
        if not must_static:
            kinds += ["dlfield", "mux", "mux"]
            if tail:
                kinds += ["eopf"]
        focus = self.opts.get("focus")
        if focus in kinds:
            kinds = kinds + [focus] * (2 * len(kinds))      # a generator biased towards one kind of complex DOP
        k = self.pick(kinds)
        if force is not None:
            k = force
        if k == "emfield":
            return self.emfield(tail and not must_static)
        if k == "struct":
            return self.struct(depth, must_static, tail)
        if k == "sfield" and not tail and self.opts.get("sfield_dynamic_items", True) and self.chance(30):
            # items of bounded dynamic size inside fixed ITEM-BYTE-SIZE slots (only where the field is followed
            # by another parameter: whether the last item of a field at the end of the PDU may drop its
            # terminator although padding follows is not fixed by the rules)
            lead = self.simple_int_dop(8, signed=False, identical=True)
            lead["dct"].pop("mask", None)
            lead["dct"]["bl"] = 8
            lead["dct"]["enc"] = None
            if self.chance(50):
                mx = self.pick([1, 2, 3])
                dct = {"t": "minmax", "bt": "A_BYTEFIELD", "min": 0, "max": mx,
                       "term": self.pick(["ZERO", "HEX-FF"]), "enc": None, "hl": None}
                bound = mx
                self.features.add("dct:minmax")
            else:
                dct = {"t": "leading", "bt": "A_BYTEFIELD", "bl": 8, "enc": None, "hl": None}
                bound = 1 + 4
                self.features.add("dct:leading")
            ddop = {"k": "simple", "id": self.nid("dop"), "dct": dct, "compu": {"c": "IDENTICAL"}, "pt": "A_BYTEFIELD"}
            s = {"k": "struct", "id": self.nid("st"), "bs": None, "params": [
                {"pk": "value", "name": self.nid("p"), "pos": 0, "bit": 0, "dop": lead, "default": None},
                {"pk": "value", "name": self.nid("p"), "pos": None, "bit": 0, "dop": ddop, "default": None}]}
            n = self.d(st.integers(1, 3))
            isz = 1 + bound + self.pick([0, 0, 1])
            vals = [self.values_for_struct(s) for _ in range(n)]
            self.features.add("sfield")
            self.features.add("sfield-dynamic-items")
            self.features.add("struct")
            if n >= 2:
                self.features.add("field>=2")
            return {"k": "sfield", "id": self.nid("sf"), "st": s, "n": n, "isz": isz}, vals, n * isz
        if k == "sfield":
            s, _, size = self.struct(0, True, False)
            if size == 0:
                return self.struct(depth, must_static, tail)
            n = self.d(st.integers(1, 3))
            isz = size + self.pick([0, 0, 1])
            vals = [self.values_for_struct(s) for _ in range(n)]
            self.features.add("sfield")
            if n >= 2:
                self.features.add("field>=2")
            return {"k": "sfield", "id": self.nid("sf"), "st": s, "n": n, "isz": isz}, vals, n * isz
        if k == "dlfield":
            item_static = self.chance(55)
            if not item_static and self.opts.get("envdata", True) and self.chance(30):
                s = self.env_item_struct()
                size = None
            elif not item_static and self.chance(35):
                # items made of a LENGTH-KEY and a PARAM-LENGTH-INFO value (the key is left implicit: every item
                # determines its own length)
                kname = self.nid("lk")
                kdop = {"k": "simple", "id": self.nid("dop"),
                        "dct": {"t": "std", "bt": "A_UINT32", "bl": 8, "enc": None, "hl": None},
                        "compu": {"c": "IDENTICAL"}, "pt": "A_UINT32"}
                bt = self.pick(["A_BYTEFIELD", "A_UINT32", "A_UINT32", "A_UTF8STRING"])
                pdct = {"t": "paramlen", "bt": bt, "key": kname, "enc": None, "hl": None}
                pdop = {"k": "simple", "id": self.nid("dop"), "dct": pdct, "compu": {"c": "IDENTICAL"},
                        "pt": {"A_BYTEFIELD": "A_BYTEFIELD", "A_UINT32": "A_UINT32"}.get(bt, "A_UNICODE2STRING")}
                s = {"k": "struct", "id": self.nid("st"), "bs": None, "params": [
                    {"pk": "lenkey", "name": kname, "id": self.nid("lkid"), "pos": 0, "bit": 0, "dop": kdop},
                    {"pk": "value", "name": self.nid("p"), "pos": None, "bit": 0, "dop": pdop, "default": None}]}
                size = None
                self.features.add("dlfield-lengthkey-items")
                self.features.add("dct:paramlen")
                self.features.add("struct")
            elif not item_static and self.chance(50):
                # items ending in a terminated MIN-MAX value: the terminator of every item but the very last one
                # of a field at the end of the PDU must be present
                lead = {"k": "simple", "id": self.nid("dop"),
                        "dct": {"t": "std", "bt": "A_UINT32", "bl": 8, "enc": None, "hl": None},
                        "compu": {"c": "IDENTICAL"}, "pt": "A_UINT32"}
                bt = self.pick(["A_BYTEFIELD", "A_ASCIISTRING", "A_UNICODE2STRING"])
                unit = 2 if bt == "A_UNICODE2STRING" else 1
                mdct = {"t": "minmax", "bt": bt, "min": 0, "max": self.pick([None, None, 4 * unit]),
                        "term": self.pick(["ZERO", "HEX-FF"]), "enc": None, "hl": self.pick([None, False])}
                mdop = {"k": "simple", "id": self.nid("dop"), "dct": mdct, "compu": {"c": "IDENTICAL"},
                        "pt": "A_BYTEFIELD" if bt == "A_BYTEFIELD" else "A_UNICODE2STRING"}
                s = {"k": "struct", "id": self.nid("st"), "bs": None, "params": [
                    {"pk": "value", "name": self.nid("p"), "pos": 0, "bit": 0, "dop": lead, "default": None},
                    {"pk": "value", "name": self.nid("p"), "pos": None, "bit": 0, "dop": mdop, "default": None}]}
                size = None
                self.features.add("dlfield-terminated-items")
                self.features.add("dct:minmax")
                self.features.add("struct")
            else:
                s, _, size = self.struct(0, item_static, False)
            cbits = self.pick([8, 8, 16, 4])
            cbt = self.pick(["A_UINT32", "A_UINT32", "A_UINT32", "A_INT32"])     # (a signed count can arrive negative)
            cdop = {"k": "simple", "id": self.nid("dop"),
                    "dct": {"t": "std", "bt": cbt, "bl": cbits, "enc": None, "hl": self.pick([None, False])},
                    "compu": {"c": "IDENTICAL"}, "pt": cbt}
            if cbt == "A_INT32":
                self.features.add("dlfield-signed-count")
            cbit = self.d(st.integers(0, 4)) if cbits == 4 else 0
            off = (cbit + cbits + 7) // 8 + self.pick([0, 0, 1])
            n = self.d(st.integers(2, 3)) if ({"dlfield-terminated-items", "dlfield-lengthkey-items"} & self.features) \
                and self.chance(70) else self.d(st.integers(0, 3))
            vals = [self.values_for_struct(s) for _ in range(n)]
            self.features.add("dlfield")
            if n >= 2:
                self.features.add("field>=2")
            return ({"k": "dlfield", "id": self.nid("dl"), "st": s, "off": off,
                     "cnt": {"dop": cdop, "bp": 0, "bit": cbit}}, vals, None)
        if k == "eopf" and self.opts.get("envdata", True) and self.chance(45):
            s = self.env_item_struct()
            n = self.d(st.integers(1, 3))
            vals = [self.values_for_struct(s) for _ in range(n)]
            self.features.add("eopf")
            if n >= 2:
                self.features.add("field>=2")
            return {"k": "eopf", "id": self.nid("eo"), "st": s, "min": None, "max": None}, vals, None
        if k == "eopf" and self.opts.get("eopf_dynamic_items", True) and self.chance(35):
            # items of dynamic size: only the very last item of the field is "at the end of the PDU"
            s = self.item_struct_terminated("eopf") if self.chance(60) else self.item_struct_lengthkey("eopf")
            n = self.d(st.integers(2, 3))
            vals = [self.values_for_struct(s) for _ in range(n)]
            self.features.add("eopf")
            self.features.add("field>=2")
            return {"k": "eopf", "id": self.nid("eo"), "st": s, "min": None, "max": None}, vals, None
        if k == "eopf":
            s, _, size = self.struct(0, True, False)
            if not size:
                return self.struct(depth, must_static, tail)
            n = self.d(st.integers(0, 3))
            vals = [self.values_for_struct(s) for _ in range(n)]
            self.features.add("eopf")
            if n >= 2:
                self.features.add("field>=2")
            # ("isz": size of the items, all of them static; a hint for checks, not part of the description)
            return {"k": "eopf", "id": self.nid("eo"), "st": s, "min": None, "max": None, "isz": size}, vals, None
        if k == "mux":
            kbits = self.pick([8, 8, 16, 4])
            kbit = self.d(st.integers(0, 4)) if kbits == 4 else 0
            kdop = {"k": "simple", "id": self.nid("dop"),
                    "dct": {"t": "std", "bt": "A_UINT32", "bl": kbits, "enc": None, "hl": self.pick([None, False])},
                    "compu": {"c": "IDENTICAL"}, "pt": "A_UINT32"}
            ksz = (kbit + kbits + 7) // 8
            bp = ksz + self.pick([0, 0, 1])
            cases, lo = [], self.pick([0, 0, 0, 1, 2, 3])
            hi_max = (1 << kbits) - 1
            # bounded: every case has a fixed size, so the whole multiplexer fits into a known number of bytes and
            # a parameter with an explicit BYTE-POSITION can follow it (the cursor behind the mux is then immaterial)
            allow_nostruct = tail or self.opts.get("mux_nostruct_anywhere") or bounded
            csizes = [ksz]
            for c in range(self.d(st.integers(1, 3))):
                hi = min(hi_max, lo + self.pick([0, 0, 1, 2]))
                if lo > hi_max:
                    break
                cs = None
                if not (allow_nostruct and self.chance(35 if bounded else 15)):
                    cs, _, csz = self.struct(0, True if bounded else (not tail and self.chance(70)), False if bounded else tail)
                    csizes.append(bp + (csz or 0))
                else:
                    self.features.add("mux-case-without-structure")
                cases.append({"name": f"c{c}", "lo": lo, "hi": hi, "st": cs, "snref": self.chance(30)})
                if self.opts.get("mux_interval_types", True) and self.chance(35):
                    # the same key range written with explicit INTERVAL-TYPEs (an OPEN limit excludes its value)
                    cases[-1]["lo_t"] = self.pick(["CLOSED", "OPEN", "OPEN"]) if lo > 0 else "CLOSED"
                    cases[-1]["hi_t"] = self.pick(["CLOSED", "OPEN", "OPEN", None])
                    if "OPEN" in (cases[-1]["lo_t"], cases[-1]["hi_t"]):
                        self.features.add("mux-open-limit")
                lo = hi + 1 + self.pick([0, 0, 2])
            if len(cases) > 1 and self.chance(40):
                cases = list(self.d(st.permutations(cases)))     # cases need not be declared in ascending order
                self.features.add("mux-cases-unordered")
            default = None
            used = set()
            for c in cases:
                used |= set(range(c["lo"], c["hi"] + 1))
            free_keys = [k_ for k_ in range(0, min(hi_max, 40) + 1) if k_ not in used]
            if free_keys and self.opts.get("mux_default", True) and self.chance(30):
                ds = None
                if self.chance(80):
                    ds, _, dsz = self.struct(0, True if bounded else (not tail and self.chance(70)), False if bounded else tail)
                    csizes.append(bp + (dsz or 0))
                default = {"name": "dflt", "st": ds}
                self.features.add("mux-default-case")
            muxdop = {"k": "mux", "id": self.nid("mx"), "bp": bp, "key": {"dop": kdop, "bp": 0, "bit": kbit},
                      "cases": cases, "default": default}
            self.features.add("mux")
            msize = max(csizes) if bounded else None
            if default is not None and self.chance(50):
                content = self.values_for_struct(default["st"]) if default["st"] is not None else {}
                if self.opts.get("mux_default_by_name", True) and self.chance(50):
                    # selected by its name: the key value is chosen by odxtools (C01 self-consistency only)
                    self.features.add("mux-default-by-name")
                    return muxdop, ["dflt", content], msize
                self.features.add("mux-default-selected")
                return muxdop, [self.pick(free_keys), content], msize
            case = self.pick(cases)
            content = self.values_for_struct(case["st"]) if case["st"] is not None else {}
            form = self.d(st.integers(0, 9))
            if form < 7 or self.opts.get("mux_by_name_only"):
                val = [case["name"], content]
            else:
                kv = self.d(st.integers(case["lo"], case["hi"]))
                val = [kv, content]
                self.features.add("mux-by-key")
            return muxdop, val, msize
        raise AssertionError(k)

    # ------------------------------------------------------------------ values for an existing structure
    def env_values(self, edop, dtc_param, dtc_value) -> dict:
        code = dtc_value if isinstance(dtc_value, int) else [c for n_, c in dtc_param["dop"]["dtcs"] if n_ == dtc_value][0]
        out = {}
        for sel in (lambda e: e.get("all"), lambda e: code in e.get("dtcs", [])):
            for e in edop["envs"]:
                if sel(e):
                    out.update(self.values_for_struct({"params": e["params"]}))
                    break
        return out

    def values_for_struct(self, s) -> dict:
        out = {}
        for p in s["params"]:
            if p["pk"] == "value" and p["dop"]["k"] == "envdesc":
                dp = [q for q in s["params"] if q["name"] == p["dop"]["param"]][0]
                out[p["name"]] = self.env_values(p["dop"], dp, out[dp["name"]])
            elif p["pk"] in ("value", "system"):
                if p.get("default") is not None and self.chance(50):
                    continue
                out[p["name"]] = self.value_for_dop(p["dop"])
            elif p["pk"] == "tablestruct":
                tk = [q for q in s["params"] if q["pk"] == "tablekey" and q["name"] == p["key"]][0]
                rows = tk["table"]["rows"]
                row = [r for r in rows if r["name"] == tk["row"]][0] if tk.get("row") else \
                    self.pick([r for r in rows if r["st"] is not None or r["dop"] is not None])
                content = self.values_for_struct(row["st"]) if row["st"] is not None else self.simple_value(row["dop"])
                out[p["name"]] = [row["name"], content]
        # a LENGTH-KEY may also be given explicitly (it then must agree with the value that uses it); in field
        # items every item has its own key value
        for p in s["params"]:
            if p["pk"] == "lenkey" and self.opts.get("lenkey_explicit_in_items", True) and self.chance(35):
                users = [q for q in s["params"] if q["pk"] == "value" and q["dop"]["k"] == "simple" and
                         q["dop"]["dct"]["t"] == "paramlen" and q["dop"]["dct"].get("key") == p["name"]
                         and q["dop"]["dct"]["bt"] != "A_UINT32" and q["name"] in out]
                if len(users) == 1:
                    from vlib.refcodec import to_bytes_value
                    dct = users[0]["dop"]["dct"]
                    raw = to_bytes_value(dct["bt"], dct.get("enc"), dct.get("hl") in (None, True), out[users[0]["name"]])
                    out[p["name"]] = 8 * len(raw)
                    self.features.add("lenkey-explicit-in-struct")
        return out

    def value_for_dop(self, dop):
        k = dop["k"]
        if k == "simple":
            dct = dop["dct"]
            if dct["t"] == "std":
                if dct["bt"] in ("A_INT32", "A_UINT32", "A_FLOAT32", "A_FLOAT64"):
                    return self.simple_value(dop)
                if dct["bt"] == "A_BYTEFIELD":
                    n = dct["bl"] // 8
                    v = self.d(st.binary(min_size=n, max_size=n))
                    if dct.get("mask") is not None:
                        mb = (dct["mask"] & ((1 << dct["bl"]) - 1)).to_bytes(n, "big")
                        v = bytes(a & b for a, b in zip(v, mb))
                    return v
                return self.fixed_string_like(dct)
            return self.dyn_value(dct)
        if k == "dtc":
            name, code = self.pick(dop["dtcs"])
            return code if self.chance(60) else name
        if k == "struct":
            return self.values_for_struct(dop)
        if k == "sfield":
            return [self.values_for_struct(dop["st"]) for _ in range(dop["n"])]
        if k in ("dlfield", "eopf", "emfield"):
            return [self.values_for_struct(dop["st"]) for _ in range(self.d(st.integers(0, 3)))]
        if k == "mux":
            case = self.pick(dop["cases"])
            return [case["name"], self.values_for_struct(case["st"]) if case["st"] is not None else {}]
        raise AssertionError(k)

    def fixed_string_like(self, dct):
        from vlib.refcodec import str_codec
        codec = str_codec(dct["bt"], dct.get("enc"), dct.get("hl") in (None, True))
        alpha = {"A_ASCIISTRING": LATIN, "A_UTF8STRING": UTF8, "A_UNICODE2STRING": UCS2}[dct["bt"]]
        n = dct["bl"] // 8
        out, nb = "", 0
        for _ in range(16):
            if nb == n:
                break
            ch = self.pick(alpha)
            e = len(ch.encode(codec))
            if nb + e <= n:
                out += ch
                nb += e
        while nb < n:
            out += "A"
            nb += len("A".encode(codec))
        return out


@st.composite
def message_case(draw, depth: int = 2, response_pct: int = 35, opts: Optional[dict] = None):
    g = G(draw, opts)
    response = g.chance(response_pct)
    params, values, size = g.params(depth, False, True, top=True, response=response, max_slots=6)
    msg = {"kind": "response" if response else "request", "params": params}
    if response:
        msg["rtype"] = "POS-RESPONSE"
        if g.chance(30) and (opts or {}).get("nrc", True):
            # negative response: an NRC-CONST parameter deliberately overlapped by a VALUE parameter (E10a);
            # both are appended behind the last static parameter with explicit positions where possible
            msg["rtype"] = "NEG-RESPONSE"
            if size is not None:
                vals = sorted({draw(st.one_of(st.just(0), st.integers(0, 255))) for _ in range(draw(st.integers(1, 3)))})
                dct = {"t": "std", "bt": "A_UINT32", "bl": 8, "enc": None, "hl": None}
                nrc = {"pk": "nrc", "name": g.nid("nrc"), "pos": size, "bit": 0, "dct": dct, "vals": vals}
                vdop = {"k": "simple", "id": g.nid("dop"), "dct": dict(dct), "compu": {"c": "IDENTICAL"}, "pt": "A_UINT32"}
                vp = {"pk": "value", "name": g.nid("p"), "pos": size, "bit": 0, "dop": vdop, "default": None}
                params.extend([nrc, vp] if g.chance(70) else [vp, nrc])
                values[vp["name"]] = g.pick(vals)
                g.features.add("nrc")
    request = None
    if response:
        need = getattr(g, "req_need", 0)
        request = draw(st.binary(min_size=need, max_size=need + 2))
    # alternative values for the top-level VALUE parameters with static simple DOPs (C08 free-parameter clause)
    alt = {}
    if (opts or {}).get("alt"):
        for p in params:
            if p["pk"] == "value" and p["dop"]["k"] == "simple" and p["dop"]["dct"]["t"] == "std":
                alt[p["name"]] = g.value_for_dop(p["dop"])
    out = {"msg": msg, "values": values, "request": request, "features": sorted(g.features)}
    if alt:
        out["alt"] = alt
    return out
