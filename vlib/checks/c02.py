"""C02 — encoded PDUs are bit-exact with the ODX wire format (DESIGN 3/C02).

Oracle: the independent reference encoder vlib/refcodec.py.  Stages:
  atomic   exhaustive/sampled sweep base type x encoding x byte order x bit length x bit position x
           boundary values through EncodeState.emplace_atomic_value / DecodeState.extract_atomic_value
           and through one-parameter requests loaded from XML
  bitstruct direct comparison of bitstruct.c and pure bitstruct on every format the codec can build
  hyp      generated composite descriptions x values, both bit-packing backends (sub-process with
           bitstruct.c poisoned), decode of reference-built PDUs, overlap warning iff
  overlap  dedicated overlap generator
"""
from __future__ import annotations

import hashlib
import json
import os
import pickle
import random
import subprocess
import sys
import tempfile
import warnings

from vlib import core, emit, gen, known, msgharness as mh, refcodec

PROPERTY = "C02"
RULE = ("generated ODX message descriptions (IR -> XML -> odxtools) x value assignments valid by construction; "
        "each case: odxtools PDU == reference PDU, odxtools decode of the reference PDU == reference values, "
        "overlap warning iff the reference mask has a doubly claimed bit; same under both bit-packing backends. "
        "Non-trivial = PDU has >= 2 bytes and the description uses a non-default feature (bit position != 0, "
        "low-high multi-byte, negative signed, non-identical compu, structure, field, mux, length key, mask, "
        "out-of-order positions) or the case is an atomic-sweep point with bit position != 0, a bit length that "
        "is not a multiple of 8 or low-high order; distinct = digest of (description, values)")
ASSUMPTIONS = [
    "reference rules of DESIGN 2.3 (placement: n-bit object at bit b occupies ceil((b+n)/8) bytes, word = raw<<b big-endian, byte-reversed for low-high numeric types)",
    "implicit length key of an integer = minimal whole number of bytes",
    "a multiplexer's default case selected by name is encoded with the smallest non-negative key no regular case covers (odxtools' documented choice; ODX does not fix it)",
    "MIN-MAX terminator omitted at MAX-LENGTH and at the end of the PDU (odxtools source comments and pinned tests)",
    "padding bytes of BYTE-SIZE structures / static field items are zero",
    "non-identical compu methods only on integers <= 32 bits (exactness beyond 2^53 is C07's subject)",
    "TABLE-KEY with static TABLE-ROW-REF, condensed bit masks, default mux cases selected by name are outside C02's reference (wire image not fixed)",
]
MUST_HIT = ["bitpos", "lowhigh-multibyte", "negative", "struct", "BYTE-SIZE", "sfield", "dlfield", "mux",
            "dct:minmax", "dct:leading", "dct:paramlen", "packed-subbyte", "out-of-order", "implicit-pos",
            "compu:LINEAR", "compu:TEXTTABLE", "A_FLOAT32", "A_FLOAT64", "A_BYTEFIELD", "A_UTF8STRING",
            "A_UNICODE2STRING", "A_ASCIISTRING", "pk:matchreq", "pk:reserved", "pk:const", "bitmask",
            "backend:py", "atomic:bcd", "atomic:1C", "atomic:SM", "overlap:yes", "overlap:no"]

NONTRIVIAL_FEATURES = {"bitpos", "lowhigh-multibyte", "negative", "compu:LINEAR", "compu:LINEAR-float",
                       "compu:TEXTTABLE", "struct", "sfield", "dlfield", "eopf", "mux", "dct:paramlen",
                       "bitmask", "out-of-order", "field>=2", "BYTE-SIZE", "packed-subbyte"}


def _fail(clause, detail, case, extra=None):
    f = {"bucket": clause, "features": case.get("features", [])}
    if extra:
        f.update(extra)
    return core.Failure(clause=clause, detail=detail, case=core.plain(case), features=f)


# ---------------------------------------------------------------------------
# composite cases
# ---------------------------------------------------------------------------
def eval_case(case, res: core.ShardResult | None = None, outcomes: dict | None = None) -> list:
    """one description x values; returns failures"""
    case = mh.norm_case(case)
    try:
        ref = refcodec.encode_message(case["msg"], case["values"], case.get("request"))
    except (refcodec.RefReject, refcodec.RefUnsupported) as e:
        if res is not None:
            res.classes["ref-rejects-generated-case"] += 1
        return []
    feats = set(case.get("features", []))
    nontriv = len(ref.pdu) >= 2 and bool(feats & NONTRIVIAL_FEATURES)
    try:
        ld = mh.Loaded(case)
    except Exception as e:
        raise core.Inconclusive(f"in-envelope description rejected by the loader: {type(e).__name__}: {e}; "
                                f"case={json.dumps(core.plain(case))[:1500]}")
    fails = []
    with mh.quiet_warnings() as w:
        try:
            got = ld.encode()
            exc = None
        except Exception as e:  # rejection is outside the (conditional) statement; counted
            got, exc = None, e
    key = core.digest({"m": case["msg"], "v": case["values"], "r": case.get("request")}).hex()
    if outcomes is not None:
        outcomes[key] = (hashlib.sha1(got).hexdigest()[:12] if got is not None else "exc:" + type(exc).__name__)
    if res is not None:
        res.note({"msg": case["msg"], "values": case["values"], "request": case.get("request"),
                  "pdu": ref.pdu.hex()}, nontriv, feats,
                 dig={"m": case["msg"], "v": case["values"], "r": case.get("request")})
        if got is None:
            res.rejected += 1
            res.classes["rejected:" + mh.exc_key(exc)] += 1
        else:
            res.accepted += 1
    if got is not None:
        if got != ref.pdu:
            fails.append(_fail("pdu-bits", f"odxtools {got.hex()} != reference {ref.pdu.hex()}", case))
        overlap_warned = any(issubclass(x.category, Warning) and "verlap" in str(x.message) for x in w)
        if overlap_warned != ref.overlap:
            fails.append(_fail("overlap-warning",
                               f"overlap warning issued={overlap_warned}, reference mask overlap={ref.overlap}", case))
    # decode of the reference-built PDU (symmetric errors become visible)
    if not fails:
        with mh.quiet_warnings():
            try:
                dec = ld.decode(ref.pdu)
                d = mh.same_value(ref.expected, dec)
                if d:
                    fails.append(_fail("decode-reference-pdu", f"{d} (pdu {ref.pdu.hex()})", case))
            except Exception as e:
                fails.append(_fail("decode-reference-pdu",
                                   f"decoding the reference PDU {ref.pdu.hex()} raised {type(e).__name__}: {e}", case,
                                   {"exc": mh.exc_key(e)}))
    return fails


def replay(case) -> list:
    if "case_digest" in case:
        return []   # backend-independence records are reproduced by re-running the shard
    if case.get("stage") == "atomic":
        return atomic_point(case)
    if case.get("stage") == "overlap":
        return eval_overlap(case)
    if case.get("stage") == "bitstruct":
        return bitstruct_point(case)
    return eval_case(case)


# ---------------------------------------------------------------------------
# atomic sweep
# ---------------------------------------------------------------------------
def atomic_grid():
    pts = []
    for hl in (True, False):
        for bit in range(8):
            for bl in range(1, 65):
                pts.append(("A_UINT32", None, hl, bl, bit))
                if bl % 4 == 0:
                    pts.append(("A_UINT32", "BCD-P", hl, bl, bit))
                if bl % 8 == 0:
                    pts.append(("A_UINT32", "BCD-UP", hl, bl, bit))
                pts.append(("A_INT32", None, hl, bl, bit))
                if bl >= 2:
                    pts.append(("A_INT32", "2C", hl, bl, bit))
                    pts.append(("A_INT32", "1C", hl, bl, bit))
                    pts.append(("A_INT32", "SM", hl, bl, bit))
        pts.append(("A_FLOAT32", None, hl, 32, 0))
        pts.append(("A_FLOAT64", None, hl, 64, 0))
        for n in range(1, 9):
            pts.append(("A_BYTEFIELD", None, hl, 8 * n, 0))
            for enc in (None, "ISO-8859-1", "ISO-8859-2", "WINDOWS-1252"):
                pts.append(("A_ASCIISTRING", enc, hl, 8 * n, 0))
            for enc in (None, "UTF-8"):
                pts.append(("A_UTF8STRING", enc, hl, 8 * n, 0))
            if n % 2 == 0:
                for enc in (None, "UCS-2"):
                    pts.append(("A_UNICODE2STRING", enc, hl, 8 * n, 0))
    return pts


def atomic_values(bt, enc, hl, bl, rnd: random.Random):
    if bt in refcodec.INT_TYPES:
        lo, hi = refcodec.int_range(bt, enc, bl)
        vs = {lo, hi, min(hi, lo + 1), max(lo, hi - 1)}
        if lo <= 0 <= hi:
            vs |= {0, min(hi, 1), max(lo, -1)}
        for _ in range(4):
            vs.add(rnd.randint(lo, hi))
        # alternating bit patterns make placement errors visible
        for pat in (0x5555555555555555, 0xAAAAAAAAAAAAAAAA, 0x0123456789ABCDEF):
            v = pat & ((1 << bl) - 1)
            if bt == "A_UINT32" and enc in ("BCD-P", "BCD-UP"):
                v = v % (hi + 1)
            if bt == "A_INT32":
                v = v - (1 << bl) if v > hi else v
            if lo <= v <= hi:
                vs.add(v)
        return sorted(vs)
    if bt == "A_FLOAT32":
        return [0.0, 1.0, -1.5, 3.4028234663852886e+38, 1.401298464324817e-45, -2.5e-3 * 8, 1048576.125]
    if bt == "A_FLOAT64":
        return [0.0, 1.0, -1.5, 1.7976931348623157e+308, 5e-324, 0.1, -123456.789]
    n = bl // 8
    if bt == "A_BYTEFIELD":
        return [bytes(range(1, n + 1)), bytes(n), b"\xff" * n, bytes(rnd.randrange(256) for _ in range(n))]
    codec = refcodec.str_codec(bt, enc, hl)
    alpha = {"A_ASCIISTRING": gen.LATIN, "A_UTF8STRING": gen.UTF8, "A_UNICODE2STRING": gen.UCS2}[bt]
    out = []
    for _ in range(4):
        s, nb = "", 0
        for _ in range(32):
            if nb == n:
                break
            ch = rnd.choice(alpha)
            e = len(ch.encode(codec))
            if nb + e <= n:
                s += ch
                nb += e
        while nb < n:
            s += "A"
            nb += len("A".encode(codec))
        if len(s.encode(codec)) == n:
            out.append(s)
    return out


def _odx_types():
    from odxtools.encoding import Encoding
    from odxtools.odxtypes import DataType
    return DataType, Encoding


def atomic_point(case) -> list:
    """case = {"stage":"atomic","bt","enc","hl","bl","bit","value","via":"api"|"xml"}"""
    case = mh.norm_case(case)
    bt, enc, hl, bl, bit, v = case["bt"], case["enc"], case["hl"], case["bl"], case["bit"], case["value"]
    dct = {"t": "std", "bt": bt, "bl": bl, "enc": enc, "hl": hl}
    pdu = refcodec.Pdu()
    ctx = refcodec.Ctx(None)
    refcodec.enc_dct(ctx, dct, v, 0, bit, True, {"lenkeys": {}}, "x")
    exp = bytes(ctx.pdu.buf)
    fails = []
    cj = core.plain(case)
    if case.get("via", "api") == "api":
        from odxtools.decodestate import DecodeState
        from odxtools.encodestate import EncodeState
        DataType, Encoding = _odx_types()
        kw = dict(bit_length=bl, base_data_type=DataType(bt), base_type_encoding=Encoding(enc) if enc else None,
                  is_highlow_byte_order=hl)
        with mh.quiet_warnings():
            try:
                es = EncodeState()
                es.cursor_bit_position = bit
                es.emplace_atomic_value(internal_value=v, used_mask=None, **kw)
                got = bytes(es.coded_message)
                # second run into a pre-filled buffer: only the described bits may change
                k = len(exp)
                es2 = EncodeState(coded_message=bytearray(b"\xff" * k), used_mask=bytearray(k))
                es2.cursor_bit_position = bit
                es2.emplace_atomic_value(internal_value=v, used_mask=None, **kw)
                got2 = bytes(es2.coded_message)
            except Exception as e:
                return [core.Failure("atomic-encode-raises", f"{type(e).__name__}: {e}", cj,
                                     {"bucket": f"atomic-encode-raises:{bt}:{enc}"})]
        if got != exp:
            fails.append(core.Failure("atomic-bits", f"odxtools {got.hex()} != reference {exp.hex()}", cj,
                                      {"bucket": f"atomic-bits:{bt}:{enc}"}))
        used = bytes(ctx.pdu.used)
        exp2 = bytes((e & u) | (0xFF & ~u) for e, u in zip(exp, used))
        if not fails and got2 != exp2:
            fails.append(core.Failure("atomic-foreign-bits",
                                      f"bits outside the object were modified: {got2.hex()} != {exp2.hex()}", cj,
                                      {"bucket": f"atomic-foreign-bits:{bt}:{enc}"}))
        with mh.quiet_warnings():
            try:
                ds = DecodeState(coded_message=exp)
                ds.cursor_bit_position = bit
                back = ds.extract_atomic_value(**kw)
                end = ds.cursor_byte_position
            except Exception as e:
                return fails + [core.Failure("atomic-decode-raises", f"{type(e).__name__}: {e}", cj,
                                             {"bucket": f"atomic-decode-raises:{bt}:{enc}"})]
        d = mh.same_value(v, back) if not isinstance(v, float) else (
            None if mh.float_eq(v, back, bt) else f"{back!r} != {v!r}")
        if d:
            fails.append(core.Failure("atomic-decode", f"decode of reference bits {exp.hex()}: {d}", cj,
                                      {"bucket": f"atomic-decode:{bt}:{enc}"}))
        if end != len(exp):
            fails.append(core.Failure("atomic-cursor", f"cursor after decode {end} != {len(exp)}", cj,
                                      {"bucket": "atomic-cursor"}))
        return fails
    # via XML: a one-parameter request
    pt = bt if bt in ("A_INT32", "A_UINT32", "A_FLOAT32", "A_FLOAT64", "A_BYTEFIELD") else "A_UNICODE2STRING"
    msg = {"kind": "request", "params": [
        {"pk": "value", "name": "x", "pos": 0, "bit": bit,
         "dop": {"k": "simple", "id": "d1", "dct": dct, "compu": {"c": "IDENTICAL"}, "pt": pt}, "default": None}]}
    c2 = {"msg": msg, "values": {"x": v}, "request": None, "features": ["atomic-xml"]}
    fs = eval_case(c2)
    for f in fs:
        f.case = cj
        f.features["bucket"] = f"xml:{f.clause}:{bt}:{enc}"
    return fs


def run_atomic(spec, seed, tier) -> core.ShardResult:
    _, part, nparts = spec
    res = core.ShardResult()
    rnd = random.Random(seed)
    grid = atomic_grid()
    mine = [p for i, p in enumerate(grid) if i % nparts == part]
    full = tier == "thorough"
    for i, (bt, enc, hl, bl, bit) in enumerate(mine):
        vals = atomic_values(bt, enc, hl, bl, rnd)
        via_xml = full or rnd.randrange(8) == 0
        for j, v in enumerate(vals):
            for via in (["api", "xml"] if (via_xml and j < 3) else ["api"]):
                case = {"stage": "atomic", "bt": bt, "enc": enc, "hl": hl, "bl": bl, "bit": bit, "value": v,
                        "via": via}
                fs = atomic_point(case)
                cls = [f"atomic:{bt}"]
                if enc in ("BCD-P", "BCD-UP"):
                    cls.append("atomic:bcd")
                if enc in ("1C", "SM"):
                    cls.append(f"atomic:{enc}")
                nt = bit != 0 or bl % 8 != 0 or not hl
                res.note(case, nt, cls, sample=(i % 97 == 0 and j == 0))
                for f in fs:
                    _collect(res, f)
    res.stages["atomic"] = res.evaluations
    res.exhaustive_subspaces.append(
        "atomic parameter grid: base type x encoding x byte order x bit length 1..64 x bit position 0..7 "
        f"({len(grid)} points) x boundary/pattern values via EncodeState/DecodeState"
        + (" and via one-parameter XML requests" if full else " (XML route sampled 1/8)"))
    return res


def _collect(res: core.ShardResult, f: core.Failure, kf=None):
    kf = known.load(PROPERTY) if kf is None else kf
    k = known.match(kf, f)
    if k is not None:
        res.known_hits[k["id"]] += 1
        return
    # keep one (smallest) failure per bucket
    for i, g in enumerate(res.failures):
        if g.bucket() == f.bucket():
            if len(core.canon(f.case)) < len(core.canon(g.case)):
                res.failures[i] = f
            return
    res.failures.append(f)


# ---------------------------------------------------------------------------
# bitstruct backends, direct
# ---------------------------------------------------------------------------
def bitstruct_point(case) -> list:
    case = mh.norm_case(case)
    import bitstruct as pure
    try:
        import bitstruct.c as cext
    except ImportError:
        return []
    fmt, val = case["fmt"], case["value"]
    cj = core.plain(case)
    outs = []
    for mod in (cext, pure):
        try:
            b = mod.pack(fmt, val)
            letter_fmt = fmt[fmt.index(next(c for c in fmt if c in "ufr")):] if fmt.startswith("p") else fmt
            off = int(fmt[1:fmt.index(next(c for c in fmt if c in "ufr"))]) if fmt.startswith("p") else 0
            back = mod.unpack_from(letter_fmt, b, offset=off)[0]
            outs.append(("ok", bytes(b), back))
        except Exception as e:
            outs.append(("exc", type(e).__name__, None))
    a, b = outs
    if a[0] != b[0] or (a[0] == "ok" and (a[1] != b[1] or (a[2] != b[2] and not (a[2] != a[2] and b[2] != b[2])))):
        return [core.Failure("backend-difference", f"bitstruct.c {a!r} vs bitstruct {b!r} for {fmt}", cj,
                             {"bucket": f"backend-difference:{fmt[-3:] if len(fmt) > 3 else fmt}"})]
    return []


def run_bitstruct(spec, seed, tier) -> core.ShardResult:
    res = core.ShardResult()
    rnd = random.Random(seed)
    try:
        import bitstruct.c  # noqa: F401
    except ImportError:
        res.classes["bitstruct.c-unavailable"] += 1
        res.stages["bitstruct"] = "bitstruct.c unavailable"
        return res
    n = 0
    for pad in range(8):
        for bl in range(1, 65):
            if (pad + bl) % 8:
                continue
            fmt = (f"p{pad}" if pad else "") + f"u{bl}"
            for v in {0, 1, (1 << bl) - 1, (1 << (bl - 1)), rnd.randrange(1 << bl), 0x5555555555555555 & ((1 << bl) - 1)}:
                case = {"stage": "bitstruct", "fmt": fmt, "value": v}
                for f in bitstruct_point(case):
                    _collect(res, f)
                res.note(case, pad != 0 or bl % 8 != 0, ["bitstruct:u"], sample=(n % 211 == 0))
                n += 1
    for fl in ("f32", "f64"):
        for v in (0.0, -1.5, 1e-3, 3.5e10, float("inf")):
            case = {"stage": "bitstruct", "fmt": fl, "value": v}
            for f in bitstruct_point(case):
                _collect(res, f)
            res.note(case, False, ["bitstruct:f"], sample=False)
    for nbytes in range(1, 17):
        for v in (bytes(nbytes), bytes(range(nbytes)), b"\xff" * nbytes):
            case = {"stage": "bitstruct", "fmt": f"r{8 * nbytes}", "value": v}
            for f in bitstruct_point(case):
                _collect(res, f)
            res.note(case, False, ["bitstruct:r"], sample=False)
    res.stages["bitstruct"] = n
    res.exhaustive_subspaces.append("every bitstruct format the codec builds: p{0..7} + u{1..64} (byte aligned), f32, f64, r{8..128}")
    return res


# ---------------------------------------------------------------------------
# overlap generator
# ---------------------------------------------------------------------------
def eval_overlap(case, res=None) -> list:
    case = mh.norm_case(case)
    try:
        ref = refcodec.encode_message(case["msg"], case["values"], None)
    except (refcodec.RefReject, refcodec.RefUnsupported):
        return []
    try:
        ld = mh.Loaded(case)
    except Exception as e:
        raise core.Inconclusive(f"overlap description rejected by the loader: {e}")
    with mh.quiet_warnings() as w:
        try:
            got = ld.encode()
        except Exception:
            got = None
    if res is not None:
        res.note(case, True, ["overlap:yes" if ref.overlap else "overlap:no"])
    if got is None:
        return []
    warned = any("verlap" in str(x.message) for x in w)
    fails = []
    if warned != ref.overlap:
        fails.append(_fail("overlap-warning", f"overlap warning issued={warned}, reference mask overlap={ref.overlap}",
                           dict(case, stage="overlap")))
    if not ref.overlap and got != ref.pdu:
        fails.append(_fail("pdu-bits", f"odxtools {got.hex()} != reference {ref.pdu.hex()}", dict(case, stage="overlap")))
    return fails


def overlap_strategy():
    from hypothesis import strategies as st

    @st.composite
    def s(draw):
        n = draw(st.integers(2, 4))
        params, values = [], {}
        for i in range(n):
            bl = draw(st.sampled_from([1, 2, 3, 4, 5, 7, 8, 9, 12, 16]))
            pos = draw(st.integers(0, 2))
            bit = draw(st.integers(0, 7))
            hl = draw(st.sampled_from([True, True, False]))
            mask = None
            if draw(st.integers(0, 3)) == 0:
                mask = draw(st.integers(1, (1 << bl) - 1))
            dct = {"t": "std", "bt": "A_UINT32", "bl": bl, "enc": None, "hl": hl}
            if mask is not None:
                dct["mask"] = mask
            v = draw(st.integers(0, (1 << bl) - 1))
            if mask is not None:
                v &= mask
            params.append({"pk": "value", "name": f"p{i}", "pos": pos, "bit": bit,
                           "dop": {"k": "simple", "id": f"d{i}", "dct": dct, "compu": {"c": "IDENTICAL"},
                                   "pt": "A_UINT32"}, "default": None})
            values[f"p{i}"] = v
        return {"stage": "overlap", "msg": {"kind": "request", "params": params}, "values": values,
                "request": None, "features": ["overlap-gen"]}
    return s()


# ---------------------------------------------------------------------------
# shards
# ---------------------------------------------------------------------------
def shards(tier):
    nh = 8 if tier == "quick" else 16
    out = [("hyp", i) for i in range(nh)]
    out += [("atomic", i, 4) for i in range(4)]
    out += [("bitstruct",), ("overlap", 0), ("overlap", 1)]
    return out


def _hyp_body(res, kf, outcomes):
    def body(case):
        fs = eval_case(case, res, outcomes)
        out = []
        for f in fs:
            k = known.match(kf, f)
            if k is not None:
                res.known_hits[k["id"]] += 1
            else:
                out.append(f)
        return out
    return body


def run_hyp(seed, tier, n, backend: str):
    res = core.ShardResult()
    kf = known.load(PROPERTY)
    outcomes: dict = {}
    found = core.hyp_search(gen.message_case(), _hyp_body(res, kf, outcomes), seed, n)
    if found:
        res.failures.extend(found)
    res.stages["hypothesis:" + backend] = n
    res.classes["backend:" + backend] += 1
    return res, outcomes


def run_shard(spec, seed, tier):
    kind = spec[0]
    if kind == "atomic":
        return run_atomic(spec, seed, tier)
    if kind == "bitstruct":
        return run_bitstruct(spec, seed, tier)
    if kind == "overlap":
        res = core.ShardResult()
        kf = known.load(PROPERTY)

        def body(case):
            return [f for f in eval_overlap(case, res) if known.match(kf, f) is None]
        found = core.hyp_search(overlap_strategy(), body, seed, 400 if tier == "quick" else 4000)
        if found:
            res.failures.extend(found)
        res.stages["overlap"] = res.evaluations
        return res
    # composite search under both backends
    n = 600 if tier == "quick" else 3000
    res, out_c = run_hyp(seed, tier, n, "c")
    # pure-python backend in a sub-process with bitstruct.c poisoned
    with tempfile.TemporaryDirectory(prefix="verif-c02-") as td:
        outp = os.path.join(td, "res.pkl")
        env = dict(os.environ)
        env["VERIF_PURE_BITSTRUCT"] = "1"
        p = subprocess.run([sys.executable, "-m", "vlib.checks.c02", "--worker", str(seed), tier, str(n), outp],
                           env=env, capture_output=True, text=True)
        if p.returncode != 0 or not os.path.exists(outp):
            raise RuntimeError(f"pure-bitstruct worker failed: rc={p.returncode}\n{p.stderr[-3000:]}")
        with open(outp, "rb") as fh:
            res_py, out_py = pickle.load(fh)
    res.merge(res_py)
    for f in res_py.failures:
        f.features["backend"] = "py"
    # backend independence: same case -> same PDU / exception class
    common = set(out_c) & set(out_py)
    res.classes["backend-compared-cases"] += len(common)
    for k in sorted(common):
        if out_c[k] != out_py[k]:
            res.failures.append(core.Failure(
                "backend-independence",
                f"case {k}: bitstruct.c outcome {out_c[k]} != pure bitstruct outcome {out_py[k]}",
                {"note": "re-run the hyp shard to reproduce", "case_digest": k, "seed": seed},
                {"bucket": "backend-independence"}))
            break
    return res


def _worker(argv):
    seed, tier, n, outp = int(argv[0]), argv[1], int(argv[2]), argv[3]
    import odxtools.encodestate as es
    if es.bitstruct.__name__ != "bitstruct":
        raise RuntimeError("pure bitstruct backend was not selected")
    res, outcomes = run_hyp(seed, tier, n, "py")
    with open(outp, "wb") as fh:
        pickle.dump((res, outcomes), fh)


if os.environ.get("VERIF_PURE_BITSTRUCT") == "1":
    sys.modules["bitstruct.c"] = None  # type: ignore  # forces odxtools onto the pure-Python backend

if __name__ == "__main__":
    if len(sys.argv) > 1 and sys.argv[1] == "--worker":
        _worker(sys.argv[2:])
