"""C08 — static descriptions of a message agree with its actual encoding (DESIGN 3/C08).

Clauses: (a) get_static_bit_length() of messages, parameters, DOPs, structures vs. actual encodings;
(b) coded_const_prefix() is a prefix of every encoded PDU; (c) required_parameters = parameters whose
omission makes encode raise; (d) free_parameters = parameters whose value the caller can set."""
from __future__ import annotations

import json

from vlib import core, gen, known, msgharness as mh, refcodec

PROPERTY = "C08"
RULE = ("generated descriptions x accepted assignments x per-parameter omission / alternative value; non-trivial = "
        "description contains a bit mask, BYTE-SIZE, out-of-order explicit positions, a default value, a length key, "
        "a MATCHING-REQUEST-PARAM or a complex DOP; distinct = digest of (description, values)")
ASSUMPTIONS = [
    "an object of static bit length L encoded alone at bit position b into a fresh EncodeState occupies ceil((b+L)/8) bytes from its byte position",
    "a parameter is 'settable by the caller' if two different accepted values produce different PDUs (DOPs of the generator are injective)",
    "required/free are judged on the top-level parameter list of the request/response (what required_parameters/free_parameters describe)",
]
MUST_HIT = ["table-struct-listed-first", "short-request-rejected", "prefix-other-request:pdu-differs", "table-key:static", "table-key:dynamic", "table-key:dynamic-key-only", "last-listed-not-last", "free-value-honoured-checked", "static-message", "dynamic-message", "prefix-checked", "prefix>=2", "omit-required", "omit-optional",
            "alt-free", "alt-nonfree", "object-static", "BYTE-SIZE", "default-value", "out-of-order", "pk:matchreq",
            "bitmask"]
NT = {"bitmask", "condensed-mask", "BYTE-SIZE", "out-of-order", "default-value", "dct:paramlen", "struct", "sfield",
      "dlfield", "mux", "eopf", "pk:matchreq"}


def _fail(clause, detail, case, extra=None):
    f = {"bucket": clause, "features": case.get("features", [])}
    if extra:
        f.update(extra)
    return core.Failure(clause=clause, detail=detail, case=core.plain(case), features=f)


def eval_case(case, res: core.ShardResult | None = None) -> list:
    from odxtools.encodestate import EncodeState
    from odxtools.exceptions import OdxError
    case = mh.norm_case(case)
    feats = set(case.get("features", []))
    cls = set(feats)
    try:
        ld = mh.Loaded(case)
    except Exception as e:
        raise core.Inconclusive(f"in-envelope description rejected by the loader: {type(e).__name__}: {e}; "
                                f"case={json.dumps(core.plain(case))[:1500]}")
    vals = mh.to_odx_value(case["values"])
    rq = case.get("request")
    is_req = case["msg"]["kind"] == "request"

    def enc(v):
        with mh.quiet_warnings():
            if is_req:
                return bytes(ld.obj.encode(**v))
            return bytes(ld.obj.encode(coded_request=rq, **v))

    try:
        pdu = enc(vals)
    except Exception as e:
        if res is not None:
            res.rejected += 1
            res.classes["rejected:" + mh.exc_key(e)] += 1
            res.note({"msg": case["msg"], "values": case["values"]}, False, cls)
        # (d) "free = the caller can set it": an assignment of values that are valid for the description (the
        # reference interpreter encodes it) to the free parameters must not be refused
        try:
            refcodec.encode_message(case["msg"], case["values"], rq)
        except (refcodec.RefReject, refcodec.RefUnsupported):
            return []
        except Exception:
            return []
        return [_fail("free-not-settable", f"values valid for the description are refused: {type(e).__name__}: {e}", case,
                      {"exc": mh.exc_key(e)})]
    if res is not None:
        res.accepted += 1
    fails = []
    obj = ld.obj
    # (a) message level
    try:
        L = obj.get_static_bit_length()
    except Exception as e:
        L = None
        fails.append(_fail("static-length-raises", f"get_static_bit_length raised {type(e).__name__}: {e}", case))
    if L is not None:
        cls.add("static-message")
        if 8 * len(pdu) != L:
            fails.append(_fail("message-static-length", f"get_static_bit_length()={L} but PDU {pdu.hex()} has {8 * len(pdu)} bits", case))
        if not is_req and rq:
            # "every encoding": also for the other requests the response may be encoded for (shorter ones that
            # end inside the range a MATCHING-REQUEST-PARAM echoes are either rejected or give the static length)
            for cut in range(len(rq)):
                try:
                    with mh.quiet_warnings():
                        p2 = bytes(obj.encode(coded_request=rq[:cut], **vals))
                except Exception:
                    cls.add("short-request-rejected")
                    continue
                cls.add("short-request-accepted")
                if 8 * len(p2) != L:
                    fails.append(_fail("message-static-length", f"get_static_bit_length()={L} but the PDU {p2.hex()} encoded for "
                                       f"the request {rq[:cut].hex()!r} has {8 * len(p2)} bits", case,
                                       {"bucket": "message-static-length:short-request"}))
                    break
    else:
        cls.add("dynamic-message")
    # (a) object level: each top-level parameter on its own
    for p in obj.parameters:
        try:
            pl = p.get_static_bit_length()
        except Exception as e:
            fails.append(_fail("static-length-raises", f"{p.short_name}.get_static_bit_length raised {type(e).__name__}: {e}", case))
            continue
        if pl is None:
            continue
        if p.parameter_type in ("LENGTH-KEY", "TABLE-KEY", "NRC-CONST"):
            continue
        pv = vals.get(p.short_name)
        es = EncodeState(triggering_request=rq, is_end_of_pdu=False)
        with mh.quiet_warnings():
            try:
                p.encode_into_pdu(pv, es)
            except Exception:
                continue
        want = (p.byte_position or 0) + ((p.bit_position or 0) + pl + 7) // 8
        cls.add("object-static")
        if len(es.coded_message) != want:
            fails.append(_fail("object-static-length",
                               f"parameter {p.short_name} ({p.parameter_type}) reports {pl} bits at byte "
                               f"{p.byte_position} bit {p.bit_position} -> {want} bytes, encoding alone gives "
                               f"{len(es.coded_message)} bytes", case, {"ptype": p.parameter_type}))
            break
        dop = getattr(p, "dop", None)
        if dop is not None and hasattr(dop, "byte_size") and dop.get_static_bit_length() is not None:
            es2 = EncodeState(is_end_of_pdu=False)
            with mh.quiet_warnings():
                try:
                    dop.encode_into_pdu(pv, es2)
                    if 8 * len(es2.coded_message) != dop.get_static_bit_length():
                        fails.append(_fail("structure-static-length",
                                           f"structure {dop.short_name} reports {dop.get_static_bit_length()} bits, "
                                           f"encodes to {len(es2.coded_message)} bytes", case))
                        break
                except Exception:
                    pass
    # (b) constant prefix
    try:
        pre = bytes(obj.coded_const_prefix(request_prefix=rq) if (not is_req and rq is not None) else obj.coded_const_prefix())
        cls.add("prefix-checked")
        if len(pre) >= 2:
            cls.add("prefix>=2")
        if pdu[:len(pre)] != pre:
            fails.append(_fail("const-prefix", f"coded_const_prefix()={pre.hex()} is not a prefix of the PDU {pdu.hex()}", case))
        if not is_req and rq:
            # the same response object asked about other requests (a response is shared by all requests of its
            # services): every answer must be a prefix of the PDU encoded for *that* request
            first = pre
            for i in range(min(len(rq), 6)):
                rq2 = rq[:i] + bytes([rq[i] ^ 0x5A]) + rq[i + 1:]
                try:
                    with mh.quiet_warnings():
                        pdu2 = bytes(obj.encode(coded_request=rq2, **mh.to_odx_value(case["values"])))
                except Exception:
                    continue
                pre2 = bytes(obj.coded_const_prefix(request_prefix=rq2))
                cls.add("prefix-other-request")
                if pdu2 != pdu:
                    cls.add("prefix-other-request:pdu-differs")
                if pdu2[:len(pre2)] != pre2:
                    fails.append(_fail("const-prefix", f"after a query for request {rq.hex()}, coded_const_prefix(request_prefix="
                                       f"{rq2.hex()})={pre2.hex()} is not a prefix of the PDU {pdu2.hex()} encoded for that request",
                                       case, {"bucket": "const-prefix:other-request"}))
                    break
            again = bytes(obj.coded_const_prefix(request_prefix=rq))
            if again != first:
                fails.append(_fail("const-prefix", f"coded_const_prefix(request_prefix={rq.hex()}) changed from {first.hex()} "
                                   f"to {again.hex()} after queries for other requests", case, {"bucket": "const-prefix:unstable"}))
    except OdxError as e:
        fails.append(_fail("const-prefix-raises", f"coded_const_prefix raised {type(e).__name__}: {e}", case))
    # (c) required parameters
    required = {p.short_name for p in obj.required_parameters}
    free = {p.short_name for p in obj.free_parameters}
    top = [p["name"] for p in case["msg"]["params"]]
    full = dict(vals)
    # supply every settable parameter that has a value or default so that "all others supplied" holds
    for p in case["msg"]["params"]:
        if p["pk"] == "value" and p["name"] not in full and p.get("default") is not None:
            full[p["name"]] = mh.to_odx_value(core.plain(p["default"]) if not isinstance(p["default"], (bytes, bytearray)) else p["default"])
    try:
        enc(full)
        full_ok = True
    except Exception:
        full_ok = False
    if full_ok:
        for name in top:
            if name not in full:
                continue
            v2 = {k: v for k, v in full.items() if k != name}
            try:
                enc(v2)
                ok = True
            except OdxError:
                ok = False
            except Exception as e:
                ok = False
            if name in required:
                cls.add("omit-required")
                if ok:
                    fails.append(_fail("required-but-optional", f"{name} is reported as required, but omitting it encodes fine", case))
            else:
                cls.add("omit-optional")
                if not ok:
                    fails.append(_fail("optional-but-required", f"{name} is not reported as required, but omitting it makes encode fail", case))
        if not required <= free:
            fails.append(_fail("required-not-free", f"required {sorted(required)} not subset of free {sorted(free)}", case))
    # (d) free parameters: a value the caller sets for a free parameter is the value the PDU carries
    try:
        with mh.quiet_warnings():
            dec = ld.decode(pdu)
    except Exception:
        dec = None
    if dec is not None:
        from vlib.checks.c01 import supplied_vs_decoded
        for p in case["msg"]["params"]:
            if p["pk"] in ("value", "system") and p["name"] in free and p["name"] in vals and p["name"] in dec \
                    and p["dop"]["k"] == "simple" and p["dop"]["compu"]["c"] == "IDENTICAL" \
                    and p["dop"]["dct"].get("mask") is None:
                d = supplied_vs_decoded(vals[p["name"]], dec[p["name"]], p["name"])
                cls.add("free-value-honoured-checked")
                if d:
                    fails.append(_fail("free-value-not-honoured", f"free parameter set to {vals[p['name']]!r} but the PDU "
                                                                  f"{pdu.hex()} carries {dec[p['name']]!r}", case))
                    break
    for name, alt in (case.get("alt") or {}).items():
        altv = mh.to_odx_value(alt)
        base = full if full_ok else vals
        if name not in base:
            continue
        if altv == base[name]:
            continue
        try:
            p2 = enc(dict(base, **{name: altv}))
        except Exception:
            continue
        p1 = enc(base)
        if name in free:
            cls.add("alt-free")
            if p1 == p2:
                fails.append(_fail("free-without-effect", f"{name} is reported as free but {base[name]!r} and {altv!r} give the same PDU {p1.hex()}", case))
    for p in case["msg"]["params"]:
        if p["pk"] in ("const", "physconst", "reserved", "matchreq", "nrc") and p["name"] not in free:
            other = 1 if p.get("v") != 1 else 2
            if p["pk"] == "nrc":
                # one of its own alternatives, but not the one the overlapping VALUE parameter carries
                alts = [v for v in p["vals"] if v not in [x for x in (full if full_ok else vals).values() if isinstance(x, int)]]
                if not alts:
                    continue
                other = alts[-1]
                cls.add("nrc-alternative-supplied")
            base = full if full_ok else vals
            try:
                p2 = enc(dict(base, **{p["name"]: other}))
            except Exception:
                cls.add("alt-nonfree")
                continue
            cls.add("alt-nonfree")
            if p2 != pdu and p2 != (enc(base)):
                fails.append(_fail("nonfree-settable", f"{p['name']} ({p['pk']}) is not reported as free but supplying {other} changes the PDU", case))
        elif p["pk"] in ("const", "physconst", "reserved", "matchreq") and p["name"] in free:
            fails.append(_fail("constant-reported-free", f"{p['name']} ({p['pk']}) is reported as free", case))
    # TABLE-KEY parameters: a statically selected row is a constant, a dynamically selected one is set by the caller
    for p in case["msg"]["params"]:
        if p["pk"] != "tablekey":
            continue
        rows = [r["name"] for r in p["table"]["rows"]]
        base = full if full_ok else vals
        cur = p.get("row") or base.get(p["name"]) or next((v[0] for k_, v in base.items() if isinstance(v, (list, tuple)) and len(v) == 2 and v[0] in rows), None)
        others = [r for r in rows if r != cur]
        used = any(q["pk"] == "tablestruct" and q["key"] == p["name"] for q in case["msg"]["params"])
        if p.get("row") is not None:
            cls.add("table-key:static")
            if p["name"] in free:
                fails.append(_fail("constant-reported-free", f"{p['name']} (TABLE-KEY with TABLE-ROW-REF) is reported as free", case))
            if others:
                try:
                    p2 = enc(dict(base, **{p["name"]: others[0]}))
                    if p2 != enc(base):
                        fails.append(_fail("nonfree-settable", f"{p['name']} statically selects {p['row']} but supplying {others[0]} changes the PDU", case))
                except Exception:
                    pass
        else:
            cls.add("table-key:dynamic")
            if p["name"] not in free:
                fails.append(_fail("settable-not-free", f"{p['name']} (TABLE-KEY) is not reported as free although the caller selects the row", case))
            if others and not used and cur is not None:
                cls.add("table-key:dynamic-key-only")
                try:
                    p2 = enc(dict(base, **{p["name"]: others[0]}))
                    if p2 == enc(dict(base, **{p["name"]: cur})):
                        fails.append(_fail("free-without-effect", f"{p['name']}: rows {cur} and {others[0]} give the same PDU {p2.hex()}", case))
                except Exception as e:
                    fails.append(_fail("free-value-not-honoured", f"{p['name']}: selecting row {others[0]} raised {type(e).__name__}: {e}", case))
    if res is not None:
        res.note({"msg": case["msg"], "values": case["values"], "pdu": pdu.hex()}, bool(feats & NT), cls,
                 dig={"m": case["msg"], "v": case["values"], "r": rq})
    return fails[:1]


def replay(case) -> list:
    return eval_case(case)


def shards(tier):
    return [("hyp", i, "std") for i in range(12)] + [("hyp", i, "cond") for i in range(4)]


def run_shard(spec, seed, tier):
    res = core.ShardResult()
    kf = known.load(PROPERTY)
    opts = {"alt": True, "last_listed_not_last": True, "table_struct_first": True}
    if spec[2] == "cond":
        opts["condensed"] = True

    def body(case):
        out = []
        for f in eval_case(case, res):
            k = known.match(kf, f)
            if k is not None:
                res.known_hits[k["id"]] += 1
            else:
                out.append(f)
        return out
    n = 800 if tier == "quick" else 12000
    found = core.hyp_search(gen.message_case(opts=opts), body, seed, n)
    if found:
        res.failures.extend(found)
    res.stages["hypothesis"] = n
    return res
