"""C17 — strict mode is honoured everywhere, lenient mode changes nothing valid (DESIGN 3/C17).

Three outcomes per operation are obtained in a worker that imports odxtools normally and flips
`odxtools.exceptions.strict_mode` at run time (strict -> non-strict -> strict again), and a fourth in a
worker that was *born* non-strict (flag cleared before any odxtools sub-module is imported):

  (a) strict succeeded  =>  non-strict (run-time flip) returns the identical result
  (b) non-strict by run-time flip == non-strict from birth   (a module holding a stale copy of the flag differs)
  (c) strict again == first strict outcome
"""
from __future__ import annotations

import json
import os
import pickle
import re
import subprocess
import sys
import tempfile

from vlib import core, gen, known, msgharness as mh, mutvals, refcodec

PROPERTY = "C17"
RULE = ("operations = encode of valid and of singly mutated assignments, decode of valid / truncated / corrupted "
        "(incl. invalid UTF-8, unknown keys) / random PDUs, layer decode, and loading of valid and slightly "
        "non-conforming documents and descriptions (one non-conforming DIAG-CODED-TYPE), the command line front end "
        "in-process (start_cli with/without --no-strict on good, broken and missing files), layer decode on services "
        "differing only in NRC-CONST alternatives or a PHYS-CONST sub-function, over generated descriptions; each executed "
        "strict, non-strict (run-time flip), strict again - once with separately loaded databases per mode and once on one "
        "database object used under both modes - and in a born-non-strict process.  Non-trivial = strict and non-strict outcomes differ; "
        "distinct = digest of the operation")
ASSUMPTIONS = [
    "the wall clock read by SYSTEM parameters is frozen in both workers (harness-side patch of the module attribute)",
    "outcome = normalised repr of the result or (exception class, message); memory addresses are masked",
    "the born-non-strict worker clears odxtools.exceptions.strict_mode before the package __init__ runs (importlib spec trick, no repository hook)",
]
MUST_HIT = ["same-database:strict-differs", "op:cli", "cli:tool-raised", "cli:tool-returned", "bad-desc:strict-differs", "bad-desc:str-enc", "op:multi-layer-decode", "op:encode", "op:encode-mutated", "op:decode", "op:decode-corrupt", "op:layer-decode", "op:load-bad",
            "strict-differs", "strict-ok"]

ADDR = re.compile(r"0x[0-9a-fA-F]{6,}")


def _norm(o):
    if isinstance(o, dict):
        return {str(k): _norm(v) for k, v in o.items()}
    if isinstance(o, (list, tuple)):
        return [_norm(v) for v in o]
    if isinstance(o, (bytes, bytearray)):
        return "bytes:" + bytes(o).hex()
    if isinstance(o, float):
        return repr(o)
    if hasattr(o, "trouble_code"):
        return f"DTC:{o.trouble_code}"
    if isinstance(o, (int, str)) or o is None:
        return o
    return ADDR.sub("0x?", repr(o))[:200]


def _outcome(fn):
    import warnings
    with warnings.catch_warnings():
        warnings.simplefilter("ignore")
        try:
            return ["ok", _norm(fn())]
        except BaseException as e:  # noqa
            if isinstance(e, (KeyboardInterrupt, SystemExit)):
                raise
            return ["exc", type(e).__name__, ADDR.sub("0x?", str(e))[:300]]


# ---------------------------------------------------------------------------
# operations
# ---------------------------------------------------------------------------
BAD_DOC_EDITS = [
    ("unknown-encoding", 'BASE-DATA-TYPE="A_UINT32"', 'BASE-DATA-TYPE="A_UINT32" BASE-TYPE-ENCODING="FOO"'),
    ("unknown-base-type", 'BASE-DATA-TYPE="A_UINT32"', 'BASE-DATA-TYPE="A_UINT33"'),
    ("bad-bool", 'IS-HIGHLOW-BYTE-ORDER="false"', 'IS-HIGHLOW-BYTE-ORDER="maybe"'),
    ("missing-bit-length", "<BIT-LENGTH>8</BIT-LENGTH>", ""),
    ("unknown-termination", 'TERMINATION="ZERO"', 'TERMINATION="NEVER"'),
    ("unknown-category", "<CATEGORY>IDENTICAL</CATEGORY>", "<CATEGORY>MAGIC</CATEGORY>"),
    ("missing-short-name", "<SHORT-NAME>svc0</SHORT-NAME>", ""),
    ("dangling-dop-ref", 'DOP-REF ID-REF="dop', 'DOP-REF ID-REF="nodop'),
]


def _dcts(o, out):
    if isinstance(o, dict):
        if "bt" in o and "t" in o:
            out.append(o)
        for v in o.values():
            _dcts(v, out)
    elif isinstance(o, (list, tuple)):
        for v in o:
            _dcts(v, out)
    return out


def bad_descriptions(msg, picks) -> list:
    """copies of the message description with one non-conforming DIAG-CODED-TYPE each (an encoding that is
    illegal for the base type, a float of 16 bits, MIN-LENGTH > MAX-LENGTH); `picks` are generated integers"""
    import copy
    out = []
    for a, b in picks:
        m2 = copy.deepcopy(msg)
        ds = _dcts(m2, [])
        if not ds:
            continue
        d = ds[a % len(ds)]
        bt = d["bt"]
        if bt in ("A_ASCIISTRING", "A_UTF8STRING", "A_UNICODE2STRING"):
            opts = [("str-enc", {"enc": e}) for e in ("BCD-P", "2C", "NONE", "IEEE754", "SM")]
        elif bt in ("A_FLOAT32", "A_FLOAT64"):
            opts = [("float-enc", {"enc": e}) for e in ("BCD-UP", "2C", "UTF-8")] + [("float-bits", {"bl": 16})]
        elif bt == "A_BYTEFIELD":
            opts = [("bytes-enc", {"enc": e}) for e in ("UTF-8", "2C")]
        else:
            opts = [("int-enc", {"enc": e}) for e in ("UTF-8", "ISO-8859-1", "IEEE754", "UCS-2")]
        if d["t"] == "minmax" and d.get("max") is not None:
            opts.append(("minmax-swapped", {"min": d["max"] + 1}))
        lab, upd = opts[b % len(opts)]
        if d["t"] != "std" and "bl" in upd:
            continue
        d.update(upd)
        out.append((f"{lab}:{bt}:{upd.get('enc', '')}", m2))
    return out


def make_ops(case, extra_draws) -> list:
    """all operations derived from one generated case (JSON-able)"""
    from vlib import emit
    case = mh.norm_case(case)
    ops = []
    base = {"msg": case["msg"], "request": case.get("request")}
    ops.append({"op": "encode", "values": case["values"], **base})
    for mv in extra_draws.get("mutated", []):
        ops.append({"op": "encode-mutated", "values": mv["values"], "label": mv["label"], **base})
    pdu = None
    try:
        pdu = refcodec.encode_message(case["msg"], case["values"], case.get("request")).pdu
    except (refcodec.RefReject, refcodec.RefUnsupported):
        pass
    if pdu is not None:
        ops.append({"op": "decode", "data": pdu.hex(), **base})
        ops.append({"op": "layer-decode", "data": pdu.hex(), **base})
        if len(pdu) > 1:
            ops.append({"op": "decode-corrupt", "data": pdu[:-1].hex(), "label": "truncated", **base})
        for i in extra_draws.get("positions", []):
            if pdu:
                j = i % len(pdu)
                ops.append({"op": "decode-corrupt", "data": (pdu[:j] + bytes([pdu[j] ^ 0xFF]) + pdu[j + 1:]).hex(),
                            "label": "xorFF", **base})
                ops.append({"op": "decode-corrupt", "data": (pdu[:j] + b"\xff\xfe" + pdu[j + 1:]).hex(),
                            "label": "fffe", **base})
        ops.append({"op": "decode-corrupt", "data": (pdu + b"\x00\x01").hex(), "label": "overlong", **base})
    for r in extra_draws.get("random", []):
        ops.append({"op": "decode-corrupt", "data": bytes(r).hex(), "label": "random", **base})
    for lab, m2 in bad_descriptions(case["msg"], extra_draws.get("baddesc", [])):
        b2 = {"msg": m2, "request": case.get("request")}
        ops.append({"op": "encode", "values": case["values"], "label": "bad-desc:" + lab, **b2})
        if pdu is not None:
            ops.append({"op": "decode", "data": pdu.hex(), "label": "bad-desc:" + lab, **b2})
    xml = emit.message_doc([case["msg"]]).decode("utf-8")
    cli = extra_draws.get("cli")
    if cli:
        docs = [("good", xml), ("missing-file", None)] + [(nm, xml.replace(a, b, 1)) for nm, a, b in BAD_DOC_EDITS if a in xml]
        nm, x = docs[cli[0] % len(docs)]
        tool, args = [("list", ["-a"]), ("list", []), ("decode", ["-d", pdu.hex() if pdu else "00"]),
                      ("find", ["-d", pdu.hex() if pdu else "00"])][cli[1] % 4]
        ops.append({"op": "cli", "label": f"{tool}:{nm}", "xml": x, "tool": tool, "args": args, "no_strict": bool(cli[2] % 2)})
    for name, a, b in BAD_DOC_EDITS:
        if a in xml:
            ops.append({"op": "load-bad", "label": name, "xml": xml.replace(a, b, 1)})
    return ops


def nrc_service_ops(draw) -> list:
    """a service with several negative responses that share the constant prefix and differ only in their
    NRC-CONST alternatives; operations: layer decode of every response's PDU"""
    from hypothesis import strategies as st
    u8 = {"t": "std", "bt": "A_UINT32", "bl": 8, "enc": None, "hl": None}
    sid = draw(st.integers(1, 0x3E))

    def dop(i):
        return {"k": "simple", "id": f"d{i}", "dct": dict(u8), "compu": {"c": "IDENTICAL"}, "pt": "A_UINT32"}
    req = {"kind": "request", "id": "rq", "params": [
        {"pk": "const", "name": "sid", "pos": 0, "bit": 0, "dct": dict(u8), "v": sid},
        {"pk": "value", "name": "arg", "pos": 1, "bit": 0, "dop": dop(0), "default": None}]}
    pool = draw(st.lists(st.integers(0x10, 0x7F), min_size=3, max_size=6, unique=True))
    k = draw(st.integers(2, 3))
    groups = [pool[i::k] for i in range(k)]
    msgs = [req]
    for i, vals in enumerate(groups):
        if not vals:
            continue
        msgs.append({"kind": "response", "rtype": "NEG-RESPONSE", "id": f"nr{i}", "params": [
            {"pk": "const", "name": "sid", "pos": 0, "bit": 0, "dct": dict(u8), "v": 0x7F},
            {"pk": "matchreq", "name": "rqsid", "pos": 1, "rpos": 0, "n": 1},
            {"pk": "nrc", "name": "nrc", "pos": 2, "bit": 0, "dct": dict(u8), "vals": sorted(vals)},
            {"pk": "value", "name": "code", "pos": 2, "bit": 0, "dop": dop(i + 1), "default": None}]})
    ops = []
    rq_pdu = bytes([sid, draw(st.integers(0, 255))])
    for m in msgs[1:]:
        for v in m["params"][2]["vals"]:
            ops.append({"op": "multi-layer-decode", "msgs": msgs, "data": bytes([0x7F, sid, v]).hex(),
                        "request": rq_pdu.hex(), "label": m["id"]})
    ops.append({"op": "multi-layer-decode", "msgs": msgs, "data": bytes([0x7F, sid, 0x05]).hex(),
                "request": rq_pdu.hex(), "label": "no-nrc-applies"})
    return ops


def physconst_service_ops(draw) -> list:
    """services that share their CODED-CONST bytes and differ only in a PHYS-CONST "sub-function" (and positive
    responses built the same way); operations: layer decode of every service's own request"""
    from hypothesis import strategies as st
    u8 = {"t": "std", "bt": "A_UINT32", "bl": 8, "enc": None, "hl": None}
    sid = draw(st.integers(1, 0x3E))
    n = draw(st.integers(2, 3))
    subs = draw(st.lists(st.integers(0, 255), min_size=n, max_size=n, unique=True))
    lin = draw(st.booleans())

    def dop(i, sub=False):
        compu = {"c": "LINEAR", "n0": 1, "n1": 1, "d": 1} if (sub and lin) else {"c": "IDENTICAL"}
        return {"k": "simple", "id": f"d{i}", "dct": dict(u8), "compu": compu, "pt": "A_INT32" if (sub and lin) else "A_UINT32"}
    msgs = []
    for i, sv in enumerate(subs):
        msgs.append({"kind": "request", "id": f"rq{i}", "params": [
            {"pk": "const", "name": "sid", "pos": 0, "bit": 0, "dct": dict(u8), "v": sid},
            {"pk": "physconst", "name": "sub", "pos": 1, "bit": 0, "dop": dop("sub", True), "v": sv + (1 if lin else 0)},
            {"pk": "value", "name": "arg", "pos": 2, "bit": 0, "dop": dop(f"a{i}"), "default": None}]})
    ops = []
    for i, sv in enumerate(subs):
        data = bytes([sid, sv, draw(st.integers(0, 255))])
        ops.append({"op": "multi-layer-decode", "msgs": msgs, "data": data.hex(), "request": data.hex(), "label": f"physconst-sub:{i}"})
    ops.append({"op": "multi-layer-decode", "msgs": msgs, "data": bytes([sid, (max(subs) + 1) & 0xFF if ((max(subs) + 1) & 0xFF) not in subs else 0, 0]).hex(),
                "request": "00", "label": "physconst-sub:none"})
    return ops


def badcand_service_ops(draw) -> list:
    """a service with two positive responses sharing the constant prefix, one of which has a non-conforming
    DIAG-CODED-TYPE (strict mode reports it when that candidate is tried); operations: layer decode"""
    from hypothesis import strategies as st
    u8 = {"t": "std", "bt": "A_UINT32", "bl": 8, "enc": None, "hl": None}
    sid = draw(st.integers(1, 0x3E))
    bad = dict(u8, enc=draw(st.sampled_from(["2C", "UTF-8", "IEEE754", "1C", "UCS-2"])))

    def dop(i, dct):
        return {"k": "simple", "id": f"d{i}", "dct": dict(dct), "compu": {"c": "IDENTICAL"}, "pt": "A_UINT32"}
    req = {"kind": "request", "id": "rq", "params": [
        {"pk": "const", "name": "sid", "pos": 0, "bit": 0, "dct": dict(u8), "v": sid},
        {"pk": "value", "name": "arg", "pos": 1, "bit": 0, "dop": dop("a", u8), "default": None}]}
    resps = []
    order = draw(st.permutations([("good", u8), ("bad", bad)]))
    for i, (nm, dct) in enumerate(order):
        resps.append({"kind": "response", "rtype": "POS-RESPONSE", "id": f"pr_{nm}", "params": [
            {"pk": "const", "name": "sid", "pos": 0, "bit": 0, "dct": dict(u8), "v": sid + 0x40},
            {"pk": "value", "name": "val", "pos": 1, "bit": 0, "dop": dop(f"v{i}", dct), "default": None}]})
    msgs = [req] + resps
    x = draw(st.integers(0, 255))
    rq = bytes([sid, draw(st.integers(0, 255))])
    return [{"op": "multi-layer-decode", "msgs": msgs, "data": bytes([sid + 0x40, x]).hex(), "request": rq.hex(),
             "label": "bad-candidate:" + bad["enc"]}]


def gnr_service_ops(draw) -> list:
    """a layer with a GLOBAL-NEG-RESPONSE: layer decode of valid global negative responses to its services"""
    from hypothesis import strategies as st
    u8 = {"t": "std", "bt": "A_UINT32", "bl": 8, "enc": None, "hl": None}

    def dop(i):
        return {"k": "simple", "id": f"d{i}", "dct": dict(u8), "compu": {"c": "IDENTICAL"}, "pt": "A_UINT32"}
    sids = draw(st.lists(st.integers(1, 0x3E), min_size=1, max_size=2, unique=True))
    msgs = []
    for i, sid in enumerate(sids):
        msgs.append({"kind": "request", "id": f"rq{i}", "params": [
            {"pk": "const", "name": "sid", "pos": 0, "bit": 0, "dct": dict(u8), "v": sid},
            {"pk": "value", "name": "arg", "pos": 1, "bit": 0, "dop": dop(f"a{i}"), "default": None}]})
    for i, sid in enumerate(sids):
        msgs.append({"kind": "response", "rtype": "POS-RESPONSE", "id": f"pr{i}", "svc": i, "params": [
            {"pk": "const", "name": "sid", "pos": 0, "bit": 0, "dct": dict(u8), "v": sid + 0x40},
            {"pk": "value", "name": "res", "pos": 1, "bit": 0, "dop": dop(f"r{i}"), "default": None}]})
    msgs.append({"kind": "response", "rtype": "GLOBAL-NEG-RESPONSE", "id": "gnr", "params": [
        {"pk": "const", "name": "sid", "pos": 0, "bit": 0, "dct": dict(u8), "v": 0x7F},
        {"pk": "matchreq", "name": "rqsid", "pos": 1, "rpos": 0, "n": 1},
        {"pk": "value", "name": "code", "pos": 2, "bit": 0, "dop": dop("c"), "default": None}]})
    ops = []
    for sid in sids:
        code = draw(st.integers(0, 255))
        ops.append({"op": "multi-layer-decode", "msgs": msgs, "data": bytes([0x7F, sid, code]).hex(),
                    "request": bytes([sid, 1]).hex(), "label": "global-negative-response"})
    return ops


def run_op(op, cache: dict):
    """executed inside a worker; returns the outcome under the *current* strict_mode"""
    from vlib import emit
    if op["op"] == "multi-layer-decode":
        key = core.canon({"msgs": op["msgs"]})
        cache["__last__"] = key
        data = bytes.fromhex(op["data"])
        rq = bytes.fromhex(op["request"])

        def f():
            if key not in cache:
                cache[key] = emit.load_messages(core.unjson(op["msgs"]))
            db, layer, objs = cache[key]
            a = [[m.service.short_name, m.coding_object.short_name, m.param_dict] for m in layer.decode(data)]
            b = [[m.service.short_name, m.coding_object.short_name, m.param_dict] for m in layer.decode_response(data, rq)]
            return {"decode": a, "decode_response": b}
        return _outcome(f)
    if op["op"] == "cli":
        # the command line front end in-process: `--no-strict` must hold exactly while the tool runs; whatever
        # the tool does (incl. raising) the mode found before the call is back afterwards
        import contextlib
        import io
        import odxtools.exceptions as ex
        from odxtools.cli.main import start_cli
        pre = ex.strict_mode
        td = tempfile.mkdtemp(prefix="verif-c17cli-")
        path = os.path.join(td, "doc.odx-d")
        if op.get("xml") is not None:
            with open(path, "w", encoding="utf-8") as fh:
                fh.write(op["xml"])
        argv = ["odxtools"] + (["--no-strict"] if op["no_strict"] else []) + [op["tool"], path] + list(op.get("args", []))
        old_argv = sys.argv

        def f():
            sys.argv = argv
            try:
                with contextlib.redirect_stdout(io.StringIO()), contextlib.redirect_stderr(io.StringIO()):
                    try:
                        start_cli()
                        return "returned"
                    except SystemExit as e:
                        return f"exit:{e.code}"
            finally:
                sys.argv = old_argv
        try:
            out = _outcome(f)
            if out[0] == "exc":
                out[2] = out[2].replace(td, "<tmp>")
            after = ex.strict_mode
        finally:
            ex.strict_mode = pre
            import shutil
            shutil.rmtree(td, ignore_errors=True)
        return ["ok", {"tool": out, "mode-restored": after == pre}]
    if op["op"] == "load-bad":
        def f():
            db = emit.load(op["xml"].encode("utf-8"))
            return {"layers": [dl.short_name for dl in db.diag_layers],
                    "services": [[s.short_name for s in dl.services] for dl in db.diag_layers],
                    "dops": [sorted(d.short_name for d in dl.diag_data_dictionary_spec.data_object_props) for dl in db.diag_layers]}
        return _outcome(f)
    key = core.canon({"m": op["msg"]})
    cache["__last__"] = key
    msg = core.unjson(op["msg"])
    rq = core.unjson(op.get("request"))
    if isinstance(rq, str):
        rq = None

    def loaded():
        if key not in cache:
            cache[key] = mh.Loaded({"msg": msg, "values": {}, "request": rq})
        return cache[key]
    if op["op"] in ("encode", "encode-mutated"):
        vals = core.unjson(op["values"])

        def f():
            ld = loaded()
            # "_kept": the caller keeps one Python object for its values and passes it again in the next mode
            if "_kept" in op:
                if "obj" not in op["_kept"]:
                    op["_kept"]["obj"] = mh.to_odx_value(vals)
                v = op["_kept"]["obj"]
            else:
                v = mh.to_odx_value(vals)
            if not isinstance(v, dict):
                raise TypeError("top level values must be a dict")
            if msg["kind"] == "request":
                return bytes(ld.obj.encode(**v))
            return bytes(ld.obj.encode(coded_request=rq, **v))
        return _outcome(f)
    data = bytes.fromhex(op["data"])
    if op["op"] == "layer-decode":
        def f():
            ld = loaded()
            return [[m.service.short_name, m.coding_object.short_name, m.param_dict] for m in ld.layer.decode(data)]
        return _outcome(f)

    def f():
        return loaded().obj.decode(data)
    return _outcome(f)


# ---------------------------------------------------------------------------
# workers
# ---------------------------------------------------------------------------
def _worker(argv):
    mode, inp, outp = argv
    if mode == "born":
        import importlib.util
        repo = os.environ.get("VERIF_REPO_DIR", "/repo")
        pkg = os.path.join(repo, "odxtools")
        spec = importlib.util.spec_from_file_location("odxtools", os.path.join(pkg, "__init__.py"),
                                                      submodule_search_locations=[pkg])
        mod = importlib.util.module_from_spec(spec)
        sys.modules["odxtools"] = mod
        import odxtools.exceptions as ex
        ex.strict_mode = False
        spec.loader.exec_module(mod)
    import odxtools.exceptions as ex
    # SYSTEM parameters without explicit value read the wall clock: both workers see one frozen instant, otherwise
    # outcomes would depend on when each worker happens to reach an operation
    import datetime as _dt
    import odxtools.parameters.systemparameter as _sp

    class _FrozenDatetime(_dt.datetime):
        @classmethod
        def now(cls, tz=None):
            return cls(2024, 2, 29, 13, 37, 42, 123000, tzinfo=tz)
    _sp.datetime = _FrozenDatetime
    with open(inp, "rb") as fh:
        ops = pickle.load(fh)
    out = []
    if mode == "born":
        if ex.strict_mode is not False:
            raise RuntimeError("born-non-strict bootstrap failed")
        cache: dict = {}
        for op in ops:
            if len(cache) > 150:
                cache.clear()       # (operations on one description are adjacent; bounded memory in long runs)
            out.append({"N": run_op(op, cache)})
    else:
        cache_s: dict = {}
        cache_n: dict = {}
        cache_x: dict = {}      # one database object used under both modes (the usual life of a loaded database)
        loaded_strict: dict = {}
        for op in ops:
            if len(cache_s) > 150 or len(cache_n) > 150 or len(cache_x) > 150:
                # (operations on one description are adjacent; bounded memory in long runs)
                cache_s.clear(); cache_n.clear(); cache_x.clear(); loaded_strict.clear()
            ex.strict_mode = True
            s1 = run_op(op, cache_s)
            ex.strict_mode = False
            n = run_op(op, cache_n)
            ex.strict_mode = True
            s2 = run_op(op, cache_s)
            rec = {"S1": s1, "N": n, "S2": s2}
            if op["op"] not in ("cli", "load-bad"):
                cache_x.pop("__last__", None)
                op["_kept"] = {}
                ex.strict_mode = True
                x1 = run_op(op, cache_x)
                k = cache_x.get("__last__")
                if k is not None and k in cache_x and k not in loaded_strict:
                    loaded_strict[k] = True
                ex.strict_mode = False
                xn = run_op(op, cache_x)
                if k is not None and k in cache_x and k not in loaded_strict:
                    loaded_strict[k] = False
                ex.strict_mode = True
                x2 = run_op(op, cache_x)
                op.pop("_kept", None)
                rec["X"] = {"S1": x1, "N": xn, "S2": x2, "loaded_strict": bool(loaded_strict.get(k))}
            out.append(rec)
    with open(outp, "wb") as fh:
        pickle.dump(out, fh)


def run_workers(ops: list):
    with tempfile.TemporaryDirectory(prefix="verif-c17-") as td:
        inp = os.path.join(td, "ops.pkl")
        with open(inp, "wb") as fh:
            pickle.dump(ops, fh)
        procs = []
        for mode in ("flip", "born"):
            outp = os.path.join(td, f"{mode}.pkl")
            procs.append((mode, outp, subprocess.Popen([sys.executable, "-m", "vlib.checks.c17", "--worker", mode, inp, outp],
                                                       stdout=subprocess.PIPE, stderr=subprocess.PIPE, text=True)))
        res = {}
        for mode, outp, p in procs:
            so, se = p.communicate()
            if p.returncode != 0 or not os.path.exists(outp):
                raise RuntimeError(f"C17 {mode} worker failed rc={p.returncode}: {se[-2000:]}")
            with open(outp, "rb") as fh:
                res[mode] = pickle.load(fh)
        return res["flip"], res["born"]


def judge(op, flip, born) -> list:
    fails = []
    s1, n, s2, nb = flip["S1"], flip["N"], flip["S2"], born["N"]
    label = op["op"] + (":" + op.get("label", "") if op.get("label") else "")
    small = {k: v for k, v in op.items()}

    def F(clause, detail):
        bucket = clause
        return core.Failure(clause, f"{label}: {detail}", core.plain(small), {"bucket": bucket, "op": op["op"], "label": op.get("label")})
    if op["op"] == "cli":
        for nm, o in (("strict", s1), ("non-strict", n), ("strict again", s2), ("born non-strict", nb)):
            if not (o[0] == "ok" and o[1].get("mode-restored")):
                fails.append(F("cli-mode-not-restored", f"process was {nm}, `odxtools {'--no-strict ' if op['no_strict'] else ''}"
                                                         f"{op['tool']}` ended with {json.dumps(o)[:200]}: strict_mode was not put back"))
                break
        # the flag, not the mode of the calling process, decides how the tool runs
        if not (s1 == n == s2 == nb) and not fails:
            fails.append(F("cli-mode-not-applied", f"outcomes differ with the mode of the calling process: {json.dumps([s1, n, nb])[:400]}"))
        return fails
    x = flip.get("X")
    if x is not None and x["loaded_strict"]:
        # the same loaded database used strict -> non-strict -> strict again
        if x["S1"][0] == "ok" and x["N"] != x["S1"]:
            fails.append(F("lenient-changes-valid-result:same-database", f"strict returned {json.dumps(x['S1'])[:300]} but non-strict "
                                                                           f"on the same database object {json.dumps(x['N'])[:300]}"))
        if x["S2"] != x["S1"]:
            fails.append(F("strict-not-restored:same-database", f"strict again {json.dumps(x['S2'])[:300]} != first strict "
                                                                 f"{json.dumps(x['S1'])[:300]} (same database object, used non-strict in between)"))
    if s1[0] == "ok" and n != s1:
        fails.append(F("lenient-changes-valid-result", f"strict returned {json.dumps(s1)[:300]} but non-strict {json.dumps(n)[:300]}"))
    if n != nb:
        fails.append(F("stale-flag", f"non-strict after run-time flip {json.dumps(n)[:300]} != born non-strict {json.dumps(nb)[:300]}"))
    if s2 != s1:
        fails.append(F("strict-not-restored", f"strict again {json.dumps(s2)[:300]} != first strict {json.dumps(s1)[:300]}"))
    return fails


def replay(case) -> list:
    flip, born = run_workers([case])
    return judge(case, flip[0], born[0])


# ---------------------------------------------------------------------------
def shards(tier):
    return [("batch", i) for i in range(8 if tier == "quick" else 16)]


def run_shard(spec, seed, tier):
    # the thorough tier is a sequence of quick-sized rounds with derived seeds: operations, worker caches and
    # outcomes of one round are dropped before the next one starts (bounded memory)
    res = core.ShardResult()
    rounds = 1 if tier == "quick" else 12
    seen: set = set()
    for r in range(rounds):
        _run_round(res, seen, seed + 7919 * r, 250)
        if res.failures:
            break
    return res


def _run_round(res, seen, seed, n):
    import hypothesis
    from hypothesis import given, strategies as st
    kf = known.load(PROPERTY)
    ops: list = []

    @st.composite
    def strat(draw):
        focus = draw(st.sampled_from([None, None, "emfield", "emfield", "mux", "dlfield", "sfield", "eopf", "dtc"]))
        c = draw(gen.message_case(opts={"focus": focus, "dtc_r": tuple(range(56, 72))} if focus == "dtc" else {"focus": focus}))
        muts = []
        allsites = list(mutvals.sites(c["msg"]["params"], c["values"]))
        for _ in range(2):
            path, kind, info = allsites[draw(st.integers(0, len(allsites) - 1))]
            if kind == "nonsettable":
                continue
            if kind == "tablekey":
                new, label = mutvals.mutation(draw, kind, info, None)
                parent = path[:-1]
                pv2 = dict(mutvals.get(c["values"], parent) if parent else c["values"])
                pv2[path[-1]] = new
                muts.append({"values": mutvals.put(c["values"], parent, pv2) if parent else pv2, "label": label})
                continue
            cur = mutvals.get(c["values"], path) if path else c["values"]
            new, label = mutvals.mutation(draw, kind, info, cur)
            muts.append({"values": mutvals.put(c["values"], path, new), "label": label})
        extra = {"mutated": muts, "positions": draw(st.lists(st.integers(0, 200), min_size=1, max_size=2)),
                 "random": draw(st.lists(st.binary(min_size=0, max_size=12), min_size=1, max_size=2)),
                 "cli": draw(st.one_of(st.none(), st.tuples(st.integers(0, 63), st.integers(0, 3), st.integers(0, 1)))),
                 "baddesc": draw(st.lists(st.tuples(st.integers(0, 63), st.integers(0, 63)), min_size=1, max_size=2))}
        return c, extra

    @hypothesis.seed(seed)
    @core.hyp_settings(n, shrink=False)
    @given(strat())
    def collect(ce):
        c, extra = ce
        ops.extend(core.plain(make_ops(c, extra)))
    collect()

    @st.composite
    def nrc_strat(draw):
        return nrc_service_ops(draw) + physconst_service_ops(draw) + badcand_service_ops(draw) + gnr_service_ops(draw)

    @hypothesis.seed(seed + 1)
    @core.hyp_settings(max(10, n // 10), shrink=False)
    @given(nrc_strat())
    def collect2(o):
        ops.extend(core.plain(o))
    collect2()
    flip, born = run_workers(ops)
    for op, fo, bo in zip(ops, flip, born):
        cls = {"op:" + op["op"]}
        if str(op.get("label", "")).startswith("bad-desc:"):
            cls.add("bad-desc")
            cls.add("bad-desc:" + op["label"].split(":")[1])
            if fo["S1"] != fo["N"]:
                cls.add("bad-desc:strict-differs")
        if op["op"] == "cli":
            t = fo["S1"][1]["tool"] if fo["S1"][0] == "ok" else ["?"]
            cls.add("cli:tool-raised" if t[0] == "exc" else "cli:tool-returned")
            cls.add("cli:" + ("no-strict" if op["no_strict"] else "strict"))
        if fo.get("X") is not None and fo["X"]["loaded_strict"]:
            cls.add("same-database")
            if fo["X"]["S1"] != fo["X"]["N"]:
                cls.add("same-database:strict-differs")
        differs = fo["S1"] != fo["N"]
        cls.add("strict-differs" if differs else "strict-same")
        if fo["S1"][0] == "ok":
            cls.add("strict-ok")
        res.note({k: v for k, v in op.items() if k != "xml"} if len(json.dumps(op)) > 3000 else op, differs, cls,
                 dig=op)
        for f in judge(op, fo, bo):
            k = known.match(kf, f)
            if k is not None:
                res.known_hits[k["id"]] += 1
            elif f.bucket() not in seen:
                seen.add(f.bucket())
                res.failures.append(f)
    res.stages["operations"] = res.stages.get("operations", 0) + len(ops)


if __name__ == "__main__":
    if len(sys.argv) > 1 and sys.argv[1] == "--worker":
        _worker(sys.argv[2:])
