"""C01 — encode -> decode returns the encoded values and consumes the whole PDU (DESIGN 3/C01).

The PDU is produced by odxtools itself (so the statement's condition "the encoder accepts" is
taken literally); the expectation "the values that were encoded (including defaulted, constant
and derived parameters)" comes from the reference interpreter (vlib/refcodec.py) where it defines
one, and from the supplied values themselves otherwise (self-consistency variant)."""
from __future__ import annotations

import json

from vlib import core, gen, known, msgharness as mh, refcodec

PROPERTY = "C01"
RULE = ("generated request/response descriptions x valid value assignments (optional parameters supplied or "
        "omitted at random); oracle: decode(encode(v)) equivalent to the reference expectation incl. defaults, "
        "constants and derived keys; whole PDU consumed (PDU length = reference length, public DecodeState cursor "
        "ends at len(pdu)); truncated static PDU raises DecodeError; same through DiagService.encode_request / "
        "DiagLayer.decode.  Non-trivial = >= 2 value-carrying leaves or a complex DOP, and one of: bit position "
        "!= 0, low-high multi-byte, negative signed, non-identical compu, nested structure, field with >= 2 "
        "items, mux, table, length key, out-of-order positions; distinct = digest of (description, values)")
ASSUMPTIONS = [
    "value equivalence of DESIGN 2.5 (float32 values compared after rounding to float32; DTCs by trouble code; "
    "MATCHING-REQUEST-PARAM echo as bytes or integer; reserved bits as 0)",
    "a multiplexer case without structure followed by an implicitly positioned parameter is generated only when "
    "switch key end == MUX BYTE-POSITION (cursor unambiguous) unless option mux_nostruct_anywhere",
]
MUST_HIT = ["mux-default-selected", "mux-default-by-name", "envdata", "static-table-row", "table", "dtc", "emfield", "nrc", "pk:system", "bitpos", "lowhigh-multibyte", "negative", "struct", "BYTE-SIZE", "sfield", "dlfield", "mux", "eopf",
            "dct:minmax", "dct:leading", "dct:paramlen", "packed-subbyte", "out-of-order", "implicit-pos",
            "compu:LINEAR", "compu:TEXTTABLE", "default-value", "pk:matchreq", "service-path", "truncation-checked"]

NT = {"bitpos", "lowhigh-multibyte", "negative", "compu:LINEAR", "compu:LINEAR-float", "compu:TEXTTABLE",
      "struct", "sfield", "dlfield", "eopf", "mux", "dct:paramlen", "out-of-order", "field>=2", "table",
      "packed-subbyte"}
DYNAMIC = {"dct:minmax", "dct:leading", "dct:paramlen", "dlfield", "eopf", "mux", "emfield", "table"}


def _fail(clause, detail, case, extra=None):
    f = {"bucket": clause, "features": case.get("features", [])}
    if extra:
        f.update(extra)
    return core.Failure(clause=clause, detail=detail, case=core.plain(case), features=f)


def supplied_vs_decoded(v, got, path=""):
    """self-consistency comparison used when the reference defines no expectation"""
    if v is None:
        return None   # "not specified"
    if isinstance(v, dict):
        if not isinstance(got, dict):
            return f"{path}: dict expected, got {got!r}"
        for k, x in v.items():
            if k not in got:
                return f"{path}.{k}: missing"
            d = supplied_vs_decoded(x, got[k], f"{path}.{k}")
            if d:
                return d
        return None
    if isinstance(v, (list, tuple)):
        if len(v) == 2 and isinstance(v[0], (str, int)) and not isinstance(v[0], bool) and isinstance(got, tuple):
            if isinstance(v[0], str) and got[0] != v[0]:
                return f"{path}: case/row {got[0]!r} != {v[0]!r}"
            return supplied_vs_decoded(v[1], got[1], path + ":" + str(v[0]))
        if not isinstance(got, (list, tuple)) or len(got) != len(v):
            return f"{path}: list of {len(v)} expected, got {got!r}"
        for i, (a, b) in enumerate(zip(v, got)):
            d = supplied_vs_decoded(a, b, f"{path}[{i}]")
            if d:
                return d
        return None
    if isinstance(v, (bytes, bytearray)):
        return None if isinstance(got, (bytes, bytearray)) and bytes(got) == bytes(v) else f"{path}: {got!r} != {v!r}"
    if isinstance(v, float) or isinstance(got, float):
        return None if mh.float_eq(v, got, "A_FLOAT32") else f"{path}: {got!r} != {v!r}"
    if hasattr(got, "trouble_code"):
        return None if v in (got.trouble_code, getattr(got, "short_name", None)) else f"{path}: DTC {got.trouble_code}"
    return None if v == got else f"{path}: {got!r} != {v!r}"


def eval_case(case, res: core.ShardResult | None = None) -> list:
    from odxtools.exceptions import DecodeError, OdxError
    case = mh.norm_case(case)
    feats = set(case.get("features", []))
    ref = None
    try:
        ref = refcodec.encode_message(case["msg"], case["values"], case.get("request"))
    except refcodec.RefReject:
        if res is not None:
            res.classes["ref-rejects-generated-case"] += 1
        return []
    except refcodec.RefUnsupported:
        if res is not None:
            res.classes["self-consistency-only"] += 1
    try:
        ld = mh.Loaded(case)
    except Exception as e:
        raise core.Inconclusive(f"in-envelope description rejected by the loader: {type(e).__name__}: {e}; "
                                f"case={json.dumps(core.plain(case))[:1500]}")
    with mh.quiet_warnings():
        try:
            pdu = ld.encode()
            exc = None
        except Exception as e:
            pdu, exc = None, e
    nleaves = json.dumps(core.plain(case["values"])).count(":")
    nontriv = bool(feats & NT) and (nleaves >= 2)
    cls = set(feats)
    if res is not None:
        if pdu is None:
            res.rejected += 1
            res.classes["rejected:" + mh.exc_key(exc)] += 1
        else:
            res.accepted += 1
    if pdu is None:
        if res is not None:
            res.note({"msg": case["msg"], "values": case["values"]}, False, cls)
        return []   # statement is conditional on acceptance (acceptance rate is a vacuity guard)
    fails = []
    with mh.quiet_warnings():
        try:
            dec = ld.decode(pdu)
        except Exception as e:
            fails.append(_fail("decode-raises", f"decoding the own PDU {pdu.hex()} raised {type(e).__name__}: {e}", case,
                               {"exc": mh.exc_key(e)}))
            dec = None
    if dec is not None:
        if ref is not None:
            d = mh.same_value(ref.expected, dec)
        else:
            d = supplied_vs_decoded(mh.to_odx_value(case["values"]), dec)
        if d:
            fails.append(_fail("roundtrip-values", f"{d} (pdu {pdu.hex()})", case))
    # whole PDU consumed
    if not fails and ref is not None and len(pdu) != len(ref.pdu):
        fails.append(_fail("pdu-length", f"PDU has {len(pdu)} bytes, reference layout {len(ref.pdu)} ({pdu.hex()})", case))
    if not fails and "mux-case-without-structure" not in feats and "last-listed-not-last" not in feats:
        # (the cursor after a list is the end of its last *listed* parameter, E19; where that is not the
        # positionally last one the cursor says nothing about how much of the PDU was described)
        from odxtools.decodestate import DecodeState
        with mh.quiet_warnings():
            try:
                ds = DecodeState(coded_message=pdu)
                ld.obj.decode_from_pdu(ds)
                if ds.cursor_byte_position != len(pdu):
                    fails.append(_fail("pdu-consumed", f"decode cursor ends at {ds.cursor_byte_position}, PDU has "
                                                       f"{len(pdu)} bytes ({pdu.hex()})", case))
            except Exception:
                pass
    # truncation of a static PDU must be rejected with DecodeError
    if not fails and ref is not None and not (feats & DYNAMIC) and len(pdu) >= 1 and ref.used[-1] != 0:
        cls.add("truncation-checked")
        with mh.quiet_warnings():
            try:
                r = ld.decode(pdu[:-1])
                fails.append(_fail("truncated-accepted", f"PDU {pdu.hex()} without its last byte decoded to {r!r}", case))
            except DecodeError:
                pass
            except Exception as e:
                fails.append(_fail("truncated-foreign-exception", f"{type(e).__name__}: {e}", case,
                                   {"exc": mh.exc_key(e)}))
    # the same through the service / layer API
    if not fails and case["msg"]["kind"] == "request" and case["msg"]["params"] and \
            case["msg"]["params"][0].get("name") == "sid" and case["msg"]["params"][0]["pk"] == "const":
        cls.add("service-path")
        svc = ld.layer.services[0]
        with mh.quiet_warnings():
            try:
                p2 = bytes(svc.encode_request(**mh.to_odx_value(case["values"])))
                if p2 != pdu:
                    fails.append(_fail("service-encode", f"DiagService.encode_request {p2.hex()} != Request.encode {pdu.hex()}", case))
                else:
                    msgs = ld.layer.decode(pdu)
                    mine = [m for m in msgs if m.coding_object is ld.obj]
                    if not mine:
                        fails.append(_fail("layer-decode", f"DiagLayer.decode({pdu.hex()}) did not report the request", case))
                    else:
                        d = mh.same_value(ref.expected, mine[0].param_dict) if ref is not None else \
                            supplied_vs_decoded(mh.to_odx_value(case["values"]), mine[0].param_dict)
                        if d:
                            fails.append(_fail("layer-decode-values", d, case))
            except OdxError as e:
                fails.append(_fail("layer-decode", f"service path raised {type(e).__name__}: {e} (pdu {pdu.hex()})", case,
                                   {"exc": mh.exc_key(e)}))
    if res is not None:
        res.note({"msg": case["msg"], "values": case["values"], "request": case.get("request"), "pdu": pdu.hex()},
                 nontriv, cls, dig={"m": case["msg"], "v": case["values"], "r": case.get("request")})
    return fails


def replay(case) -> list:
    return eval_case(case)


def shards(tier):
    n = 16
    return [("hyp", i, "std") for i in range(n - 4)] + [("hyp", i, "muxfree") for i in range(4)]


def run_shard(spec, seed, tier):
    res = core.ShardResult()
    kf = known.load(PROPERTY)
    _, _, variant = spec
    opts = {"mux_nostruct_anywhere": True, "static_table_row": True, "mux_default_by_name": True,
            "last_listed_not_last": True} if variant == "muxfree" else None

    def body(case):
        out = []
        for f in eval_case(case, res):
            k = known.match(kf, f)
            if k is not None:
                res.known_hits[k["id"]] += 1
            else:
                out.append(f)
        return out
    n = 1000 if tier == "quick" else 6000
    found = core.hyp_search(gen.message_case(opts=opts), body, seed, n)
    if found:
        res.failures.extend(found)
    res.stages["hypothesis"] = n
    if res.accepted + res.rejected > 50 and res.accepted < 0.8 * (res.accepted + res.rejected):
        raise core.Inconclusive(f"acceptance rate collapsed: {res.accepted}/{res.accepted + res.rejected} "
                                f"{dict(res.classes)}")
    return res
