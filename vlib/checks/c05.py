"""C05 — decoding arbitrary bytes is total: it returns or raises DecodeError (DESIGN 3/C05)."""
from __future__ import annotations

import itertools
import json
import os
import pickle
import random
import signal
import subprocess
import sys
import tempfile
import warnings

from vlib import core, gen, known, msgharness as mh, refcodec

PROPERTY = "C05"
RULE = ("generated descriptions (and every layer of examples/somersault.pdx) x byte strings: every prefix and every "
        "single-byte mutation (xor 01/80/FF, set 00/FF) of a valid PDU, valid PDU + trailing bytes, all strings of "
        "length <= 3 over {00,01,7F,80,FF} + constant bytes, random strings; entry points Request/Response.decode, "
        "DiagService.decode_message, DiagLayer.decode, DiagLayer.decode_response; both warning regimes (default, "
        "error::DecodeError).  Oracle: returns or raises an instance of DecodeError, terminates; a static PDU cut "
        "before its last value-carrying byte raises DecodeError.  Non-trivial = the byte string is not the valid PDU "
        "and is a truncation or at least as long as the constant prefix; distinct = digest of (description, bytes)")
ASSUMPTIONS = [
    "non-termination is approximated by a 10 s wall-clock guard per byte string (normal decode time << 1 ms), confirmed with 30 s before it is reported",
    "truncation clause only for descriptions without objects that the end of the PDU may terminate (MIN-MAX-LENGTH values, end-of-pdu / end-marker fields); 'value-carrying' = bits claimed by a parameter in the reference's used mask",
]
MUST_HIT = ["repetition-checked", "tail-reserved", "sfield-dynamic-items", "tail-default-value", "truncation-clause:announced-extent", "truncation-inside-field-item", "layer-case", "prefix", "mutation", "short", "random", "overlong", "entry:obj", "entry:layer", "entry:service",
            "entry:decode_response", "regime:error", "regime:default", "outcome:DecodeError", "outcome:returned",
            "truncation-clause", "somersault"]
DYNAMIC = {"dct:minmax", "dct:leading", "dct:paramlen", "dlfield", "eopf", "mux", "emfield", "table", "envdata"}
TRUNC_AMBIGUOUS = {"dct:minmax", "eopf", "emfield"}
ALPHABET = [0x00, 0x01, 0x7F, 0x80, 0xFF]


class _Timeout(BaseException):
    pass


def _alarm(signum, frame):
    raise _Timeout()


def _fail(clause, detail, case, extra=None):
    f = {"bucket": clause}
    if extra:
        f.update(extra)
        if "exc" in extra:
            f["bucket"] = f"{clause}:{extra['exc']}"
    return core.Failure(clause=clause, detail=detail, case=core.plain(case), features=f)


def probe(ld, case, data: bytes, regime: str, cls: set, lv=None, log=None) -> list:
    """decode `data` through every entry point under one warning regime"""
    from odxtools.exceptions import DecodeError
    fails = []
    is_req = case["msg"]["kind"] == "request"
    entries = [("obj", lambda: ld.obj.decode(data))]
    if is_req:
        entries.append(("service", lambda: ld.layer.services[0].decode_message(data)))
    entries.append(("layer", lambda: ld.layer.decode(data)))
    rq = case.get("request")
    if not is_req and rq is not None:
        entries.append(("decode_response", lambda: ld.layer.decode_response(data, rq)))
    for name, fn in entries:
        cls.add("entry:" + name)
        with warnings.catch_warnings(record=True):
            if regime == "error":
                warnings.simplefilter("ignore")
                warnings.simplefilter("error", DecodeError)
            else:
                warnings.simplefilter("always")
            signal.setitimer(signal.ITIMER_REAL, 10.0)
            try:
                r = fn()
                cls.add("outcome:returned")
                if log is not None:
                    log[(name, regime, data)] = "returned"
                if name == "obj" and lv is not None and (len(data) < lv if lv >= 0 else True):
                    fails.append(_fail("truncated-accepted", f"{data.hex()} ({len(data)} bytes, description needs {lv}) "
                                                             f"decoded to {r!r}", dict(case, data=data.hex(), regime=regime)))
            except DecodeError:
                cls.add("outcome:DecodeError")
                if log is not None:
                    log[(name, regime, data)] = "DecodeError"
            except _Timeout:
                fails.append(_fail("non-termination", f"{name}({data.hex()}) did not return within 10 s",
                                   dict(case, data=data.hex(), regime=regime), {"entry": name}))
            except Exception as e:
                fails.append(_fail("foreign-exception", f"{name}({data.hex()}) [{regime}] raised {type(e).__name__}: {e}",
                                   dict(case, data=data.hex(), regime=regime), {"exc": mh.exc_key(e), "entry": name}))
            finally:
                signal.setitimer(signal.ITIMER_REAL, 0)
    return fails


def byte_strings(pdu: bytes, consts: list, rnd_strings: list):
    """(kind, bytes) derived from one valid PDU"""
    out = []
    for i in range(len(pdu)):
        out.append(("prefix", pdu[:i]))
    for i in range(len(pdu)):
        for op in (0x01, 0x80, 0xFF):
            out.append(("mutation", pdu[:i] + bytes([pdu[i] ^ op]) + pdu[i + 1:]))
        for v in (0x00, 0xFF):
            if pdu[i] != v:
                out.append(("mutation", pdu[:i] + bytes([v]) + pdu[i + 1:]))
    out.append(("overlong", pdu + b"\x00"))
    out.append(("overlong", pdu + b"\xff\x01\x80"))
    alpha = sorted(set(ALPHABET) | set(consts[:3]))
    for n in range(0, 4):
        for t in itertools.product(alpha, repeat=n):
            out.append(("short", bytes(t)))
    for r in rnd_strings:
        out.append(("random", r))
    return out


def eval_case(case, res: core.ShardResult | None = None, kf=None, budget: int = 10 ** 9) -> list:
    case = mh.norm_case(case)
    signal.signal(signal.SIGALRM, _alarm)
    feats = set(case.get("features", []))
    try:
        ld = mh.Loaded(case)
    except Exception as e:
        raise core.Inconclusive(f"in-envelope description rejected by the loader: {type(e).__name__}: {e}")
    if "data" in case and isinstance(case["data"], str):
        cls: set = set()
        return probe(ld, case, bytes.fromhex(case["data"]), case.get("regime", "default"), cls,
                     case.get("lv"))
    ref = None
    try:
        ref = refcodec.encode_message(case["msg"], case["values"], case.get("request"))
        pdu = ref.pdu
    except (refcodec.RefReject, refcodec.RefUnsupported):
        with mh.quiet_warnings():
            try:
                pdu = ld.encode()
            except Exception:
                return []
    lv = None
    # objects whose extent is announced *in front of* their content (switch key, table key, item count, leading
    # length, length key) keep their layout in every prefix that still contains the announcement, and a prefix
    # that does not contain it ends before a described parameter anyway; only objects that may be ended by the
    # end of the PDU itself (MIN-MAX-LENGTH values, end-of-pdu and end-marker fields) make a prefix ambiguous
    if ref is not None and not (feats & TRUNC_AMBIGUOUS) and "last-listed-not-last" not in feats \
            and "mux-case-without-structure" not in feats:
        # (a RESERVED parameter carries no value but is a described parameter: the PDU must reach its end)
        idx = [i for i, u in enumerate(ref.used) if u] + list(getattr(ref, "reserved", []))
        lv = (max(idx) + 1) if idx else None
    # an end-of-pdu field of fixed-size items at the end of an otherwise static message: a PDU that ends inside
    # an item ends "before the last described parameter" of that item
    eopf_tail = None
    lastp = case["msg"]["params"][-1] if case["msg"]["params"] else None
    if ref is not None and lastp is not None and lastp["pk"] == "value" and lastp["dop"]["k"] == "eopf" \
            and (lastp["dop"].get("isz") or 0) >= 2 \
            and isinstance(case["values"].get(lastp["name"]), list) and "last-listed-not-last" not in feats:
        isz = lastp["dop"]["isz"]
        start = len(pdu) - isz * len(case["values"][lastp["name"]])
        if start >= 0:
            eopf_tail = (start, isz)
    consts = [p["v"] & 0xFF for p in case["msg"]["params"] if p["pk"] == "const" and isinstance(p["v"], int)]
    constlen = len(consts)
    fails: list = []
    strings = byte_strings(pdu, consts, [bytes(x) for x in case.get("random", [])])
    if len(strings) > budget:
        rnd = random.Random(len(pdu))
        keep = [s for s in strings if s[0] in ("prefix", "overlong", "random")]
        rest = [s for s in strings if s[0] not in ("prefix", "overlong", "random")]
        rnd.shuffle(rest)
        strings = keep + rest[:max(0, budget - len(keep))]
    seen_buckets = set()
    outcome_log: dict = {}
    for kind, data in strings:
        for regime in ("default", "error"):
            cls = {kind, "regime:" + regime}
            for ft in ("tail-default-value", "tail-reserved", "sfield-dynamic-items"):
                if ft in feats:
                    cls.add(ft)
            if lv is not None and len(data) < lv and (kind == "prefix" or not (feats & DYNAMIC)):
                cls.add("truncation-clause")
                if feats & DYNAMIC:
                    cls.add("truncation-clause:announced-extent")
            lv2 = lv
            if lv is not None and (feats & DYNAMIC) and kind != "prefix":
                lv2 = None      # other strings announce other extents; only prefixes of the valid PDU keep its layout
            if eopf_tail and kind == "prefix" and len(data) > eopf_tail[0] and (len(data) - eopf_tail[0]) % eopf_tail[1]:
                # ... unless only padding of the item (BYTE-SIZE, gaps) is missing
                item_end = eopf_tail[0] + ((len(data) - eopf_tail[0]) // eopf_tail[1] + 1) * eopf_tail[1]
                if any(ref.used[len(data):item_end]):
                    cls.add("truncation-inside-field-item")
                    lv2 = -1      # must be rejected whatever its length
            c2 = dict(case, lv=lv2) if lv2 is not None else case
            fs = probe(ld, c2, data, regime, cls, lv2, log=outcome_log if len(outcome_log) < 400 else None)
            if res is not None:
                nt = data != pdu and (kind == "prefix" or len(data) >= constlen)
                res.note({"msg_digest": core.digest(case["msg"]).hex(), "data": data.hex(), "kind": kind}, nt, cls,
                         sample=(len(res.samples) < 6 and kind != "short"),
                         dig={"m": case["msg"], "d": data.hex(), "r": regime})
            for f in fs:
                if kf is not None and known.match(kf, f) is not None:
                    if res is not None:
                        res.known_hits[known.match(kf, f)["id"]] += 1
                    continue
                if f.bucket() not in seen_buckets:
                    seen_buckets.add(f.bucket())
                    fails.append(f)
    # decoding is a function of the bytes: asking again (same objects, same regime) gives the same kind of outcome
    if not fails:
        again: dict = {}
        keys = [k_ for k_, v in outcome_log.items() if v == "DecodeError"][:45] + [k_ for k_, v in outcome_log.items() if v != "DecodeError"][:15]
        for (name, regime, data) in keys:
            probe(ld, case, data, regime, set(), None, log=again)
        for k_, v in again.items():
            if outcome_log.get(k_) not in (None, v):
                f = _fail("outcome-changes-on-repetition", f"{k_[0]}({k_[2].hex()}) [{k_[1]}]: first {outcome_log[k_]}, "
                          f"later {v}", dict(case, data=k_[2].hex(), regime=k_[1]))
                if kf is None or known.match(kf, f) is None:
                    fails.append(f)
                break
        if res is not None:
            res.classes["repetition-checked"] += 1
    return fails


def replay(case) -> list:
    return eval_case(case)


# ---------------------------------------------------------------------------
# layers with several services, negative and global negative responses
# ---------------------------------------------------------------------------
def layer_case_strategy():
    from hypothesis import strategies as st
    u8 = {"t": "std", "bt": "A_UINT32", "bl": 8, "enc": None, "hl": None}

    def dop(i, compu=None, pt="A_UINT32"):
        return {"k": "simple", "id": i, "dct": dict(u8), "compu": compu or {"c": "IDENTICAL"}, "pt": pt}

    @st.composite
    def s(draw):
        nsvc = draw(st.integers(1, 3))
        sids = draw(st.lists(st.integers(0x10, 0x3E), min_size=nsvc, max_size=nsvc, unique=True))
        msgs = []
        for i, sid in enumerate(sids):
            msgs.append({"kind": "request", "id": f"rq{i}", "params": [
                {"pk": "const", "name": "sid", "pos": 0, "bit": 0, "dct": dict(u8), "v": sid},
                {"pk": "value", "name": "arg", "pos": 1, "bit": 0, "dop": dop(f"da{i}"), "default": None}]})
        for i, sid in enumerate(sids):
            # the echoed range may straddle the end of the request's constant prefix (constant SID + free byte)
            rp, n = draw(st.sampled_from([(1, 1), (0, 2), (0, 1), (0, 2)]))
            msgs.append({"kind": "response", "rtype": "POS-RESPONSE", "id": f"pr{i}", "svc": i, "params": [
                {"pk": "const", "name": "sid", "pos": 0, "bit": 0, "dct": dict(u8), "v": sid + 0x40},
                {"pk": "matchreq", "name": "echo", "pos": 1, "rpos": rp, "n": n},
                {"pk": "value", "name": "res", "pos": 1 + n, "bit": 0, "dop": dop(f"dr{i}"), "default": None}]})
            if draw(st.booleans()):
                vals = sorted(draw(st.sets(st.sampled_from([0x00, 0x11, 0x22, 0x31]), min_size=1, max_size=3)))
                msgs.append({"kind": "response", "rtype": "NEG-RESPONSE", "id": f"nr{i}", "svc": i, "params": [
                    {"pk": "const", "name": "sid", "pos": 0, "bit": 0, "dct": dict(u8), "v": 0x7F},
                    {"pk": "matchreq", "name": "rqsid", "pos": 1, "rpos": 0, "n": 1},
                    {"pk": "nrc", "name": "nrc", "pos": 2, "bit": 0, "dct": dict(u8), "vals": vals},
                    {"pk": "value", "name": "code", "pos": 2, "bit": 0, "dop": dop(f"dn{i}"), "default": None}]})
        ngnr = draw(st.integers(1, 2))
        for g in range(ngnr):
            rows = [[c, c, f"nrc{c}"] for c in sorted(draw(st.sets(st.sampled_from([0x10, 0x11, 0x12, 0x22, 0x78]), min_size=1, max_size=3)))]
            params = [
                {"pk": "const", "name": "sid", "pos": 0, "bit": 0, "dct": dict(u8), "v": 0x7F},
                {"pk": "matchreq", "name": "rqsid", "pos": 1, "rpos": 0, "n": 1},
                {"pk": "value", "name": "code", "pos": 2, "bit": 0, "default": None,
                 "dop": dop(f"dg{g}", {"c": "TEXTTABLE", "rows": rows}, "A_UNICODE2STRING")}]
            if g == 1 or draw(st.booleans()):
                params.append({"pk": "value", "name": "extra", "pos": 3, "bit": 0, "dop": dop(f"dx{g}"), "default": None})
            msgs.append({"kind": "response", "rtype": "GLOBAL-NEG-RESPONSE", "id": f"gnr{g}", "params": params})
        rnd = draw(st.lists(st.binary(min_size=0, max_size=6), min_size=1, max_size=4))
        return {"layer": True, "msgs": msgs, "sids": sids, "random": rnd}
    return s()


def eval_layer_case(case, res: core.ShardResult | None = None, kf=None) -> list:
    """every own PDU of every coding object, its prefixes and single-byte mutations, and short strings, through
    DiagLayer.decode and DiagLayer.decode_response"""
    from odxtools.exceptions import DecodeError
    from vlib import emit
    case = mh.norm_case(case)
    signal.signal(signal.SIGALRM, _alarm)
    db, layer, objs = emit.load_messages(case["msgs"])
    sids = case["sids"]
    pdus = []
    for m in case["msgs"]:
        if m["kind"] == "request":
            pdus.append(bytes([m["params"][0]["v"], 0x05]))
    rq_pdus = list(pdus)
    for sid in sids:
        rq = bytes([sid, 0x05])
        pdus += [bytes([sid + 0x40, 0x05, 0x09]), bytes([0x7F, sid, 0x11]), bytes([0x7F, sid, 0x00]), bytes([0x7F, sid, 0x22, 0x01]),
                 bytes([0x7F, sid, 0x33]), bytes([0x7F, sid])]
    if "data" in case and isinstance(case["data"], str):
        strings = [("replay", bytes.fromhex(case["data"]))]
    else:
        strings = []
        for p in pdus:
            for i in range(len(p) + 1):
                strings.append(("prefix", p[:i]))
            for i in range(len(p)):
                for op in (0x01, 0x80, 0xFF):
                    strings.append(("mutation", p[:i] + bytes([p[i] ^ op]) + p[i + 1:]))
            strings.append(("overlong", p + b"\x00\x01"))
        for r in case.get("random", []):
            strings.append(("random", bytes(r)))
    fails, seen = [], set()
    for kind, data in strings:
        for regime in ("default", "error"):
            entries = [("layer", lambda: layer.decode(data))]
            for rq in rq_pdus:
                entries.append(("decode_response", lambda rq=rq: layer.decode_response(data, rq)))
            for name, fn in entries:
                cls = {kind, "regime:" + regime, "entry:" + name, "layer-case"}
                f = None
                with warnings.catch_warnings(record=True):
                    if regime == "error":
                        warnings.simplefilter("ignore")
                        warnings.simplefilter("error", DecodeError)
                    else:
                        warnings.simplefilter("always")
                    signal.setitimer(signal.ITIMER_REAL, 10.0)
                    try:
                        fn()
                        cls.add("outcome:returned")
                    except DecodeError:
                        cls.add("outcome:DecodeError")
                    except _Timeout:
                        f = _fail("non-termination", f"{name}({data.hex()})", dict(case, data=data.hex()), {"entry": name})
                    except Exception as e:
                        f = _fail("foreign-exception", f"layer case: {name}({data.hex()}) [{regime}] raised {type(e).__name__}: {e}",
                                  dict(case, data=data.hex(), regime=regime), {"exc": mh.exc_key(e), "entry": name})
                    finally:
                        signal.setitimer(signal.ITIMER_REAL, 0)
                if res is not None:
                    res.note({"layer_case": len(case["msgs"]), "data": data.hex(), "kind": kind}, True, cls,
                             sample=(len(res.samples) < 2), dig={"m": case["msgs"], "d": data.hex(), "r": regime, "e": name})
                if f is not None:
                    k = known.match(kf, f) if kf is not None else None
                    if k is not None:
                        if res is not None:
                            res.known_hits[k["id"]] += 1
                    elif f.bucket() not in seen:
                        seen.add(f.bucket())
                        fails.append(f)
    return fails


# ---------------------------------------------------------------------------
# the shipped example database
# ---------------------------------------------------------------------------
def run_somersault(spec, seed, tier) -> core.ShardResult:
    from odxtools.exceptions import DecodeError
    import odxtools
    res = core.ShardResult()
    kf = known.load(PROPERTY)
    signal.signal(signal.SIGALRM, _alarm)
    repo = os.environ.get("VERIF_REPO_DIR", "/repo")
    db = odxtools.load_pdx_file(os.path.join(repo, "examples", "somersault.pdx"))
    rnd = random.Random(seed)
    n_rand = 300 if tier == "quick" else 5000
    for layer in db.diag_layers:
        seeds = set()
        for svc in getattr(layer, "services", []):
            try:
                pre = bytes(svc.request.coded_const_prefix()) if svc.request else b""
            except Exception:
                pre = b""
            seeds.add(pre)
            for r in list(svc.positive_responses) + list(svc.negative_responses):
                try:
                    seeds.add(bytes(r.coded_const_prefix(request_prefix=pre)))
                except Exception:
                    pass
        strings = []
        for s in sorted(seeds):
            for i in range(len(s) + 1):
                strings.append(s[:i])
            for _ in range(6):
                strings.append(s + bytes(rnd.randrange(256) for _ in range(rnd.randrange(0, 8))))
            for a in ALPHABET:
                strings.append(s + bytes([a]))
                strings.append(s + bytes([a, a]))
        for n in range(0, 3):
            for t in itertools.product(ALPHABET + [0x10, 0x22, 0x3E, 0x50], repeat=n):
                strings.append(bytes(t))
        for _ in range(n_rand):
            strings.append(bytes(rnd.randrange(256) for _ in range(rnd.randrange(0, 12))))
        seen = set()
        for data in strings:
            for regime in ("default", "error"):
                with warnings.catch_warnings(record=True):
                    if regime == "error":
                        warnings.simplefilter("ignore")
                        warnings.simplefilter("error", DecodeError)
                    else:
                        warnings.simplefilter("always")
                    signal.setitimer(signal.ITIMER_REAL, 10.0)
                    f = None
                    try:
                        layer.decode(data)
                    except DecodeError:
                        pass
                    except _Timeout:
                        f = core.Failure("non-termination", f"somersault {layer.short_name}.decode({data.hex()})",
                                         {"somersault": layer.short_name, "data": data.hex(), "regime": regime},
                                         {"bucket": "non-termination:somersault"})
                    except Exception as e:
                        f = core.Failure("foreign-exception",
                                         f"somersault {layer.short_name}.decode({data.hex()}) [{regime}] raised "
                                         f"{type(e).__name__}: {e}",
                                         {"somersault": layer.short_name, "data": data.hex(), "regime": regime},
                                         {"bucket": f"foreign-exception:{mh.exc_key(e)}", "exc": mh.exc_key(e), "entry": "layer"})
                    finally:
                        signal.setitimer(signal.ITIMER_REAL, 0)
                res.note({"somersault": layer.short_name, "data": data.hex()}, len(data) > 0,
                         ["somersault", "regime:" + regime], sample=(len(res.samples) < 3 and len(data) > 2),
                         dig={"l": layer.short_name, "d": data.hex(), "r": regime})
                if f is not None:
                    k = known.match(kf, f)
                    if k is not None:
                        res.known_hits[k["id"]] += 1
                    elif f.bucket() not in seen:
                        seen.add(f.bucket())
                        res.failures.append(f)
    res.stages["somersault"] = res.evaluations
    return res


def replay_somersault(case) -> list:
    from odxtools.exceptions import DecodeError
    import odxtools
    repo = os.environ.get("VERIF_REPO_DIR", "/repo")
    db = odxtools.load_pdx_file(os.path.join(repo, "examples", "somersault.pdx"))
    layer = db.diag_layers[case["somersault"]]
    data = bytes.fromhex(case["data"])
    with warnings.catch_warnings(record=True):
        if case.get("regime") == "error":
            warnings.simplefilter("ignore")
            warnings.simplefilter("error", DecodeError)
        try:
            layer.decode(data)
        except DecodeError:
            return []
        except Exception as e:
            return [core.Failure("foreign-exception", f"{type(e).__name__}: {e}", case,
                                 {"bucket": f"foreign-exception:{mh.exc_key(e)}", "exc": mh.exc_key(e), "entry": "layer"})]
    return []


_replay_generated = replay


def replay(case) -> list:  # noqa: F811
    if "somersault" in case:
        return replay_somersault(case)
    if case.get("layer"):
        return eval_layer_case(case)
    return _replay_generated(case)


# ---------------------------------------------------------------------------
# shards
# ---------------------------------------------------------------------------
def shards(tier):
    out = [("hyp", i) for i in range(12)] + [("layers", 0), ("layers", 1)] + [("somersault",)]
    if tier == "thorough":
        out += [("atheris", 0), ("atheris", 1)]
    return out


def case_strategy():
    from hypothesis import strategies as st

    @st.composite
    def s(draw):
        focus = draw(st.sampled_from([None, None, None, "sfield", "sfield", "dlfield", "mux", "eopf", "emfield", "dtc"]))
        o = {"table_struct_first": True, "texttable_pct": 30, "focus": focus}
        if focus == "dtc":
            o["dtc_r"] = tuple(range(56, 72))
        c = draw(gen.message_case(opts=o))
        static_msg = not (set(c["features"]) & (DYNAMIC | {"nrc", "table-struct-listed-first"}))
        tail_kind = draw(st.integers(0, 9))
        if static_msg and tail_kind in (3, 4):
            # a trailing RESERVED parameter (also wider than the largest integer object): it is a described
            # parameter, so a PDU must reach its end
            bl = draw(st.sampled_from([8, 12, 16, 67, 72, 128]))
            c["msg"]["params"].append({"pk": "reserved", "name": "rsv_tail", "pos": None, "bit": draw(st.sampled_from([0, 0, 3])),
                                       "bl": bl})
            c["features"] = sorted(set(c["features"]) | {"pk:reserved", "tail-reserved"} | ({"reserved:over-64-bits"} if bl > 64 else set()))
        if static_msg and tail_kind < 3:
            # a trailing parameter whose compu method has a COMPU-DEFAULT-VALUE: a PDU that ends before or inside
            # it must be rejected, not completed with the default text
            bl = draw(st.sampled_from([8, 12, 16]))
            n = draw(st.integers(1, 3))
            rows = [[i * 2, i * 2, f"t{i}"] for i in range(n)]
            d = {"k": "simple", "id": "dop_taildflt", "dct": {"t": "std", "bt": "A_UINT32", "bl": bl, "enc": None, "hl": None},
                 "compu": {"c": "TEXTTABLE", "rows": rows, "default": "dflt"}, "pt": "A_UNICODE2STRING"}
            c["msg"]["params"].append({"pk": "value", "name": "p_taildflt", "pos": None, "bit": 0, "dop": d, "default": None})
            c["values"]["p_taildflt"] = draw(st.sampled_from([r[2] for r in rows]))
            c["features"] = sorted(set(c["features"]) | {"compu:TEXTTABLE", "compu:default-value", "tail-default-value"})
        c["random"] = draw(st.lists(st.binary(min_size=0, max_size=24), min_size=2, max_size=6))
        return c
    return s()


def run_shard(spec, seed, tier):
    if spec[0] == "somersault":
        return run_somersault(spec, seed, tier)
    if spec[0] == "atheris":
        return run_atheris(spec, seed, tier)
    if spec[0] == "layers":
        res = core.ShardResult()
        kf = known.load(PROPERTY)

        def lbody(case):
            return eval_layer_case(case, res, kf)
        n = 40 if tier == "quick" else 400
        found = core.hyp_search(layer_case_strategy(), lbody, seed, n, shrink_budget_s=30)
        if found:
            res.failures.extend(found)
        res.stages["layers"] = n
        return res
    res = core.ShardResult()
    kf = known.load(PROPERTY)
    budget = 500 if tier == "quick" else 3000

    def body(case):
        return eval_case(case, res, kf, budget)
    n = 120 if tier == "quick" else 800
    found = core.hyp_search(case_strategy(), body, seed, n, shrink_budget_s=30)
    if found:
        res.failures.extend(found)
    res.stages["hypothesis"] = n
    return res


# ---------------------------------------------------------------------------
# atheris campaign (thorough tier)
# ---------------------------------------------------------------------------
def _collect_descriptions(seed: int, n: int) -> list:
    import hypothesis
    from hypothesis import given
    out: list = []

    @hypothesis.seed(seed)
    @core.hyp_settings(n, shrink=False)
    @given(gen.message_case())
    def t(c):
        if len(out) < n:
            out.append(c)
    t()
    return out


def run_atheris(spec, seed, tier) -> core.ShardResult:
    res = core.ShardResult()
    try:
        import atheris  # noqa: F401
    except Exception as e:
        res.stages["atheris"] = f"unavailable: {e}"
        return res
    runs = 300000
    with tempfile.TemporaryDirectory(prefix="verif-c05-") as td:
        p = subprocess.run([sys.executable, "-m", "vlib.checks.c05", "--atheris", td, str(seed), str(runs), str(spec[1])],
                           capture_output=True, text=True, timeout=3000)
        rp = os.path.join(td, "result.pkl")
        if not os.path.exists(rp):
            res.stages["atheris"] = f"no result (rc={p.returncode}): {p.stderr[-500:]}"
            return res
        with open(rp, "rb") as fh:
            r = pickle.load(fh)
    kf = known.load(PROPERTY)
    res.evaluations += r["execs"]
    res.classes["atheris-exec"] += r["execs"]
    res.stages["atheris"] = r["execs"]
    for dg in r["digests"]:
        res.digests.add(dg)
    for case, detail, exc in r["fails"]:
        f = _fail("foreign-exception", detail, case, {"exc": exc, "entry": "atheris"})
        k = known.match(kf, f)
        if k is not None:
            res.known_hits[k["id"]] += 1
        else:
            res.failures.append(f)
    return res


def _atheris_main(argv):
    td, seed, runs, variant = argv[0], int(argv[1]), int(argv[2]), int(argv[3])
    import atheris
    with atheris.instrument_imports(include=["odxtools"]):
        import odxtools  # noqa: F401
        from odxtools.exceptions import DecodeError
    descs = _collect_descriptions(seed, 64)
    loaded = []
    for c in descs:
        try:
            loaded.append((mh.norm_case(c), mh.Loaded(mh.norm_case(c))))
        except Exception:
            pass
    state = {"execs": 0, "fails": [], "digests": set(), "buckets": set()}

    def dump():
        tmp = os.path.join(td, "result.pkl.tmp")
        with open(tmp, "wb") as fh:
            pickle.dump({"execs": state["execs"], "fails": state["fails"], "digests": state["digests"]}, fh)
        os.replace(tmp, os.path.join(td, "result.pkl"))

    def target(data: bytes):
        if not data:
            return
        state["execs"] += 1
        case, ld = loaded[data[0] % len(loaded)]
        payload = data[1:]
        for name, fn in (("obj", lambda: ld.obj.decode(payload)), ("layer", lambda: ld.layer.decode(payload))):
            with warnings.catch_warnings():
                warnings.simplefilter("ignore")
                try:
                    fn()
                except DecodeError:
                    pass
                except Exception as e:
                    key = mh.exc_key(e)
                    if key not in state["buckets"] and len(state["fails"]) < 50:
                        state["buckets"].add(key)
                        state["fails"].append((dict(core.plain(case), data=payload.hex(), regime="default"),
                                               f"atheris: {name}({payload.hex()}) raised {type(e).__name__}: {e}", key))
        if state["execs"] % 64 == 0:
            state["digests"].add(core.digest({"d": data.hex()}))
        if state["execs"] % 5000 == 0 or state["execs"] >= runs - 1:
            dump()   # libFuzzer ends the process without running finally/atexit handlers

    corpus = os.path.join(td, "corpus")
    os.makedirs(corpus)
    if variant == 1:
        # seed corpus: valid PDUs of the descriptions
        for i, (case, ld) in enumerate(loaded):
            try:
                with mh.quiet_warnings():
                    pdu = ld.encode()
                with open(os.path.join(corpus, f"s{i}"), "wb") as fh:
                    fh.write(bytes([i]) + pdu)
            except Exception:
                pass
    atheris.Setup([sys.argv[0], f"-runs={runs}", f"-seed={seed % (2 ** 31) or 1}", "-max_len=48", "-timeout=20",
                   "-verbosity=0", "-print_final_stats=0", corpus], target)
    try:
        atheris.Fuzz()
    finally:
        dump()


if __name__ == "__main__":
    if len(sys.argv) > 1 and sys.argv[1] == "--atheris":
        _atheris_main(sys.argv[2:])
