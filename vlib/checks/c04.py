"""C04 — the encoder never silently emits a PDU that misrepresents its input (DESIGN 3/C04).

Oracle: encode either raises an instance of odxtools.exceptions.OdxError, or returns a PDU that
decodes back to the *requested* values.  Nothing is required to be rejected."""
from __future__ import annotations

import json
import math
from fractions import Fraction

from vlib import core, gen, known, msgharness as mh, mutvals, refcodec
from vlib.checks.c01 import supplied_vs_decoded

PROPERTY = "C04"
RULE = ("(1) exhaustive: one-leaf integer requests for every base type/encoding and bit length <= 8 (quick) / 12 "
        "(thorough) x every integer in [min-2^n, max+2^n]; boundary values for wide leaves; (2) generated descriptions "
        "x a valid assignment mutated at exactly one site (out of range, wrong type, wrong length, terminator inside, "
        "unencodable characters, missing required, unknown parameter, malformed mux/field shapes).  Non-trivial = the "
        "assignment contains a value outside the representable set or of the wrong type/shape; distinct = digest of "
        "(leaf signature or description, mutation label, value)")
ASSUMPTIONS = [
    "None for a parameter means 'not specified' (API convention), so it is never compared",
    "a value supplied for a non-settable parameter (constant, reserved, matching request) may be rejected or ignored (C08)",
    "requested vs decoded uses the value equivalence of DESIGN 2.5 (True == 1, 3.0 == 3, bytes == bytearray are equal)",
]
MUST_HIT = ["mut:does-not-fit", "mut:const-near-miss", "mut:valid-assignment", "mut:request-too-short", "mut:tablekey", "mut:tstruct", "minmax-sweep:A_UNICODE2STRING", "minmax-sweep:A_BYTEFIELD", "sweep:A_UINT32", "sweep:A_INT32:2C", "sweep:A_INT32:1C", "sweep:A_INT32:SM", "sweep:BCD", "outcome:rejected",
            "outcome:accepted", "mut:int-out-of-range", "mut:struct-missing-required", "mut:struct-unknown-param",
            "mut:mux", "mut:bytes", "mut:str", "mut:wrong-type", "mut:list"]


def _fail(clause, detail, case, extra=None):
    f = {"bucket": clause}
    if extra:
        f.update(extra)
        if "exc" in extra:
            f["bucket"] = f"{clause}:{extra['exc']}"
    return core.Failure(clause=clause, detail=detail, case=core.plain(case), features=f)


def _dop_at(params, values, path):
    """the simple DOP of the leaf addressed by `path` (as produced by mutvals.sites)"""
    for pth, kind, info in mutvals.sites(params, values):
        if tuple(pth) == tuple(path) and "dop" in info:
            return info["dop"]
    return None


def _strip_none(v):
    if isinstance(v, dict):
        return {k: _strip_none(x) for k, x in v.items() if x is not None}
    if isinstance(v, list):
        return [_strip_none(x) for x in v]
    return v


def _drop_unrepresentable(params, values):
    """content given to a multiplexer case that has no structure cannot be represented by anything in the PDU
    (section 9: ignoring it is not a misrepresentation): it is not compared"""
    if not isinstance(values, dict):
        return values
    out = dict(values)
    for p in params:
        v = out.get(p.get("name"))
        dop = p.get("dop")
        if v is None or not isinstance(dop, dict):
            continue
        k = dop["k"]
        if k == "struct":
            out[p["name"]] = _drop_unrepresentable(dop["params"], v)
        elif k in ("sfield", "dlfield", "eopf", "emfield") and isinstance(v, (list, tuple)):
            out[p["name"]] = [_drop_unrepresentable(dop["st"]["params"], it) for it in v]
        elif k == "mux" and isinstance(v, (list, tuple)) and len(v) == 2:
            spec, content = v
            sel = None
            if isinstance(spec, str):
                sel = next((c for c in dop["cases"] if c["name"] == spec), None)
                if sel is None and dop.get("default") and dop["default"]["name"] == spec:
                    sel = dop["default"]
            elif isinstance(spec, int) and not isinstance(spec, bool):
                sel = next((c for c in dop["cases"] if c["lo"] <= spec <= c["hi"]), None) or dop.get("default")
            if sel is not None:
                if sel.get("st") is None:
                    out[p["name"]] = [spec, None]
                else:
                    out[p["name"]] = [spec, _drop_unrepresentable(sel["st"]["params"], content)]
    return out


def judge(ld, case, values, res, cls, label) -> list:
    """apply the C04 oracle to one assignment"""
    from odxtools.exceptions import OdxError
    vals = mh.to_odx_value(values)
    with mh.quiet_warnings():
        try:
            if not isinstance(vals, dict):
                raise TypeError("top level values must be a dict")  # not an odxtools call (Python **kwargs)
            pdu = ld.encode(values)
            exc = None
        except OdxError as e:
            pdu, exc = None, e
        except Exception as e:
            if not isinstance(vals, dict):
                return []
            return [_fail("foreign-exception", f"{label}: encode raised {type(e).__name__}: {e}", case,
                          {"exc": mh.exc_key(e), "label": label})]
    if pdu is None:
        cls.add("outcome:rejected")
        return []
    cls.add("outcome:accepted")
    with mh.quiet_warnings():
        try:
            dec = ld.decode(pdu)
        except Exception as e:
            if type(e).__name__ == "DecodeMismatch" and "nrc" in (case.get("features") or []):
                # the VALUE parameter laid over an NRC-CONST was given a value that is not one of the NRC-CONST's
                # alternatives: the PDU is faithful, the *description* does not apply to it.  Whether the encoder
                # has to verify NRC-CONST alternatives is left open (TODO in nrcconstparameter.py): not asserted.
                cls.add("nrc-alternative-not-applicable")
                return []
            return [_fail("accepted-but-undecodable", f"{label}: encode returned {pdu.hex()} which does not decode: "
                                                       f"{type(e).__name__}: {e}", case, {"label": label})]
    want = _strip_none(mh.to_odx_value(_drop_unrepresentable(case["msg"]["params"], values)))
    mut = case.get("mutation") or {}
    if mut.get("kind") == "linear":
        # a LINEAR method with an integer internal type quantises: the admissible decoded values are the
        # images of the integer(s) nearest to the exact inverse (C07: "rounded to nearest")
        try:
            req = mutvals.get(values, tuple(mut["path"]))
            got = mutvals.get(dec, tuple(mut["path"]))
            dop = _dop_at(case["msg"]["params"], values, tuple(mut["path"]))
        except (KeyError, IndexError, TypeError):
            req = got = dop = None
        if dop is not None and isinstance(req, (int, float)) and math.isfinite(req) and dop["dct"]["bt"] in refcodec.INT_TYPES:
            c = dop["compu"]
            x = (Fraction(req) * c["d"] - c["n0"]) / c["n1"]
            fl = x.numerator // x.denominator
            cands = [fl] if x == fl else ([fl] if x - fl < Fraction(1, 2) else [fl + 1] if x - fl > Fraction(1, 2) else [fl, fl + 1])
            def _img_ok(i):
                try:
                    y = refcodec.i2p(dop, i)
                except refcodec.RefUnsupported:
                    # non-integral image on an integer physical type: the decoder rounds it
                    yf = (Fraction(c["n0"]) + Fraction(c["n1"]) * i) / c["d"]
                    return isinstance(got, (int, float)) and not isinstance(got, bool) and abs(Fraction(got) - yf) <= Fraction(1, 2)
                return mh.same_value(y, got) is None or (isinstance(got, (int, float)) and y == got)
            ok = any(_img_ok(i) for i in cands)
            if not ok:
                return [_fail("silent-misrepresentation", f"{label}: requested {req!r}, decoded {got!r}, admissible "
                              f"internal values {cands} (pdu {pdu.hex()})", case, {"label": label})]
            want = mutvals.put(want, tuple(mut["path"]), mutvals.DELETE)
        elif dop is not None and isinstance(req, (int, float)) and math.isfinite(req) and dop["dct"]["bt"] in refcodec.FLOAT_TYPES \
                and isinstance(got, (int, float)) and not isinstance(got, bool):
            # float-coded LINEAR: any number (True is the number 1) is converted; equal up to binary32 precision
            if not math.isclose(float(got), float(req), rel_tol=1e-6, abs_tol=1e-6):
                return [_fail("silent-misrepresentation", f"{label}: requested {req!r}, decoded {got!r} (pdu {pdu.hex()})",
                              case, {"label": label})]
            want = mutvals.put(want, tuple(mut["path"]), mutvals.DELETE)
    d = supplied_vs_decoded(want, dec)
    if d:
        return [_fail("silent-misrepresentation", f"{label}: accepted, PDU {pdu.hex()} decodes to something else: {d}",
                      case, {"label": label})]
    return []


# ---------------------------------------------------------------------------
# exhaustive integer sweep
# ---------------------------------------------------------------------------
def sweep_points(max_bits):
    pts = []
    for bl in range(1, max_bits + 1):
        pts.append(("A_UINT32", None, bl))
        if bl % 4 == 0:
            pts.append(("A_UINT32", "BCD-P", bl))
        if bl % 8 == 0:
            pts.append(("A_UINT32", "BCD-UP", bl))
        pts.append(("A_INT32", None, bl))
        if bl >= 2:
            pts.append(("A_INT32", "2C", bl))
            pts.append(("A_INT32", "1C", bl))
            pts.append(("A_INT32", "SM", bl))
    return pts


def leaf_case(bt, enc, bl, hl, bit, value):
    msg = {"kind": "request", "params": [
        {"pk": "value", "name": "x", "pos": 0, "bit": bit,
         "dop": {"k": "simple", "id": "d1", "dct": {"t": "std", "bt": bt, "bl": bl, "enc": enc, "hl": hl},
                 "compu": {"c": "IDENTICAL"}, "pt": bt}, "default": None}]}
    return {"stage": "sweep", "msg": msg, "values": {"x": value}, "request": None}


def run_sweep(spec, seed, tier) -> core.ShardResult:
    _, part, nparts = spec
    res = core.ShardResult()
    kf = known.load(PROPERTY)
    maxb = 8 if tier == "quick" else 12
    pts = sweep_points(maxb)
    wide = [(bt, enc, bl) for bl in (16, 24, 31, 32, 33, 48, 63, 64) for (bt, enc) in
            (("A_UINT32", None), ("A_UINT32", "BCD-P"), ("A_UINT32", "BCD-UP"), ("A_INT32", None), ("A_INT32", "2C"),
             ("A_INT32", "1C"), ("A_INT32", "SM")) if not (enc == "BCD-P" and bl % 4) and not (enc == "BCD-UP" and bl % 8)]
    todo = [(p, True) for p in pts] + [(p, False) for p in wide]
    for idx, ((bt, enc, bl), full) in enumerate(todo):
        if idx % nparts != part:
            continue
        lo, hi = refcodec.int_range(bt, enc, bl)
        if full:
            vals = range(lo - (1 << bl), hi + (1 << bl) + 1)
        else:
            n = bl
            vals = sorted({lo - 2, lo - 1, lo, lo + 1, hi - 1, hi, hi + 1, hi + 2, (1 << (n - 1)), -(1 << (n - 1)),
                           (1 << (n - 1)) - 1, -(1 << (n - 1)) - 1, 1 << n, -(1 << n), (1 << n) - 1, 1 << 64, -(1 << 64),
                           (1 << 64) - 1, 10 ** (n // 4), 10 ** (n // 8)})
        for hl, bit in ((True, 0), (False, 3)):
            base = leaf_case(bt, enc, bl, hl, bit, 0)
            ld = mh.Loaded(base)
            for v in vals:
                case = leaf_case(bt, enc, bl, hl, bit, v)
                cls = {"sweep:" + bt + (":" + (enc or "2C") if bt == "A_INT32" else "")}
                if enc in ("BCD-P", "BCD-UP"):
                    cls.add("sweep:BCD")
                fs = judge(ld, case, case["values"], res, cls, f"{bt}/{enc}/{bl} bits")
                nt = not (lo <= v <= hi)
                res.note({"bt": bt, "enc": enc, "bl": bl, "hl": hl, "bit": bit, "v": v}, nt, cls,
                         sample=(nt and v % 37 == 0))
                for f in fs:
                    f.features["bucket"] = f"{f.clause}:{bt}:{enc}"
                    f.features.update({"bt": bt, "enc": enc, "bl": bl, "v": v, "lo": lo, "hi": hi})
                    _collect(res, f, kf)
    res.stages["sweep"] = res.evaluations
    res.exhaustive_subspaces.append(
        f"one-leaf integer requests: every base type/encoding, bit length 1..{maxb}, byte orders/bit positions "
        f"(high-low@0, low-high@3) x every integer in [min-2^n, max+2^n]")
    return res


def run_minmax_sweep(spec, seed, tier) -> core.ShardResult:
    """exhaustive: MIN-MAX-LENGTH leaves of every string/byte type, byte order and termination followed by one
    byte, x all values of up to 3 code units over {terminator unit, units sharing one byte with it, plain unit}"""
    import itertools
    _, part, nparts = spec
    res = core.ShardResult()
    kf = known.load(PROPERTY)
    u8 = {"t": "std", "bt": "A_UINT32", "bl": 8, "enc": None, "hl": None}
    idx = 0
    for bt in ("A_BYTEFIELD", "A_ASCIISTRING", "A_UTF8STRING", "A_UNICODE2STRING"):
        for hl in (True, False):
            for term in ("ZERO", "HEX-FF"):
                for mn in (0, 1):
                    for mx in (None, 3):
                        idx += 1
                        if idx % nparts != part:
                            continue
                        unit = 2 if bt == "A_UNICODE2STRING" else 1
                        tb = 0x00 if term == "ZERO" else 0xFF
                        if bt == "A_BYTEFIELD":
                            alpha = [bytes([tb]), b"\x41", bytes([tb ^ 0x01]), b"\x7f"]
                        elif bt == "A_UNICODE2STRING":
                            alpha = [chr(tb << 8 | tb), chr(0x4100 | tb), chr(tb << 8 | 0x41), "\u4141"]
                        else:
                            alpha = [chr(tb), "A", chr(tb ^ 0x01), "z"]
                        dct = {"t": "minmax", "bt": bt, "min": mn * unit, "max": None if mx is None else mx * unit,
                               "term": term, "enc": None, "hl": hl}
                        pt = "A_BYTEFIELD" if bt == "A_BYTEFIELD" else "A_UNICODE2STRING"
                        msg = {"kind": "request", "params": [
                            {"pk": "value", "name": "s", "pos": 0, "bit": 0, "default": None,
                             "dop": {"k": "simple", "id": "d1", "dct": dct, "compu": {"c": "IDENTICAL"}, "pt": pt}},
                            {"pk": "value", "name": "z", "pos": None, "bit": 0, "default": None,
                             "dop": {"k": "simple", "id": "d2", "dct": dict(u8), "compu": {"c": "IDENTICAL"}, "pt": "A_UINT32"}}]}
                        ld = mh.Loaded({"msg": msg, "values": {}, "request": None})
                        for n in range(0, 4):
                            for combo in itertools.product(alpha, repeat=n):
                                v = b"".join(combo) if bt == "A_BYTEFIELD" else "".join(combo)
                                case = {"stage": "sweep", "msg": msg, "values": {"s": v, "z": 0x5A}, "request": None}
                                cls = {"minmax-sweep", "minmax-sweep:" + bt}
                                fs = judge(ld, case, case["values"], res, cls, f"minmax {bt}/{term}/hl={hl}")
                                has_term = any(c == alpha[0] for c in combo)
                                res.note({"bt": bt, "hl": hl, "term": term, "min": mn, "max": mx, "v": v}, has_term or n > (mx or 9),
                                         cls, sample=(has_term and len(res.samples) < 4))
                                for f in fs:
                                    f.features["bucket"] = f"{f.clause}:minmax:{bt}"
                                    _collect(res, f, kf)
    res.stages["minmax-sweep"] = res.evaluations
    res.exhaustive_subspaces.append("MIN-MAX-LENGTH leaves: 4 base types x byte order x ZERO/HEX-FF x MIN 0/1 x MAX none/3 x every "
                                    "value of <= 3 code units over a 4-letter alphabet around the terminator")
    return res


def _collect(res, f, kf):
    k = known.match(kf, f)
    if k is not None:
        res.known_hits[k["id"]] += 1
        return
    for i, g in enumerate(res.failures):
        if g.bucket() == f.bucket():
            if len(core.canon(f.case)) < len(core.canon(g.case)):
                res.failures[i] = f
            return
    res.failures.append(f)


# ---------------------------------------------------------------------------
# mutated assignments on generated descriptions
# ---------------------------------------------------------------------------
def mutated_case():
    from hypothesis import strategies as st

    @st.composite
    def s(draw):
        focus = draw(st.sampled_from([None, None, None, "sfield", "dlfield", "mux", "eopf", "emfield"]))
        base = draw(gen.message_case(opts={"focus": focus}))
        if draw(st.integers(0, 99)) < 12:
            # the unmodified valid assignment: it is accepted, so the PDU must say what was asked for
            return {"msg": base["msg"], "values": base["values"], "request": base["request"], "features": base["features"],
                    "mutation": {"path": [], "kind": "none", "label": "valid-assignment"}}
        allsites = list(mutvals.sites(base["msg"]["params"], base["values"]))
        mrs = [p for p in base["msg"]["params"] if p["pk"] == "matchreq"]
        if mrs and base.get("request") is not None and draw(st.integers(0, 9)) < 3:
            # the triggering request is an input of a response's encoder too: one that ends before or inside
            # the range a MATCHING-REQUEST-PARAM echoes cannot be represented
            rq = bytes(base["request"])
            need = max(p["rpos"] + p["n"] for p in mrs)
            cut = draw(st.integers(0, max(0, need - 1)))
            label = "request-too-short:" + ("inside" if any(p["rpos"] < cut < p["rpos"] + p["n"] for p in mrs) else "before")
            return {"msg": base["msg"], "values": base["values"], "request": rq[:cut], "features": base["features"],
                    "mutation": {"path": [], "kind": "request", "label": label}}
        # prefer leaf sites over the (always present) top-level struct site
        idx = draw(st.integers(0, len(allsites) - 1))
        consts = [i for i, (_, k_, inf) in enumerate(allsites) if k_ == "nonsettable" and inf["p"]["pk"] in ("const", "physconst")]
        if consts and draw(st.integers(0, 9)) < 2:
            idx = consts[draw(st.integers(0, len(consts) - 1))]
        path, kind, info = allsites[idx]
        if kind in ("nonsettable", "tablekey"):
            cur = None
        else:
            cur = mutvals.get(base["values"], path) if path else base["values"]
        new, label = mutvals.mutation(draw, kind, info, cur)
        if kind in ("nonsettable", "tablekey"):
            parent = path[:-1]
            pv = mutvals.get(base["values"], parent) if parent else base["values"]
            pv2 = dict(pv)
            pv2[path[-1]] = new
            vals = mutvals.put(base["values"], parent, pv2) if parent else pv2
        else:
            vals = mutvals.put(base["values"], path, new)
        return {"msg": base["msg"], "values": vals, "request": base["request"], "features": base["features"],
                "mutation": {"path": list(path), "kind": kind, "label": label}}
    return s()


def overflow_case():
    """values that do not fit the fixed room their description gives them: items of a STATIC-FIELD larger than
    ITEM-BYTE-SIZE, content of a structure larger than its BYTE-SIZE (the leaf itself would accept the value)"""
    from hypothesis import strategies as st
    u8 = {"t": "std", "bt": "A_UINT32", "bl": 8, "enc": None, "hl": None}

    @st.composite
    def s(draw):
        kind = draw(st.sampled_from(["leading", "minmax", "paramlen"]))
        room = draw(st.integers(1, 3))
        if kind == "leading":
            dct = {"t": "leading", "bt": "A_BYTEFIELD", "bl": 8, "enc": None, "hl": None}
            over = 1
        elif kind == "minmax":
            dct = {"t": "minmax", "bt": "A_BYTEFIELD", "min": 0, "max": None, "term": draw(st.sampled_from(["ZERO", "HEX-FF"])),
                   "enc": None, "hl": None}
            over = 1
        else:
            dct = {"t": "leading", "bt": "A_ASCIISTRING", "bl": 8, "enc": None, "hl": None}
            over = 1
        pt = "A_BYTEFIELD" if dct["bt"] == "A_BYTEFIELD" else "A_UNICODE2STRING"
        leaf = {"k": "simple", "id": "dleaf", "dct": dct, "compu": {"c": "IDENTICAL"}, "pt": pt}
        lead = {"k": "simple", "id": "dlead", "dct": dict(u8), "compu": {"c": "IDENTICAL"}, "pt": "A_UINT32"}
        item = {"k": "struct", "id": "sitem", "bs": None, "params": [
            {"pk": "value", "name": "a", "pos": 0, "bit": 0, "dop": lead, "default": None},
            {"pk": "value", "name": "b", "pos": None, "bit": 0, "dop": leaf, "default": None}]}
        size = 1 + over + room

        def val(n):
            if pt == "A_BYTEFIELD":
                return bytes((i % 200) + 1 for i in range(n))      # neither 0x00 nor 0xFF inside
            return "ABCDEFGHIJ"[:n]
        container = draw(st.sampled_from(["sfield", "byte-size"]))
        nitems = draw(st.integers(1, 3))
        lens = [draw(st.integers(0, room)) for _ in range(nitems)]
        k = draw(st.integers(0, nitems - 1))
        lens[k] = room + draw(st.integers(1, 4))        # the one that does not fit
        tail = draw(st.booleans())
        if container == "sfield":
            dop = {"k": "sfield", "id": "sf", "st": item, "n": nitems, "isz": size}
            value = [{"a": 7 + i, "b": val(n)} for i, n in enumerate(lens)]
        else:
            dop = dict(item, bs=size)
            value = {"a": 7, "b": val(lens[k])}
        params = [{"pk": "const", "name": "sid", "pos": 0, "bit": 0, "dct": dict(u8), "v": 0x2E},
                  {"pk": "value", "name": "f", "pos": 1, "bit": 0, "dop": dop, "default": None}]
        values = {"f": value}
        if tail:
            params.append({"pk": "value", "name": "t", "pos": None, "bit": 0, "dop": dict(lead, id="dtail"), "default": None})
            values["t"] = 0x77
        return {"msg": {"kind": "request", "params": params}, "values": values, "request": None,
                "features": ["overflow", container, "dct:" + dct["t"]],
                "mutation": {"path": ["f"], "kind": "overflow", "label": f"does-not-fit:{container}:{kind}"}}
    return s()


def eval_case(case, res: core.ShardResult | None = None) -> list:
    case = mh.norm_case(case)
    if case.get("stage") == "sweep":
        ld = mh.Loaded(case)
        return judge(ld, case, case["values"], None, set(), "replay")
    mut = case.get("mutation", {})
    label = mut.get("label", "?")
    try:
        ld = mh.Loaded(case)
    except Exception as e:
        raise core.Inconclusive(f"in-envelope description rejected by the loader: {type(e).__name__}: {e}")
    cls = set()
    lab0 = label.split(":")[0]
    cls.add("mut:" + lab0)
    for grp in ("does-not-fit", "mux", "bytes", "str", "list", "sfield", "struct", "tablekey", "tstruct", "request-too-short", "const-near-miss"):
        if lab0.startswith(grp):
            cls.add("mut:" + grp)
    if "wrong-type" in label or lab0 in ("linear", "float", "text"):
        cls.add("mut:wrong-type")
    if mut.get("kind") == "nonsettable" and not label.startswith("const-near-miss"):
        # only the exception type is judged
        fs = judge(ld, case, case["values"], res, cls, label)
        fs = [f for f in fs if f.clause == "foreign-exception"]
    else:
        fs = judge(ld, case, case["values"], res, cls, label)
    if res is not None:
        res.note({"msg": case["msg"], "values": case["values"], "mutation": mut},
                 label not in ("bytes-bytearray",), cls,
                 dig={"m": case["msg"], "v": repr(case["values"]), "l": label})
    return fs


def replay(case) -> list:
    return eval_case(case)


def shards(tier):
    return [("sweep", i, 6) for i in range(6)] + [("minmax", i, 2) for i in range(2)] + [("hyp", i) for i in range(8)] + \
        [("overflow", 0)]


def run_shard(spec, seed, tier):
    if spec[0] == "sweep":
        return run_sweep(spec, seed, tier)
    if spec[0] == "minmax":
        return run_minmax_sweep(spec, seed, tier)
    res = core.ShardResult()
    kf = known.load(PROPERTY)

    def body(case):
        out = []
        for f in eval_case(case, res):
            k = known.match(kf, f)
            if k is not None:
                res.known_hits[k["id"]] += 1
            else:
                out.append(f)
        return out
    if spec[0] == "overflow":
        n = 400 if tier == "quick" else 5000
        found = core.hyp_search(overflow_case(), body, seed, n, shrink_budget_s=30)
        if found:
            res.failures.extend(found)
        res.stages["overflow"] = n
        return res
    n = 1000 if tier == "quick" else 20000
    found = core.hyp_search(mutated_case(), body, seed, n, shrink_budget_s=30)
    if found:
        res.failures.extend(found)
    res.stages["hypothesis"] = n
    return res
