"""C12 — ISO-TP reassembly returns exactly the transmitted telegrams.

Domain: 1..3 monitored CAN ids, each sending 1..4 telegrams segmented by the reference
segmenter (vlib/models/isotp.py: classic 8-byte frames and the CAN-FD sizes, padding of any
value or none), merged in an arbitrary order that preserves the per-id order, with
flow-control frames on monitored ids and arbitrary frames on unrelated ids inserted anywhere.

Interfaces: IsoTpStateMachine.decode_rx_frame, IsoTpStateMachine.read_telegrams on the same
frames rendered as candump text (three accepted formats, io.StringIO, asyncio.run), and
IsoTpActiveDecoder.decode_rx_frame with a fake bus that records send().

Oracle: per id the reported payloads equal the transmitted telegrams (order, multiplicity,
bytes); text and frame interface report the same list; the active decoder sends exactly one
clear-to-send flow-control frame on the matching tx id while it processes a first frame.
"""
from __future__ import annotations

import asyncio
import contextlib
import io
import itertools
import random

from vlib import core
from vlib.models import isotp as M

PROPERTY = "C12"
RULE = ("one case = one well-formed multi-id CAN frame stream (reference segmenter, merge order, extra "
        "flow-control/unrelated frames, text rendering options) evaluated through decode_rx_frame, "
        "read_telegrams and the active decoder; non-trivial = the stream contains a multi-frame telegram and "
        "(frames of >=2 monitored ids interleave inside a transfer, or a telegram length within 1 of a "
        "segment boundary, or a sequence-number wrap, or a padded frame); distinct = digest of the case")
ASSUMPTIONS = [
    "the reference segmenter (vlib/models/isotp.py) is a correct reading of ISO 15765-2 normal addressing: "
    "SF for <=7 bytes (<= TX_DL-2 with the length escape for CAN-FD frames > 8 bytes), otherwise FF with 12-bit "
    "length and CFs with SN 1..15,0,..; telegram lengths 1..4095 only (32-bit FF escape is outside the property)",
    "flow-control frames (PCI 0x30..0x32) may appear on a monitored id at any point without affecting reassembly",
    "monitored ids are pairwise distinct; active-decoder tx ids are 11-bit ids disjoint from the rx ids",
    "candump renderings: `<iface> <id> [n] b0 b1 ..`, `(ts) <iface> <id>#<hex>`, `(ts) <iface> <id>##<flag><hex>`; "
    "only these are generated, a zero-length frame (only ever generated on an unrelated id) has no accepted rendering",
    "a flow-control frame sent by the active decoder while it processes a single frame is not judged "
    "(the property only demands one per first frame); block-size handling after 255 consecutive frames is not judged",
]
MUST_HIT = ["single-frame", "multi-frame", "sn-wrap", "padding", "pad-none", "fd", "fd-sf-escape", "ids:1",
            "ids:2", "ids:3", "interleaved", "extra-fc", "extra-unrelated", "fmt:candump", "fmt:log",
            "fmt:fdlog", "boundary-length", "ext-id", "payload-ends-with-pad", "active-fc-checked"]

ID_POOL = [0x7E0, 0x7E8, 0x123, 0x001, 0x7FF, 0x18DA10F1, 0x18DAF110, 0x1FFFFFFF, 0x000, 0x6A5]
UNRELATED_POOL = [0x7DF, 0x100, 0x18DB33F1, 0x7E1, 0x002]
TX_POOL = [0x701, 0x702, 0x703, 0x704, 0x705, 0x706]
IFACES = ["vcan0", "can0", "slcan0", "can-fd_1"]


# ---------------------------------------------------------------------------
# drivers (the only places that call into odxtools)
# ---------------------------------------------------------------------------
def _ism():
    import odxtools.isotp_state_machine as ism
    return ism


class FakeBus:
    """records what IsoTpActiveDecoder sends"""

    def __init__(self):
        self.sent = []

    def send(self, msg, timeout=None):
        self.sent.append((int(msg.arbitration_id), bytes(msg.data)))


def drive_frames(sm, frames, bus: FakeBus | None = None):
    """feed (id, data) frames; result per frame: ("ok", [(id, bytes)], sends) | ("exc", exception, sends)"""
    out = []
    for can_id, data in frames:
        n0 = len(bus.sent) if bus is not None else 0
        try:
            got = [(int(i), bytes(p)) for (i, p) in sm.decode_rx_frame(can_id, bytes(data))]
            out.append(("ok", got, bus.sent[n0:] if bus is not None else []))
        except Exception as e:  # classified by the oracle
            out.append(("exc", e, bus.sent[n0:] if bus is not None else []))
    return out


class _CountingIO(io.StringIO):
    def __init__(self, text):
        super().__init__(text)
        self.nread = 0

    def readline(self, *a):
        ln = super().readline(*a)
        if ln != "":
            self.nread += 1
        return ln


def drive_text(sm, lines, final_newline=True):
    """feed candump lines through read_telegrams(io.StringIO); result per line like drive_frames.
    After an exception the reader is restarted on the rest of the same stream (same state machine)."""
    text = "\n".join(lines) + ("\n" if final_newline and lines else "")
    bus = _CountingIO(text)
    results = [("ok", [], []) for _ in lines]

    async def run():
        while True:
            before = bus.nread
            agen = sm.read_telegrams(bus)
            try:
                async for (i, p) in agen:
                    results[bus.nread - 1][1].append((int(i), bytes(p)))
                return
            except Exception as e:  # classified by the oracle
                idx = max(bus.nread - 1, 0)
                if results:
                    results[idx] = ("exc", e, [])
                if bus.nread == before or not results:
                    return  # no progress: do not loop for ever
            finally:
                await agen.aclose()

    err = io.StringIO()
    with contextlib.redirect_stderr(err):
        asyncio.run(run())
    return results, err.getvalue().count("unrecognized frame format")


# ---------------------------------------------------------------------------
# case -> frames
# ---------------------------------------------------------------------------
def is_boundary(n: int, tx_dl: int) -> bool:
    cap = M.sf_capacity(tx_dl)
    if abs(n - cap) <= 1 or n in (1, 7, 8, 4094, 4095):
        return True
    if n > cap:
        r = (n - (tx_dl - 2)) % (tx_dl - 1)
        return r in (0, 1, tx_dl - 2)
    return False


class Built:
    pass


def build(case) -> Built:
    b = Built()
    streams = case["streams"]
    ids = [s["id"] for s in streams]
    if len(set(ids)) != len(ids):
        raise ValueError("monitored ids must be distinct")
    classes = set()
    queues = []
    b.expect = {i: [] for i in ids}
    b.expect_adjusted = {i: [] for i in ids}    # what a decoder without the CAN-FD SF escape reports
    multi = wrap = padded = boundary = False
    for k, s in enumerate(streams):
        q = []
        pad = s.get("pad")
        for t, spec in enumerate(s["telegrams"]):
            payload = M.payload_from_spec(spec)
            frs = M.segment(payload, s["tx_dl"], pad, bool(s.get("full")))
            b.expect[s["id"]].append(payload)
            esc = len(frs) == 1 and M.is_fd_escape_sf(frs[0])
            b.expect_adjusted[s["id"]].append(b"" if esc else payload)
            if esc:
                classes.add("fd-sf-escape")
            if len(frs) == 1:
                classes.add("single-frame")
            else:
                multi = True
                classes.add("multi-frame")
                if len(frs) > 16:
                    wrap = True
                    classes.add("sn-wrap")
            if s["tx_dl"] > 8:
                classes.add("fd")
            if len(frs) == 1:
                natural = (2 if esc else 1) + len(payload)
            else:
                natural = 1 + len(payload) - (s["tx_dl"] - 2) - (len(frs) - 2) * (s["tx_dl"] - 1)
            if len(frs[-1]) > natural:
                padded = True
                classes.add("padding")
                if payload[-1] == frs[-1][-1]:
                    classes.add("payload-ends-with-pad")
            if pad is None and s["tx_dl"] == 8:
                classes.add("pad-none")
            if is_boundary(len(payload), s["tx_dl"]):
                boundary = True
                classes.add("boundary-length")
            if len(payload) >= 4094:
                classes.add("len>=4094")
            for fi, fr in enumerate(frs):
                q.append((s["id"], fr, (k, t, fi, len(frs))))
        queues.append(q)
        if s["id"] > 0x7FF:
            classes.add("ext-id")
    classes.add(f"ids:{len(ids)}")

    pos = [0] * len(queues)
    seq = []
    order = case.get("order") or []
    for item in order:
        if isinstance(item, int):
            if 0 <= item < len(queues) and pos[item] < len(queues[item]):
                seq.append(queues[item][pos[item]])
                pos[item] += 1
        else:
            _, xid, hx = item
            data = bytes.fromhex(hx)
            if xid in ids:
                if M.frame_kind(data) != M.FC:
                    raise ValueError("extra frames on monitored ids must be flow-control frames")
                classes.add("extra-fc")
            else:
                classes.add("extra-unrelated")
            seq.append((xid, data, None))
    # whatever the order did not consume follows round-robin
    while any(pos[k] < len(queues[k]) for k in range(len(queues))):
        for k in range(len(queues)):
            if pos[k] < len(queues[k]):
                seq.append(queues[k][pos[k]])
                pos[k] += 1
    # interleaving: a frame of another monitored id between the first and the last frame of a transfer
    open_tr = set()
    inter = False
    for (cid, data, tag) in seq:
        if tag is None:
            continue
        k, t, fi, nf = tag
        if any(o != k for o in open_tr):
            inter = True
        if nf > 1 and fi < nf - 1:
            open_tr.add(k)
        else:
            open_tr.discard(k)
    if inter:
        classes.add("interleaved")
    b.frames = [(cid, data) for (cid, data, _) in seq]
    b.tags = [tag for (_, _, tag) in seq]
    b.ids = ids
    b.classes = classes
    b.nontrivial = multi and ((inter and len(ids) >= 2) or boundary or wrap or padded)
    return b


def render(case, b: Built):
    topt = case.get("text") or {}
    fmts = topt.get("fmts") or ["candump"]
    lines = []
    used = set()
    for i, (cid, data) in enumerate(b.frames):
        fmt = M.admissible_format(fmts[i % len(fmts)], data)
        used.add(fmt)
        lines.append(M.render_line(fmt, cid, data, iface=topt.get("iface", "vcan0"),
                                   ts=topt.get("ts", "0.000000"), upper=topt.get("upper", True),
                                   gap=topt.get("gap", 2), flags=topt.get("flags", 1)))
    return lines, used


# ---------------------------------------------------------------------------
# oracle
# ---------------------------------------------------------------------------
def _per_id(results, ids):
    got = {i: [] for i in ids}
    stray = []
    for r in results:
        if r[0] != "ok":
            continue
        for (i, p) in r[1]:
            if i in got:
                got[i].append(p)
            else:
                stray.append((i, p))
    return got, stray


def _describe(got, exp):
    for i in exp:
        if got[i] != exp[i]:
            g, e = got[i], exp[i]
            if len(g) < len(e):
                kind = "missing"
            elif len(g) > len(e):
                kind = "extra"
            else:
                j = next(k for k in range(len(e)) if g[k] != e[k])
                kind = "wrong-length" if len(g[j]) != len(e[j]) else "wrong-bytes"
            return kind, (f"id 0x{i:X}: reported {[x.hex() if len(x) < 40 else f'<{len(x)} bytes>' for x in g][:6]} "
                          f"transmitted {[x.hex() if len(x) < 40 else f'<{len(x)} bytes>' for x in e][:6]}")
    return None, ""


def _judge_iface(iface, results, b: Built, case) -> list:
    fails = []
    for idx, r in enumerate(results):
        if r[0] == "exc":
            e = r[1]
            fails.append(core.Failure(
                "no-exception", f"{iface}: frame {idx} {b.frames[idx][1].hex()} raised {type(e).__name__}: {e}",
                case, {"bucket": f"exception:{type(e).__name__}", "iface": iface}))
            return fails
    got, stray = _per_id(results, b.ids)
    if stray:
        fails.append(core.Failure("telegrams", f"{iface}: telegram reported for an id that is not monitored: {stray[:3]}",
                                  case, {"bucket": "unmonitored-id", "iface": iface}))
        return fails
    if got != b.expect:
        if "fd-sf-escape" in b.classes and got == b.expect_adjusted:
            kind, d = _describe(got, b.expect)
            fails.append(core.Failure("telegrams", f"{iface}: CAN-FD single frame with length escape reported as empty telegram; {d}",
                                      case, {"bucket": "fd-sf-escape", "iface": iface}))
        else:
            kind, d = _describe(got, b.expect)
            fails.append(core.Failure("telegrams", f"{iface}: {d}", case, {"bucket": f"mismatch:{kind}", "iface": iface}))
    return fails


def evaluate(case):
    """-> (failures, classes, nontrivial)"""
    ism = _ism()
    b = build(case)
    classes = set(b.classes)
    fails = []
    ids = b.ids

    # 1. frame interface
    r1 = drive_frames(ism.IsoTpStateMachine(list(ids)), b.frames)
    fails += _judge_iface("frames", r1, b, case)

    # 2. candump text
    lines, used = render(case, b)
    for f in used:
        classes.add(f"fmt:{f}")
    r2, _warn = drive_text(ism.IsoTpStateMachine(list(ids)), lines,
                           final_newline=(case.get("text") or {}).get("final_newline", True))
    f2 = _judge_iface("text", r2, b, case)
    fails += f2
    flat1 = [t for r in r1 if r[0] == "ok" for t in r[1]]
    flat2 = [t for r in r2 if r[0] == "ok" for t in r[1]]
    if flat1 != flat2 and not f2 and not any(r[0] == "exc" for r in r1):
        fails.append(core.Failure("text-agrees", "read_telegrams and decode_rx_frame report different telegram lists",
                                  case, {"bucket": "text-differs"}))

    # 3. active decoder
    aopt = case.get("active") or {}
    tx_ids = aopt.get("tx_ids") or [t for t in TX_POOL if t not in ids][:len(ids)]
    bus = FakeBus()
    try:
        dec = ism.IsoTpActiveDecoder(bus, list(ids), list(tx_ids), padding_size=aopt.get("padding_size", 0),
                                     padding_value=aopt.get("padding_value", 0xAA))
    except Exception as e:
        fails.append(core.Failure("no-exception", f"active: constructor raised {type(e).__name__}: {e}", case,
                                  {"bucket": f"exception:ctor:{type(e).__name__}", "iface": "active"}))
        return fails, classes, b.nontrivial
    r3 = drive_frames(dec, b.frames, bus)
    f3 = _judge_iface("active", r3, b, case)
    fails += f3
    if not any(r[0] == "exc" for r in r3):
        for idx, (r, tag) in enumerate(zip(r3, b.tags)):
            sends = r[2]
            if tag is None:
                continue
            k, t, fi, nf = tag
            if nf > 1 and fi == 0:
                classes.add("active-fc-checked")
                want = tx_ids[k]
                ok = (len(sends) == 1 and sends[0][0] == want and len(sends[0][1]) >= 3 and sends[0][1][0] == 0x30)
                if not ok:
                    fails.append(core.Failure(
                        "active-flow-control",
                        f"first frame {idx} on 0x{b.frames[idx][0]:X}: expected one clear-to-send flow control (30 ..) on "
                        f"0x{want:X}, decoder sent {[(hex(i), d.hex()) for i, d in sends]}", case,
                        {"bucket": "fc-per-first-frame", "iface": "active"}))
                    break
            elif nf == 1 and sends:
                classes.add("active-fc-on-single-frame(not judged)")
    return fails, classes, b.nontrivial


def replay(case) -> list:
    fails, _, _ = evaluate(core.unjson(case))
    return fails


# ---------------------------------------------------------------------------
# generators
# ---------------------------------------------------------------------------
def boundaries(tx_dl: int) -> list:
    cap = M.sf_capacity(tx_dl)
    out = {1, 2, 6, 7, 8, cap - 1, cap, cap + 1, tx_dl - 1, tx_dl, 4094, 4095}
    for k in list(range(0, 6)) + [14, 15, 16, 17, 31, 32]:
        base = (tx_dl - 2) + (tx_dl - 1) * k
        out |= {base - 1, base, base + 1}
    return sorted(x for x in out if 1 <= x <= 4095)


PCI_LIKE = bytes([0x00, 0x10, 0x21, 0x30, 0xAA, 0xCC, 0xFF, 0x02, 0x22, 0x2F, 0x20, 0x3F])


def _strategies():
    from hypothesis import strategies as st

    byte = st.one_of(st.sampled_from(list(PCI_LIKE[:8])), st.integers(0, 255))
    lengths = {}
    for tx_dl in M.TX_DLS:
        bnd = boundaries(tx_dl)
        near = [x for x in bnd if x <= (tx_dl - 2) + (tx_dl - 1) * 6 + 1]
        lengths[tx_dl] = st.one_of(st.sampled_from(near), st.sampled_from(near), st.sampled_from(near),
                                   st.sampled_from(bnd), st.integers(1, 4 * tx_dl), st.integers(1, 4 * tx_dl),
                                   st.integers(1, 4 * tx_dl), st.integers(1, 400),
                                   st.one_of(st.integers(1, 400), st.integers(1, 4095)))

    @st.composite
    def payload(draw, tx_dl, pad):
        n = draw(lengths[tx_dl])
        padval = M.FD_DEFAULT_PAD if pad is None else pad
        padhex = f"{padval:02x}"
        if n <= 24:
            body = bytearray(draw(st.binary(min_size=n, max_size=n)))
            flavour = draw(st.integers(0, 5))
            if flavour == 0:
                body[-1] = padval
            elif flavour == 1:
                body = bytearray(PCI_LIKE[(body[0] + i) % len(PCI_LIKE)] for i in range(n))
            elif flavour == 2:
                body = bytearray([padval]) * n
            return ["hex", bytes(body).hex()]
        tail = draw(st.sampled_from(["", "", padhex * 3, padhex, "00", "2130"]))
        return ["pat", n, draw(st.integers(0, 255)), draw(st.sampled_from([1, 1, 3, 7, 0, 255])), tail]

    @st.composite
    def case(draw):
        nids = draw(st.sampled_from([1, 2, 2, 3, 3]))
        ids = draw(st.lists(st.sampled_from(ID_POOL), min_size=nids, max_size=nids, unique=True))
        streams = []
        for cid in ids:
            tx_dl = draw(st.sampled_from([8, 8, 8, 8, 12, 16, 20, 24, 32, 48, 64, 64]))
            pad = draw(st.one_of(st.sampled_from([None, None, 0x00, 0xAA, 0xCC, 0x55, 0xFF]), st.integers(0, 255)))
            full = draw(st.booleans())
            nt = draw(st.integers(1, 4))
            streams.append({"id": cid, "tx_dl": tx_dl, "pad": pad, "full": full,
                            "telegrams": [draw(payload(tx_dl, pad)) for _ in range(nt)]})
        bursts = draw(st.lists(st.integers(0, 4 * nids - 1), max_size=40))
        order = []
        for v in bursts:
            order += [v // 4] * (1 + v % 4)
        unrelated = [u for u in UNRELATED_POOL if u not in ids]
        fc = st.builds(lambda cid, flag, bs, stm, p: ["x", cid, M.flow_control(flag, bs, stm, p).hex()],
                       st.sampled_from(ids), st.sampled_from([0, 0, 1, 2]), st.sampled_from([0, 8, 255]),
                       st.sampled_from([0, 10, 127]), st.sampled_from([None, 0x00, 0xAA]))
        other = st.builds(lambda cid, d: ["x", cid, bytes(d).hex()], st.sampled_from(unrelated),
                          st.lists(byte, min_size=0, max_size=12))
        extras = draw(st.lists(st.tuples(st.integers(0, 10_000), st.one_of(fc, other)), max_size=5))
        for posn, x in extras:
            order.insert(posn % (len(order) + 1), x)
        text = {"iface": draw(st.sampled_from(IFACES)),
                "fmts": draw(st.lists(st.sampled_from(M.FORMATS), min_size=1, max_size=4)),
                "upper": draw(st.booleans()), "gap": draw(st.integers(1, 4)),
                "ts": draw(st.sampled_from(["0.000000", "1700000000.123456", "12.5"])),
                "flags": draw(st.integers(0, 15)), "final_newline": draw(st.booleans())}
        tx_ids = [t for t in TX_POOL if t not in ids][:nids]
        active = {"padding_size": draw(st.sampled_from([0, 8, 8])), "padding_value": draw(st.sampled_from([0xAA, 0x00, 0x55])),
                  "tx_ids": tx_ids}
        return {"streams": streams, "order": order, "text": text, "active": active}

    return case()


# ---------------------------------------------------------------------------
# enumerations
# ---------------------------------------------------------------------------
def multiset_permutations(counts):
    """all distinct sequences over symbols 0..len(counts)-1 with the given multiplicities"""
    counts = list(counts)
    total = sum(counts)
    seq = []

    def rec():
        if len(seq) == total:
            yield list(seq)
            return
        for s in range(len(counts)):
            if counts[s]:
                counts[s] -= 1
                seq.append(s)
                yield from rec()
                seq.pop()
                counts[s] += 1
    yield from rec()


def _pat(n, a=1, s=1, tail=""):
    return ["pat", n, a, s, tail]


def interleave_configs(tier):
    """(name, streams, extras as one more ordered source, frame counts)"""
    fc0 = ["x", 0x7E0, M.flow_control(0, 0, 0, None).hex()]
    unrel = ["x", 0x7DF, "0210010000000000"]
    cfgs = [
        ("classic 3+3 frames, 2 extras",
         [{"id": 0x7E0, "tx_dl": 8, "pad": None, "telegrams": [_pat(20)]},
          {"id": 0x7E8, "tx_dl": 8, "pad": 0xAA, "telegrams": [_pat(3, 0x21), _pat(10, 0x30)]}], [fc0, unrel]),
        ("classic 3 ids 3+2+3 frames",
         [{"id": 0x7E0, "tx_dl": 8, "pad": 0x00, "telegrams": [_pat(15, 0x10)]},
          {"id": 0x7E8, "tx_dl": 8, "pad": None, "telegrams": [_pat(8, 0x20)]},
          {"id": 0x18DA10F1, "tx_dl": 8, "pad": None, "telegrams": [_pat(7, 0x00), _pat(13, 0x21)]}], []),
        ("CAN-FD 12: 3+3 frames, 2 extras",
         [{"id": 0x7E0, "tx_dl": 12, "pad": None, "telegrams": [_pat(25)]},
          {"id": 0x7E8, "tx_dl": 12, "pad": 0x55, "full": True, "telegrams": [_pat(9, 0x21), _pat(12, 0x10)]}],
         [fc0, unrel]),
        ("classic 2 ids 4+4 frames, same payload bytes",
         [{"id": 0x123, "tx_dl": 8, "pad": 0xAA, "telegrams": [_pat(21, 0xAA, 0)]},
          {"id": 0x001, "tx_dl": 8, "pad": 0xAA, "telegrams": [_pat(27, 0xAA, 0)]}], []),
    ]
    if tier == "thorough":
        cfgs += [
            ("classic 3 ids 4+3+3 frames",
             [{"id": 0x7E0, "tx_dl": 8, "pad": None, "telegrams": [_pat(27)]},
              {"id": 0x7E8, "tx_dl": 8, "pad": 0xAA, "telegrams": [_pat(14, 0x21), _pat(1, 0x30)]},
              {"id": 0x6A5, "tx_dl": 8, "pad": 0x00, "telegrams": [_pat(6, 0x10), _pat(9, 0x22)]}], []),
            ("CAN-FD 64 / classic 5+5 frames",
             [{"id": 0x7E0, "tx_dl": 64, "pad": None, "telegrams": [_pat(62), _pat(63), _pat(126)]},
              {"id": 0x7E8, "tx_dl": 8, "pad": None, "telegrams": [_pat(34, 0x40)]}], []),
        ]
    return cfgs


def run_interleavings(cfg, res: core.ShardResult, kf):
    from vlib import known
    name, streams, extras = cfg
    counts = []
    for s in streams:
        counts.append(sum(M.n_frames(sp[1] if sp[0] == "pat" else len(sp[1]) // 2, s["tx_dl"]) for sp in s["telegrams"]))
    nsrc = len(streams)
    if extras:
        counts.append(len(extras))
    n = 0
    for perm in multiset_permutations(counts):
        xi = 0
        order = []
        for s in perm:
            if s < nsrc:
                order.append(s)
            else:
                order.append(extras[xi])
                xi += 1
        case = {"streams": streams, "order": order,
                "text": {"fmts": [M.FORMATS[n % 3], M.FORMATS[(n // 3) % 3]], "iface": "vcan0"},
                "active": {"padding_size": 8}}
        fails, classes, nontrivial = evaluate(case)
        n += 1
        res.note(case, nontrivial, classes, sample=(n % 211 == 1))
        for f in fails:
            k = known.match(kf, f)
            if k is not None:
                res.known_hits[k["id"]] += 1
            else:
                res.failures.append(f)
        if len(res.failures) > 10:
            break
    res.exhaustive_subspaces.append(f"all {n} merge orders of: {name}")
    return n


LENGTH_CONFIGS = {
    "classic-nopad": {"tx_dl": 8, "pad": None},
    "classic-pad00": {"tx_dl": 8, "pad": 0x00},
    "classic-padAA": {"tx_dl": 8, "pad": 0xAA},
    "fd64": {"tx_dl": 64, "pad": None},
    "fd12-padfull": {"tx_dl": 12, "pad": 0x55, "full": True},
}


def length_case(cfgname, n):
    cfg = LENGTH_CONFIGS[cfgname]
    pad = cfg.get("pad")
    tail = f"{pad:02x}" * 3 if pad is not None else ""
    return {"streams": [{"id": 0x7E0, "tx_dl": cfg["tx_dl"], "pad": pad, "full": cfg.get("full", False),
                         "telegrams": [_pat(n, n & 0xFF, 1, tail)]}],
            "order": [], "text": {"fmts": [M.FORMATS[n % 3]], "iface": "can0", "final_newline": bool(n % 2)},
            "active": {"padding_size": 8 if n % 2 else 0}}


def run_lengths(cfgname, lengths, res: core.ShardResult, kf):
    from vlib import known
    cnt = 0
    for n in lengths:
        case = length_case(cfgname, n)
        fails, classes, nontrivial = evaluate(case)
        cnt += 1
        res.note(case, nontrivial, classes, sample=(n % 997 == 20))
        for f in fails:
            k = known.match(kf, f)
            if k is not None:
                res.known_hits[k["id"]] += 1
            else:
                res.failures.append(f)
        if len(res.failures) > 10:
            break
    return cnt


QUICK_LENGTHS = sorted(set(list(range(1, 261)) + list(range(261, 4060, 37)) + list(range(4072, 4096))))
THOROUGH_RANGES = [(1, 2048), (2049, 2896), (2897, 3547), (3548, 4095)]


def shards(tier):
    out = []
    if tier == "quick":
        out += [("hyp", i) for i in range(8)]
        out += [("inter", i) for i in range(len(interleave_configs(tier)))]
        out += [("len", c, "quick") for c in ("classic-nopad", "classic-padAA", "fd64", "fd12-padfull")]
    else:
        out += [("hyp", i) for i in range(16)]
        out += [("inter", i) for i in range(len(interleave_configs(tier)))]
        for c in LENGTH_CONFIGS:
            for r in THOROUGH_RANGES:
                out.append(("len", c, r))
    return out


def run_shard(spec, seed, tier):
    from vlib import known
    res = core.ShardResult()
    kf = known.load(PROPERTY)
    if spec[0] == "inter":
        n = run_interleavings(interleave_configs(tier)[spec[1]], res, kf)
        res.stages["enumeration"] = n
        return res
    if spec[0] == "len":
        _, cfgname, rng = spec
        if rng == "quick":
            lengths = QUICK_LENGTHS
        else:
            lengths = range(rng[0], rng[1] + 1)
        n = run_lengths(cfgname, lengths, res, kf)
        res.stages["enumeration"] = n
        if rng != "quick":
            res.exhaustive_subspaces.append(
                f"every telegram length 1..4095 (single id, config {cfgname}) through all three interfaces "
                f"[part {rng[0]}..{rng[1]}]")
        else:
            res.exhaustive_subspaces.append(f"every telegram length 1..260 (single id, config {cfgname})")
        return res

    def body(case):
        fails, classes, nontrivial = evaluate(case)
        res.note(case, nontrivial, classes)
        new = []
        for f in fails:
            k = known.match(kf, f)
            if k is not None:
                res.known_hits[k["id"]] += 1
            else:
                new.append(f)
        return new

    n = 800 if tier == "quick" else 5000
    found = core.hyp_search(_strategies(), body, seed, n)
    if found:
        res.failures.extend(found)
    res.stages["hypothesis"] = n
    return res
