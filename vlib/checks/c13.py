"""C13 — malformed or lossy CAN traffic never crashes or fabricates telegrams.

Domain
  * "ops" cases: generated histories of operations on 1..2 monitored ids: start a well-formed
    transfer (reference segmenter), send its next frame(s), and the fault operators drop /
    duplicate / swap / truncate / corrupt PCI byte / inject arbitrary frame (stray consecutive,
    flow control, empty, over-long, random bytes) / abandon;  pure random frame sequences are the
    special case "only inject";
  * "faulted" cases: a well-formed C12 stream plus a list of positional faults; all single faults
    of small base streams are enumerated, double faults are sampled;
  * thorough tier: an atheris (libFuzzer) campaign whose input bytes are decoded into "ops" cases.
  Every history is followed by one fresh well-formed transfer per id (clause c).

Systems under test: IsoTpStateMachine.decode_rx_frame, read_telegrams on candump text, IsoTpActiveDecoder with a
fake bus, and the two verbose decoders that odxtools/cli/snoop.py builds with init_verbose_state_machine()
(passive: IsoTpStateMachine, active: IsoTpActiveDecoder) - the production consumers of the on_sequence_error /
on_frame_type_error callbacks named in the property's anchors; their printing is captured and discarded.
For the snoop decoders the same oracle applies plus `snoop-differential`: frame by frame they yield exactly what
the plain class yields.  Nothing is asserted about what they print.

Oracle (per system under test)
  (a) no-raise      processing a frame never raises;
  (b) justified     every reported telegram is accepted by models.isotp.Justifier (payload of the single
                    frame just received, or announced-length prefix of the latest first frame followed by
                    in-sequence consecutive frames); at-most-once: a first frame justifies one telegram only;
  (c) recovery      a transfer all of whose frames arrive unmodified, in order and contiguously on its id
                    (flow-control frames may be interspersed) is reported exactly once, at its last frame,
                    with the transmitted payload - whatever happened before on that id.
"""
from __future__ import annotations

import os
import random
import subprocess
import sys
import tempfile

from vlib import core
from vlib.checks import c12
from vlib.models import isotp as M

PROPERTY = "C13"
RULE = ("one case = one frame history (operations with fault operators, or a well-formed stream with positional "
        "faults) followed by a fresh transfer per id, judged frame by frame on three interfaces; non-trivial = the "
        "history contains at least one fault and at least one multi-frame transfer; distinct = digest of the case")
ASSUMPTIONS = [
    "the justification acceptor (vlib/models/isotp.py Justifier) is permissive: it admits both 'ignore the bad frame' "
    "and 'abort the transfer'; it assumes a new well-formed first frame supersedes the transfer in progress on its id",
    "for a single frame shorter than its announced length the available bytes (or nothing) are an admissible report; "
    "an empty report for SF_DL 0 is admissible; both the classic and the CAN-FD reading of a PCI are admitted",
    "an exception leaves the decoder usable: after a raise that is a recorded finding the history continues with the next frame",
    "a zero-length frame has no rendering in the accepted candump formats; in the text interface such a line is "
    "expected to be skipped (a warning on stderr is not a violation)",
    "fresh/clean transfers avoid CAN-FD single frames with the length escape (that defect belongs to C12)",
    "the active decoder is driven with a recording fake bus; its transmitted flow-control frames are not judged here",
    "the snoop decoders (cli/snoop.py init_verbose_state_machine) are driven through decode_rx_frame only; what their "
    "callbacks print to stdout is captured and not judged",
]
MUST_HIT = ["fault:drop", "fault:dup", "fault:swap", "fault:trunc", "fault:pci", "fault:inject-cf", "fault:inject-fc",
            "fault:inject-ff", "fault:empty", "fault:overlong", "fault:one-byte", "cf-before-ff",
            "stray-cf-after-complete", "clean-transfer-after-fault", "double-fault", "ids:2", "fd", "random-frames",
            "kind:ops", "kind:faulted", "sut:snoop-verbose", "fault:invalid-frame-type"]

IDS = [0x7E0, 0x7E8]
KINDNAME = {None: "empty", 0: "sf", 1: "ff", 2: "cf", 3: "fc"}


def kindname(data: bytes) -> str:
    return KINDNAME.get(M.frame_kind(data), "invalid")


def _fault_class(data: bytes) -> list:
    out = []
    k = kindname(data)
    if k == "empty":
        out.append("fault:empty")
    else:
        out.append(f"fault:inject-{k}")
        if len(data) == 1:
            out.append("fault:one-byte")
    if len(data) > 64:
        out.append("fault:overlong")
    return out


# ---------------------------------------------------------------------------
# case -> (frames, expectations, classes)
# ---------------------------------------------------------------------------
class History:
    def __init__(self, ids):
        self.ids = list(ids)
        self.frames = []      # (can_id, data)
        self.expect = {}      # frame index -> [payload] that must be reported exactly there
        self.classes = set()
        self.faults = 0
        self.multi = False
        self.seen_ff = {i: False for i in self.ids}
        self.completed = {i: False for i in self.ids}

    def emit(self, can_id, data, expect=None):
        data = bytes(data)
        if can_id in self.seen_ff:
            k = M.frame_kind(data)
            if k == M.CF and not self.seen_ff[can_id]:
                self.classes.add("cf-before-ff")
            if k == M.FF and len(data) >= 2:
                self.seen_ff[can_id] = True
            if k is not None and k >= 4:
                self.classes.add("fault:invalid-frame-type")
        self.frames.append((can_id, data))
        if expect is not None:
            self.expect[len(self.frames) - 1] = [bytes(expect)]


def build_ops(case) -> History:
    ids = case["ids"]
    h = History(ids)
    h.classes.add("kind:ops")
    h.classes.add(f"ids:{len(ids)}")
    queue = {i: [] for i in range(len(ids))}     # remaining (data, payload if last frame else None)
    sent = {i: 0 for i in range(len(ids))}       # frames of the current transfer already sent
    clean = {i: True for i in range(len(ids))}
    faulted = {i: False for i in range(len(ids))}
    last = {i: None for i in range(len(ids))}
    only_inject = True

    def in_progress(i):
        return sent[i] > 0 and len(queue[i]) > 0

    def fault(i, name):
        h.faults += 1
        h.classes.add(f"fault:{name}")
        faulted[i] = True
        if in_progress(i):
            clean[i] = False

    def start(i, spec, tx_dl, pad, full):
        payload = M.payload_from_spec(spec)
        if tx_dl > 8 and 8 <= len(payload) <= tx_dl - 2:
            payload = (payload * 8)[:tx_dl - 1]
        if queue[i]:
            fault(i, "abandon")
        frs = M.segment(payload, tx_dl, pad, full)
        if len(frs) > 1:
            h.multi = True
        if tx_dl > 8:
            h.classes.add("fd")
        queue[i] = [(f, payload if k == len(frs) - 1 else None) for k, f in enumerate(frs)]
        sent[i] = 0
        clean[i] = True

    def send_one(i):
        data, payload = queue[i].pop(0)
        sent[i] += 1
        exp = None
        if payload is not None and clean[i]:
            exp = payload
            h.classes.add("clean-complete")
            if faulted[i]:
                h.classes.add("clean-transfer-after-fault")
        if payload is not None:
            h.completed[ids[i]] = True
        h.emit(ids[i], data, exp)
        last[i] = data

    for op in case["ops"]:
        name = op[0]
        if name == "other":
            h.emit(op[1], bytes.fromhex(op[2]))
            continue
        i = op[1] % len(ids)
        if name != "inject":
            only_inject = False
        if name == "start":
            start(i, op[2], op[3], op[4], bool(op[5]))
        elif name == "send":
            for _ in range(op[2]):
                if queue[i]:
                    send_one(i)
        elif name == "finish":
            while queue[i]:
                send_one(i)
        elif name == "drop":
            if queue[i]:
                fault(i, "drop")
                queue[i].pop(0)
                sent[i] += 1
                clean[i] = False
        elif name == "dup":
            if last[i] is not None:
                fault(i, "dup")
                h.emit(ids[i], last[i])
        elif name == "swap":
            if len(queue[i]) >= 2:
                fault(i, "swap")
                clean[i] = False
                a, b = queue[i].pop(0), queue[i].pop(0)
                sent[i] += 2
                h.emit(ids[i], b[0])
                h.emit(ids[i], a[0])
                last[i] = a[0]
        elif name == "trunc":
            if queue[i]:
                data, _ = queue[i].pop(0)
                sent[i] += 1
                fault(i, "trunc")
                clean[i] = False
                cut = data[:op[2] % len(data)]
                h.classes.update(c for c in _fault_class(cut) if c in ("fault:empty", "fault:one-byte"))
                h.emit(ids[i], cut)
                last[i] = cut
        elif name == "pci":
            if queue[i]:
                data, _ = queue[i].pop(0)
                sent[i] += 1
                fault(i, "pci")
                clean[i] = False
                b0 = op[2] & 0xFF
                if b0 == data[0]:
                    b0 ^= 0x10
                mod = bytes([b0]) + data[1:]
                h.emit(ids[i], mod)
                last[i] = mod
        elif name == "fc":
            if M.frame_kind(bytes.fromhex(op[2])) != M.FC or len(op[2]) < 6:
                raise ValueError("fc op needs a flow-control frame of >= 3 bytes")
            h.emit(ids[i], bytes.fromhex(op[2]))      # benign: flow control may appear anywhere
        elif name == "inject":
            data = bytes.fromhex(op[2])
            if (M.frame_kind(data) == M.CF and not in_progress(i) and h.completed[ids[i]]):
                h.classes.add("stray-cf-after-complete")
            fault(i, "inject")
            h.classes.update(_fault_class(data))
            h.emit(ids[i], data)
            last[i] = data
        else:
            raise ValueError(f"unknown op {op!r}")
    if only_inject and case["ops"]:
        h.classes.add("random-frames")
    # clause (c): one fresh transfer per id
    fresh = case.get("fresh") or [[["pat", 20, 1, 1, ""], 8, None, False]]
    multi_in_history = h.multi      # the epilogue does not count for the non-triviality rule
    for i in range(len(ids)):
        spec, tx_dl, pad, full = fresh[i % len(fresh)]
        queue[i] = []
        sent[i] = 0
        start(i, spec, tx_dl, pad, bool(full))
        while queue[i]:
            send_one(i)
    h.multi = multi_in_history
    return h


def apply_faults(entries, faults, ids, h: History):
    """entries: dicts {id, data, tag, benign}; positions refer to the list as it is when the fault is applied"""
    for f in faults:
        name, pos = f[0], f[1]
        h.faults += 1
        h.classes.add(f"fault:{name}")
        if name == "inject":
            pos = pos % (len(entries) + 1)
            data = bytes.fromhex(f[3])
            h.classes.update(_fault_class(data))
            entries.insert(pos, {"id": ids[f[2] % len(ids)], "data": data, "tag": None, "benign": False})
            continue
        if not entries:
            continue
        pos = pos % len(entries)
        e = entries[pos]
        if name == "drop":
            del entries[pos]
        elif name == "dup":
            at = min(len(entries), pos + 1 + f[2])
            entries.insert(at, {"id": e["id"], "data": e["data"], "tag": None, "benign": False})
        elif name == "swap":
            if pos + 1 < len(entries):
                entries[pos], entries[pos + 1] = entries[pos + 1], entries[pos]
        elif name == "trunc":
            if len(e["data"]):
                cut = e["data"][:f[2] % len(e["data"])]
                h.classes.update(c for c in _fault_class(cut) if c in ("fault:empty", "fault:one-byte"))
                entries[pos] = {"id": e["id"], "data": cut, "tag": None, "benign": False}
        elif name == "pci":
            if len(e["data"]):
                b0 = f[2] & 0xFF
                if b0 == e["data"][0]:
                    b0 ^= 0x10
                entries[pos] = {"id": e["id"], "data": bytes([b0]) + e["data"][1:], "tag": None, "benign": False}
        else:
            raise ValueError(f"unknown fault {f!r}")


def build_faulted(case) -> History:
    base = c12.build(case["base"])
    ids = base.ids
    h = History(ids)
    h.classes.add("kind:faulted")
    h.classes.add(f"ids:{len(ids)}")
    if "fd" in base.classes:
        h.classes.add("fd")
    if "fd-sf-escape" in base.classes:
        raise ValueError("C13 base streams must not contain CAN-FD escape single frames")
    h.multi = "multi-frame" in base.classes
    entries = [{"id": cid, "data": data, "tag": tag, "benign": tag is None}
               for (cid, data), tag in zip(base.frames, base.tags)]
    apply_faults(entries, case["faults"], ids, h)
    if len(case["faults"]) >= 2:
        h.classes.add("double-fault")
    # expectations: transfers whose frames form a contiguous, complete, unmodified run on their id
    payloads = {}
    for k, s in enumerate(case["base"]["streams"]):
        for t, spec in enumerate(s["telegrams"]):
            payloads[(k, t)] = M.payload_from_spec(spec)
    in_run = set()
    for cid in ids:
        proj = [(gi, e) for gi, e in enumerate(entries) if e["id"] == cid and not e["benign"]]
        p = 0
        while p < len(proj):
            gi, e = proj[p]
            tag = e["tag"]
            if tag is not None and tag[2] == 0:
                nf = tag[3]
                run = proj[p:p + nf]
                if len(run) == nf and all(r[1]["tag"] == (tag[0], tag[1], q, nf) for q, r in enumerate(run)):
                    h.expect[run[-1][0]] = [payloads[(tag[0], tag[1])]]
                    in_run.update(r[0] for r in run)
                    h.classes.add("clean-complete")
                    p += nf
                    continue
            p += 1
        # classes only: an undisturbed transfer after something disturbed on the same id
        seen_bad = False
        for gi, e in proj:
            if gi not in in_run:
                seen_bad = True
            elif gi in h.expect and seen_bad:
                h.classes.add("clean-transfer-after-fault")
    inprog = {i: False for i in ids}
    completed = {i: False for i in ids}
    for e in entries:
        if e["id"] in inprog and not e["benign"]:
            if M.frame_kind(e["data"]) == M.CF and e["tag"] is None and completed[e["id"]] and not inprog[e["id"]]:
                h.classes.add("stray-cf-after-complete")
            if e["tag"] is not None:
                inprog[e["id"]] = e["tag"][2] < e["tag"][3] - 1
                if e["tag"][2] == e["tag"][3] - 1:
                    completed[e["id"]] = True
        h.emit(e["id"], e["data"])
    # clause (c): one fresh transfer per id
    for n, cid in enumerate(ids):
        payload = M.payload_from_spec(["pat", 20 + n, 0x40 + n, 1, ""])
        frs = M.segment(payload, 8, None)
        for q, fr in enumerate(frs):
            h.emit(cid, fr, payload if q == len(frs) - 1 else None)
        h.classes.add("clean-complete")
    return h


def build(case) -> History:
    if case.get("kind") == "faulted":
        return build_faulted(case)
    return build_ops(case)


# ---------------------------------------------------------------------------
# oracle
# ---------------------------------------------------------------------------
def judge(h: History, results, iface, case) -> list:
    """all failures of one interface in history order (the caller separates recorded findings)"""
    fails = []
    just = {i: M.Justifier() for i in h.ids}

    def add(clause, detail, bucket, **feat):
        feat.update({"bucket": bucket, "iface": iface})
        fails.append(core.Failure(clause, f"{iface}: {detail}", case, feat))

    for idx, ((cid, data), r) in enumerate(zip(h.frames, results)):
        j = just.get(cid)
        kind = kindname(data)
        if j is not None:
            seen_ff_before = j.seen_ff
            j.feed(data)
        if r[0] == "exc":
            e = r[1]
            short = len(data) == 0 or (kind == "ff" and len(data) < 2)
            noff = j is not None and kind == "cf" and not seen_ff_before
            add("no-raise", f"frame {idx} (0x{cid:X} {data.hex() or '<empty>'}) raised {type(e).__name__}: {e}",
                f"raise:{type(e).__name__}:{kind}" + (":short" if short else "") + (":no-first-frame" if noff else ""),
                exc=type(e).__name__, kind=kind, short=short, no_first_frame=noff, monitored=j is not None)
            if idx in h.expect:
                add("recovery", f"frame {idx} completes an undisturbed transfer but raised", "clean-transfer-raised")
            continue
        got = r[1]
        if j is None:
            if got:
                add("justified", f"frame {idx} on unmonitored id 0x{cid:X} produced {got}", "unmonitored-id")
            continue
        n_sf = 0
        for (rid, payload) in got:
            if rid != cid:
                add("justified", f"frame {idx} on 0x{cid:X} reported a telegram for 0x{rid:X}", "wrong-id", kind=kind)
                continue
            v = j.judge(payload)
            if v == "ok":
                n_sf += 1
                if n_sf > 1:
                    add("at-most-once", f"frame {idx} (0x{cid:X} {data.hex()}): single frame reported more than once",
                        "twice:sf", kind=kind)
            if v == "unjustified":
                add("justified", f"frame {idx} (0x{cid:X} {data.hex()}) reported {payload.hex()!r} which the frames "
                    f"received on this id do not justify", f"unjustified:{kind}", kind=kind)
            elif v == "twice":
                add("at-most-once", f"frame {idx} (0x{cid:X} {data.hex()}) reported {payload.hex()!r}: the first frame "
                    f"it belongs to already produced a telegram", f"twice:{kind}", kind=kind)
        if idx in h.expect:
            want = h.expect[idx]
            gotp = [p for (_, p) in got]
            if gotp != want:
                add("recovery", f"frame {idx} completes an undisturbed transfer of {len(want[0])} bytes on 0x{cid:X}; "
                    f"reported {[p.hex() for p in gotp]}", "clean-transfer-" + ("missing" if not gotp else "wrong"), kind=kind)
    return fails


ALL_SUTS = ("frames", "text", "active", "snoop-passive", "snoop-active")


def evaluate(case, ifaces=ALL_SUTS):
    """-> (failures in order, classes, nontrivial)"""
    ism = c12._ism()
    h = build(case)
    fails = []
    plain = {}
    if "frames" in ifaces:
        r = c12.drive_frames(ism.IsoTpStateMachine(list(h.ids)), h.frames)
        plain["frames"] = r
        fails += judge(h, r, "frames", case)
    if "text" in ifaces:
        topt = case.get("text") or {}
        fmts = topt.get("fmts") or ["candump", "log", "fdlog"]
        lines = []
        for i, (cid, data) in enumerate(h.frames):
            fmt = M.admissible_format(fmts[i % len(fmts)], data)
            lines.append(M.render_line(fmt, cid, data, iface=topt.get("iface", "vcan0"), upper=topt.get("upper", True),
                                       gap=topt.get("gap", 2)))
        r, _ = c12.drive_text(ism.IsoTpStateMachine(list(h.ids)), lines)
        fails += judge(h, r, "text", case)
    if "active" in ifaces:
        bus = c12.FakeBus()
        try:
            dec = ism.IsoTpActiveDecoder(bus, list(h.ids), c12.TX_POOL[:len(h.ids)], padding_size=8)
        except Exception as e:
            fails.append(core.Failure("no-raise", f"active: constructor raised {type(e).__name__}: {e}", case,
                                      {"bucket": f"raise:ctor:{type(e).__name__}", "iface": "active"}))
        else:
            r = c12.drive_frames(dec, h.frames, bus)
            plain["active"] = r
            fails += judge(h, r, "active", case)
    # production consumers of the callbacks: the verbose decoders of `odxtools snoop` (cli/snoop.py)
    for sut in ("snoop-passive", "snoop-active"):
        if sut not in ifaces:
            continue
        h.classes.add("sut:snoop-verbose")
        r = drive_snoop(sut, h)
        if isinstance(r, core.Failure):
            r.case = case
            fails.append(r)
            continue
        fails += judge(h, r, sut, case)
        fails += differential(h, r, plain.get("active" if sut == "snoop-active" else "frames"), sut, case)
    return fails, h.classes, (h.faults >= 1 and h.multi)


def drive_snoop(sut, h: History):
    """the decoder that init_verbose_state_machine() builds for the passive / active snoop loop, fed frame by frame;
    whatever its callbacks print is captured and discarded"""
    import contextlib
    import io
    ism = c12._ism()
    from odxtools.cli import snoop
    bus = None
    try:
        with contextlib.redirect_stdout(io.StringIO()), contextlib.redirect_stderr(io.StringIO()):
            if sut == "snoop-passive":
                dec = snoop.init_verbose_state_machine(BaseClass=ism.IsoTpStateMachine, can_rx_ids=list(h.ids))
            else:
                bus = c12.FakeBus()
                dec = snoop.init_verbose_state_machine(BaseClass=ism.IsoTpActiveDecoder, can_bus=bus,
                                                       can_rx_ids=list(h.ids), can_tx_ids=c12.TX_POOL[:len(h.ids)],
                                                       padding_size=8)
    except Exception as e:
        return core.Failure("no-raise", f"{sut}: init_verbose_state_machine raised {type(e).__name__}: {e}", None,
                            {"bucket": f"raise:ctor:{sut}:{type(e).__name__}", "iface": sut})
    with contextlib.redirect_stdout(io.StringIO()), contextlib.redirect_stderr(io.StringIO()):
        return c12.drive_frames(dec, h.frames, bus)


def differential(h: History, r_verbose, r_plain, sut, case) -> list:
    """the informative subclass must yield, frame by frame, exactly what the plain class yields"""
    if r_plain is None:
        return []
    for idx, (a, b) in enumerate(zip(r_verbose, r_plain)):
        if a[0] != "ok" or b[0] != "ok":
            continue        # exceptions are judged by the no-raise clause
        if a[1] != b[1]:
            cid, data = h.frames[idx]
            return [core.Failure(
                "snoop-differential", f"{sut}: frame {idx} (0x{cid:X} {data.hex()}) yields {a[1]} but the plain "
                f"decoder yields {b[1]}", case, {"bucket": f"snoop-differs:{sut}", "iface": sut, "kind": kindname(data)})]
    return []


def replay(case) -> list:
    fails, _, _ = evaluate(core.unjson(case))
    return fails


def split_known(fails, kf, res: core.ShardResult):
    """count recorded findings, return the first failure that is not one (later ones may be its consequences)"""
    from vlib import known
    for f in fails:
        k = known.match(kf, f)
        if k is not None:
            res.known_hits[k["id"]] += 1
        else:
            return [f]
    return []


# ---------------------------------------------------------------------------
# generators
# ---------------------------------------------------------------------------
def _strategies(random_only=False, max_ops=40):
    from hypothesis import strategies as st

    byte = st.one_of(st.sampled_from([0x00, 0x10, 0x21, 0x22, 0x30, 0x02, 0xAA, 0xFF, 0x2F, 0x20, 0x1F]),
                     st.integers(0, 255))
    idx = st.integers(0, 1)
    frame = st.one_of(
        st.lists(byte, min_size=0, max_size=9).map(bytes),
        st.builds(lambda sn, d: bytes([0x20 | sn]) + bytes(d), st.integers(0, 15), st.lists(byte, max_size=7)),
        st.builds(lambda hi, lo, d: bytes([0x10 | hi, lo]) + bytes(d), st.sampled_from([0, 0, 0, 1, 15]),
                  st.sampled_from([0, 1, 5, 6, 7, 8, 13, 14, 20, 255]), st.lists(byte, max_size=6)),
        st.builds(lambda n, d: bytes([n]) + bytes(d), st.integers(0, 15), st.lists(byte, max_size=7)),
        st.sampled_from([b"", b"\x10", b"\x21", b"\x00", b"\x30", b"\x11\x01", b"\x30\x00\x00", b"\x32\x00\x00"]),
        st.builds(lambda b0, n: bytes([b0]) + bytes(range(1, n)), byte, st.sampled_from([12, 64, 65, 70])),
    ).map(lambda b: b.hex())
    length = st.one_of(st.sampled_from([1, 6, 7, 8, 9, 13, 14, 15, 20, 21, 22, 111, 118, 119]), st.integers(1, 40),
                       st.integers(1, 300))
    spec = st.builds(lambda n, a, s, t: ["pat", n, a, s, t], length, st.integers(0, 255), st.sampled_from([1, 0, 3]),
                     st.sampled_from(["", "aaaaaa", "21", "00"]))
    txdl = st.sampled_from([8, 8, 8, 8, 12, 16, 64])
    pad = st.sampled_from([None, None, 0x00, 0xAA, 0x21])
    inject = st.builds(lambda i, d: ["inject", i, d], idx, frame)
    if random_only:
        op = st.one_of(inject, inject, inject,
                       st.builds(lambda d: ["other", 0x7DF, d], frame))
    else:
        start = st.builds(lambda i, sp, t, p, f: ["start", i, sp, t, p, f], idx, spec, txdl, pad, st.booleans())
        op = st.one_of(
            start, start,
            st.builds(lambda i, n: ["send", i, n], idx, st.integers(1, 3)),
            st.builds(lambda i, n: ["send", i, n], idx, st.integers(1, 3)),
            st.builds(lambda i: ["finish", i], idx),
            st.builds(lambda i: ["drop", i], idx),
            st.builds(lambda i: ["dup", i], idx),
            st.builds(lambda i: ["swap", i], idx),
            st.builds(lambda i, k: ["trunc", i, k], idx, st.integers(0, 12)),
            st.builds(lambda i, b: ["pci", i, b], idx, byte),
            inject,
            st.builds(lambda i, fl, p: ["fc", i, M.flow_control(fl, 0, 0, p).hex()], idx, st.integers(0, 2),
                      st.sampled_from([None, 0xAA])),
            st.builds(lambda d: ["other", 0x7DF, d], frame),
        )
    fresh = st.lists(st.builds(lambda sp, t, p: [sp, t, p, False], spec, txdl, pad), min_size=1, max_size=2)
    return st.builds(lambda n, ops, fr, fm: {"kind": "ops", "ids": IDS[:n], "ops": ops, "fresh": fr, "text": {"fmts": fm}},
                     st.sampled_from([1, 2, 2]), st.lists(op, min_size=1, max_size=max_ops), fresh,
                     st.lists(st.sampled_from(M.FORMATS), min_size=1, max_size=3))


# ---------------------------------------------------------------------------
# fault sweeps over well-formed base streams
# ---------------------------------------------------------------------------
def _pat(n, a=1, s=1, tail=""):
    return ["pat", n, a, s, tail]


BASES = {
    "one-id-classic": {"streams": [{"id": 0x7E0, "tx_dl": 8, "pad": None,
                                    "telegrams": [_pat(10), _pat(3, 0x21), _pat(20, 0x30)]}], "order": []},
    "two-ids-padded": {"streams": [{"id": 0x7E0, "tx_dl": 8, "pad": 0xAA, "telegrams": [_pat(15, 0x10)]},
                                   {"id": 0x7E8, "tx_dl": 8, "pad": 0x00, "telegrams": [_pat(8, 0x20), _pat(2, 0x22)]}],
                       "order": [0, 1, ["x", 0x7E8, "300000"], 0, 1, 0, ["x", 0x7DF, "0210"], 1]},
    "sn-wrap": {"streams": [{"id": 0x7E0, "tx_dl": 8, "pad": 0x55, "telegrams": [_pat(120, 0x21, 0), _pat(5, 0x21, 0)]}],
                "order": []},
    "fd16": {"streams": [{"id": 0x7E0, "tx_dl": 16, "pad": None, "telegrams": [_pat(30, 0x10), _pat(5, 0x20), _pat(16, 0x2F)]}],
             "order": []},
    "two-ids-same-bytes": {"streams": [{"id": 0x7E0, "tx_dl": 8, "pad": 0xAA, "telegrams": [_pat(21, 0xAA, 0), _pat(9, 0xAA, 0)]},
                                       {"id": 0x7E8, "tx_dl": 8, "pad": 0xAA, "telegrams": [_pat(13, 0xAA, 0)]}],
                           "order": [0, 1, 0, 1, 0, 0]},
}

INJECT_PAYLOADS = ([bytes([0x20 | sn, 1, 2, 3, 4, 5, 6, 7]).hex() for sn in range(16)] +
                   ["21", "2f", "300000", "310000", "32", "", "10", "1f", "00", "f0", "0311aabb", "100a0102030405",
                    "1003010203", (bytes([0x21]) + bytes(range(64))).hex(), (bytes([0x10, 0x50]) + bytes(range(70))).hex(),
                    "07010203"])


def single_faults(nframes: int, frames, nids: int):
    for p in range(nframes):
        yield ["drop", p]
        for d in (0, 1, 3):
            yield ["dup", p, d]
        if p + 1 < nframes:
            yield ["swap", p]
        for k in range(len(frames[p][1])):
            yield ["trunc", p, k]
        b0 = frames[p][1][0] if frames[p][1] else 0
        for v in range(16):
            if (v << 4 | (b0 & 15)) != b0:
                yield ["pci", p, (v << 4) | (b0 & 15)]
            if ((b0 & 0xF0) | v) != b0:
                yield ["pci", p, (b0 & 0xF0) | v]
    for p in range(nframes + 1):
        for i in range(nids):
            for hx in INJECT_PAYLOADS:
                yield ["inject", p, i, hx]


def _eval_into(case, res, kf, sample):
    fails, classes, nontrivial = evaluate(case)
    res.note(case, nontrivial, classes, sample=sample)
    new = split_known(fails, kf, res)
    res.failures.extend(new)
    return new


def run_sweep(basename, res: core.ShardResult, kf, seed, n_double):
    base = BASES[basename]
    b = c12.build(base)
    singles = list(single_faults(len(b.frames), b.frames, len(b.ids)))
    n = 0
    for f in singles:
        case = {"kind": "faulted", "base": base, "faults": [f], "text": {"fmts": [M.FORMATS[n % 3]]}}
        n += 1
        _eval_into(case, res, kf, sample=(n % 499 == 1))
        if len(res.failures) > 10:
            return n
    res.exhaustive_subspaces.append(
        f"all {len(singles)} single faults (drop, duplicate at distance 0/1/3, swap, every truncation, every PCI nibble "
        f"value, {len(INJECT_PAYLOADS)} injected frames at every position and id) of base stream '{basename}' "
        f"({len(b.frames)} frames)")
    rng = random.Random(seed)
    for _ in range(n_double):
        f1 = singles[rng.randrange(len(singles))]
        f2 = list(singles[rng.randrange(len(singles))])
        case = {"kind": "faulted", "base": base, "faults": [f1, f2], "text": {"fmts": [M.FORMATS[n % 3]]}}
        n += 1
        _eval_into(case, res, kf, sample=(n % 499 == 1))
        if len(res.failures) > 10:
            break
    return n


# ---------------------------------------------------------------------------
# atheris campaign (thorough tier); input bytes -> "ops" case
# ---------------------------------------------------------------------------
def decode_fuzz_bytes(buf: bytes) -> dict:
    ops = []
    p = 0

    def take(n):
        nonlocal p
        out = buf[p:p + n]
        p += n
        return out

    while p < len(buf) and len(ops) < 64:
        b = buf[p]
        p += 1
        i = (b >> 7) & 1
        code = b & 0x0F
        arg = (b >> 4) & 7
        if code <= 5:
            n = (take(1) or b"\x00")[0] & 0x0F
            if code == 5:
                n += 60
            ops.append(["inject", i, take(n).hex()])
        elif code == 6:
            ln = (take(1) or b"\x01")[0]
            ops.append(["start", i, ["pat", 1 + ln % 130, ln, 1, ""], [8, 8, 8, 12, 16, 64, 8, 8][arg], [None, 0xAA][ln & 1], False])
        elif code == 7:
            ops.append(["send", i, 1 + arg % 3])
        elif code == 8:
            ops.append(["finish", i])
        elif code == 9:
            ops.append(["drop", i])
        elif code == 10:
            ops.append(["dup", i])
        elif code == 11:
            ops.append(["swap", i])
        elif code == 12:
            ops.append(["trunc", i, arg])
        elif code == 13:
            ops.append(["pci", i, (take(1) or b"\x00")[0]])
        elif code == 14:
            ops.append(["fc", i, M.flow_control(arg % 3, 0, 0, None).hex()])
        else:
            ops.append(["other", 0x7DF, take(arg).hex()])
    return {"kind": "ops", "ids": IDS, "ops": ops, "text": {"fmts": ["candump", "log"]}}


def atheris_main(argv=None):
    """entry point of the fuzzing subprocess: python -c 'from vlib.checks import c13; c13.atheris_main()' DIR RUNS SEED"""
    argv = argv or sys.argv
    art, runs, seed = argv[1], int(argv[2]), int(argv[3])
    import atheris
    from vlib import known
    with atheris.instrument_imports(include=["odxtools.isotp_state_machine", "odxtools.cli.snoop"]):
        import odxtools.isotp_state_machine  # noqa: F401
        import odxtools.cli.snoop  # noqa: F401
    kf = known.load(PROPERTY)
    dummy = core.ShardResult()

    def one(data):
        case = decode_fuzz_bytes(data)
        fails, _, _ = evaluate(case, ifaces=("frames", "snoop-passive"))
        if split_known(fails, kf, dummy):
            raise RuntimeError("C13 violation")

    corpus = os.path.join(art, "corpus")
    os.makedirs(corpus, exist_ok=True)
    seeds = [bytes([0x06, 20, 0x08]), bytes([0x06, 9, 0x07, 0x00, 0x02, 0x21, 0x01, 0x08]),
             bytes([0x00, 0x03, 0x10, 0x0a, 0x01, 0x00, 0x02, 0x21, 0x02]), bytes([0x86, 100, 0x87, 0x89, 0x88])]
    for k, s in enumerate(seeds):
        with open(os.path.join(corpus, f"seed{k}"), "wb") as fh:
            fh.write(s)
    atheris.Setup([argv[0], f"-runs={runs}", f"-seed={seed % (2**31)}", "-max_len=96", "-print_final_stats=1",
                   f"-artifact_prefix={art}/", corpus], one)
    atheris.Fuzz()


def run_atheris(res: core.ShardResult, kf, seed, runs):
    try:
        import atheris  # noqa: F401
    except Exception as e:
        res.stages["atheris"] = f"unavailable ({type(e).__name__})"
        return
    with tempfile.TemporaryDirectory(prefix="verif-c13-atheris-") as art:
        proc = subprocess.run([sys.executable, "-c", "from vlib.checks import c13; c13.atheris_main()",
                               art, str(runs), str(seed)], capture_output=True, text=True, cwd=str(core_root()))
        crashes = sorted(p for p in os.listdir(art) if p.startswith(("crash-", "timeout-", "oom-")))
        done = 0
        for ln in proc.stderr.splitlines():
            if "stat::number_of_executed_units" in ln:
                done = int(ln.split(":")[-1].strip())
        for c in crashes:
            with open(os.path.join(art, c), "rb") as fh:
                case = decode_fuzz_bytes(fh.read())
            _eval_into(case, res, kf, sample=False)
        if proc.returncode != 0 and not crashes:
            raise RuntimeError(f"atheris subprocess failed rc={proc.returncode}: {proc.stderr[-2000:]}")
        if crashes and not res.failures:
            raise RuntimeError(f"atheris reported {crashes} but the replay of the decoded case holds")
        res.stages["atheris"] = done or runs
        res.classes["atheris-runs"] += done or runs


def core_root():
    from pathlib import Path
    return Path(__file__).resolve().parent.parent.parent


# ---------------------------------------------------------------------------
def shards(tier):
    out = []
    nh = 8 if tier == "quick" else 16
    out += [("hyp", i) for i in range(nh)]
    out += [("rand", i) for i in range(2 if tier == "quick" else 4)]
    out += [("sweep", b) for b in BASES]
    if tier == "thorough":
        out += [("atheris", i) for i in range(4)]
    return out


def run_shard(spec, seed, tier):
    from vlib import known
    res = core.ShardResult()
    kf = known.load(PROPERTY)
    if spec[0] == "sweep":
        n = run_sweep(spec[1], res, kf, seed, 2000 if tier == "quick" else 20000)
        res.stages["enumeration"] = n
        return res
    if spec[0] == "atheris":
        run_atheris(res, kf, seed, 200_000)
        return res

    def body(case):
        fails, classes, nontrivial = evaluate(case)
        res.note(case, nontrivial, classes)
        return split_known(fails, kf, res)

    if spec[0] == "rand":
        n = 1000 if tier == "quick" else 5000
        found = core.hyp_search(_strategies(random_only=True, max_ops=30), body, seed, n)
    else:
        n = 1500 if tier == "quick" else 6000
        found = core.hyp_search(_strategies(max_ops=40 if tier == "quick" else 60), body, seed, n)
    if found:
        res.failures.extend(found)
    res.stages["hypothesis"] = n
    return res
