"""C03 — decoding a canonical PDU and re-encoding the result reproduces the PDU (DESIGN 3/C03).

PDUs are built by the *reference* encoder from generated descriptions x values (canonical by
construction).  For one small integer leaf per description every internal value is pushed through
(exhaustive per leaf)."""
from __future__ import annotations

import copy
import json

from vlib import core, gen, known, msgharness as mh, refcodec

PROPERTY = "C03"
RULE = ("reference-built canonical PDUs of generated descriptions (every internal value of one small integer leaf, "
        "other leaves fixed; generated values otherwise); oracle: odxtools decode -> odxtools encode of exactly the "
        "decoded values == original PDU, an OdxError from the re-encode is a violation; also through "
        "DiagLayer.decode()[0].param_dict -> DiagService.encode_request.  Non-trivial = PDU carries a non-identical "
        "compu leaf or a complex DOP, or the swept internal value is at a domain boundary; distinct = digest of "
        "(description, PDU)")
ASSUMPTIONS = [
    "a PDU that odxtools refuses to decode is outside the statement (counted, not reported)",
    "canonical = built by the reference encoder: reserved/padding bits zero, legal BCD digits, no negative zero, "
    "minimal terminators, length keys as produced by the reference",
    "compu-method clause: checked at PDU level through a DATA-OBJECT-PROP on every internal value of C07's generated "
    "methods with integer internal type <= 12 bits, for values where the exact reference's inverse of the decoded "
    "physical value is exactly the original (injective per the statement); also at method level by C07 'roundtrip'",
]
MUST_HIT = ["compu-clause", "leaf-sweep", "compu:LINEAR", "compu:TEXTTABLE", "struct", "sfield", "dlfield", "mux", "dct:minmax",
            "dct:leading", "dct:paramlen", "service-path", "negative", "BYTE-SIZE"]
NT = {"compu:LINEAR", "compu:LINEAR-float", "compu:TEXTTABLE", "struct", "sfield", "dlfield", "eopf", "mux", "table"}


def _fail(clause, detail, case, extra=None):
    f = {"bucket": clause, "features": case.get("features", [])}
    if extra:
        f.update(extra)
    return core.Failure(clause=clause, detail=detail, case=core.plain(case), features=f)


def _roundtrip(ld, case, pdu: bytes, res, cls, nontriv) -> list:
    from odxtools.exceptions import DecodeError, OdxError
    is_req = case["msg"]["kind"] == "request"
    rq = case.get("request")
    with mh.quiet_warnings():
        try:
            dec = ld.decode(pdu)
        except Exception as e:
            if res is not None:
                res.rejected += 1
                res.classes["decode-refused:" + mh.exc_key(e)] += 1
            return []
    if res is not None:
        res.accepted += 1
    fails = []
    with mh.quiet_warnings():
        try:
            if is_req:
                back = bytes(ld.obj.encode(**dec))
            else:
                back = bytes(ld.obj.encode(coded_request=rq, **dec))
            if back != pdu:
                fails.append(_fail("reencode-differs", f"decode({pdu.hex()}) = {dec!r}; re-encoded to {back.hex()}",
                                   dict(case, pdu=pdu.hex())))
        except Exception as e:
            fails.append(_fail("reencode-raises", f"decode({pdu.hex()}) = {dec!r}; re-encode raised "
                                                  f"{type(e).__name__}: {e}", dict(case, pdu=pdu.hex()),
                               {"exc": mh.exc_key(e)}))
    if not fails and is_req and case["msg"]["params"] and case["msg"]["params"][0].get("name") == "sid":
        cls.add("service-path")
        with mh.quiet_warnings():
            try:
                msgs = ld.layer.decode(pdu)
            except Exception:
                msgs = []
            mine = [m for m in msgs if m.coding_object is ld.obj]
            if mine:
                try:
                    back = bytes(ld.layer.services[0].encode_request(**mine[0].param_dict))
                    if back != pdu:
                        fails.append(_fail("service-reencode-differs", f"{pdu.hex()} -> {back.hex()}", dict(case, pdu=pdu.hex())))
                except Exception as e:
                    fails.append(_fail("service-reencode-raises", f"{type(e).__name__}: {e}", dict(case, pdu=pdu.hex()),
                                       {"exc": mh.exc_key(e)}))
    if res is not None:
        res.note({"msg": case["msg"], "pdu": pdu.hex(), "request": rq}, nontriv, cls,
                 dig={"m": case["msg"], "p": pdu.hex(), "r": rq})
    return fails


def _small_leaf(msg, max_bits):
    for p in msg["params"]:
        if p["pk"] == "value" and p["dop"]["k"] == "simple":
            d = p["dop"]["dct"]
            if d["t"] == "std" and d["bt"] in refcodec.INT_TYPES and d["bl"] <= max_bits and d.get("mask") is None:
                return p
    return None


def eval_case(case, res: core.ShardResult | None = None, sweep_bits: int = 8) -> list:
    case = mh.norm_case(case)
    feats = set(case.get("features", []))
    cls = set(feats)
    if "pdu" in case and isinstance(case["pdu"], str):
        # replay of one concrete PDU
        ld = mh.Loaded(case)
        return _roundtrip(ld, case, bytes.fromhex(case["pdu"]), None, cls, False)
    try:
        ref = refcodec.encode_message(case["msg"], case["values"], case.get("request"))
    except (refcodec.RefReject, refcodec.RefUnsupported):
        if res is not None:
            res.classes["ref-rejects-generated-case"] += 1
        return []
    try:
        ld = mh.Loaded(case)
    except Exception as e:
        raise core.Inconclusive(f"in-envelope description rejected by the loader: {type(e).__name__}: {e}; "
                                f"case={json.dumps(core.plain(case))[:1500]}")
    fails = _roundtrip(ld, case, ref.pdu, res, cls, bool(feats & NT))
    if fails:
        return fails
    # exhaustive sweep of one small integer leaf
    leaf = _small_leaf(case["msg"], sweep_bits)
    if leaf is not None:
        dct = leaf["dop"]["dct"]
        lo, hi = refcodec.int_range(dct["bt"], dct.get("enc"), dct["bl"])
        for i in range(lo, hi + 1):
            try:
                phys = refcodec.i2p(leaf["dop"], i)
            except (refcodec.RefReject, refcodec.RefUnsupported):
                continue   # internal value outside the compu method's domain
            try:
                if refcodec.p2i(leaf["dop"], phys) != i:
                    continue   # not the canonical internal value of its physical value (text table ranges)
            except (refcodec.RefReject, refcodec.RefUnsupported):
                continue       # e.g. the default text of a text table has no inverse
            vals = dict(case["values"])
            vals[leaf["name"]] = phys
            try:
                r2 = refcodec.encode_message(case["msg"], vals, case.get("request"))
            except (refcodec.RefReject, refcodec.RefUnsupported):
                continue
            c2 = dict(case, values=vals)
            cls2 = set(cls)
            cls2.add("leaf-sweep")
            fs = _roundtrip(ld, c2, r2.pdu, res, cls2, bool(feats & NT) or i in (lo, hi, 0, -1))
            if fs:
                return fs
    return []


# ---------------------------------------------------------------------------
# compu-method clause: i2p then p2i is the identity on valid internal values of injective methods,
# observed at PDU level through a DATA-OBJECT-PROP (generator and exact reference of C07)
# ---------------------------------------------------------------------------
def eval_compu(case, res: core.ShardResult | None = None) -> list:
    from odxtools.decodestate import DecodeState
    from odxtools.encodestate import EncodeState
    from vlib import refcompu
    from vlib.checks import c07
    ir = case["cm"]
    if ir["it"] not in refcompu.INT_TYPES:
        return []
    bits = int(ir.get("bits", 8))
    if bits > 32:
        return []
    rc = refcompu.RefCompu(ir)
    try:
        dop, cm = c07.build_xml(ir)
    except Exception as e:
        raise core.Inconclusive(f"compu description rejected by the loader: {type(e).__name__}: {e}")
    nbytes = (bits + 7) // 8
    lo, hi = refcodec.int_range(ir["it"], None, bits)
    only = case.get("iv")
    fails = []
    if bits > 12 and only is None:
        # wide types are sampled: the domain's ends, zero, and the neighbourhood of every limit of the description
        import re as _re
        pts = {lo, lo + 1, hi - 1, hi, 0, 1, -1}
        for m_ in _re.findall(r'"v": "(-?\d+)"', json.dumps(ir)):
            x = int(m_)
            pts |= {x - 2, x - 1, x, x + 1, x + 2}
        sweep = sorted(p_ for p_ in pts if lo <= p_ <= hi)[:200]
    else:
        sweep = [only] if only is not None else range(lo, hi + 1)
    for v in sweep:
        try:
            if rc.valid_internal(v) is not True:
                continue
            if ir.get("cat") == "TEXTTABLE":
                # a text stands for a whole range of internal values; the PDU is canonical iff it carries the
                # value the text is encoded as (COMPU-INVERSE-VALUE, else the lower limit)
                if rc.p2i(rc.i2p(v).values[0]).exact() != v:
                    continue
            elif ir.get("cat") in ("LINEAR", "SCALE-LINEAR"):
                # judged point-wise (below: the reference's inverse of the observed physical value is exactly {v});
                # methods the ODX rules call non-invertible legitimately refuse to encode at all
                if len(rc.segs) > 1 and not rc.odx_invertible():
                    continue
                # (integer physical type: slopes below one quantise, C07's domain incl. its known finding on
                # OPEN limits after rounding; plateaus with a COMPU-INVERSE-VALUE are fine)
                if rc.pt not in refcompu.FLOAT_TYPES and any(0 < abs(sg.slope) < 1 for sg in rc.segs):
                    continue
            elif not rc.roundtrip_exact(v):
                continue
        except Exception:
            continue
        pdu = refcodec.int_to_raw(ir["it"], None, bits, v).to_bytes(nbytes, "big")
        with mh.quiet_warnings():
            try:
                ds = DecodeState(coded_message=pdu)
                phys = dop.decode_from_pdu(ds)
            except Exception:
                if res is not None:
                    res.rejected += 1
                continue
        # the reference's inverse of the observed physical value must be exactly {v}
        try:
            rb = rc.p2i(phys)
            if not rb.admits(v) or (rb.integer and len(rb.ints()) != 1):
                continue
        except Exception:
            continue
        cls = {"compu-clause", "cat:" + ir["cat"] if "cat" in ir else "compu"}
        if v < 0:
            cls.add("compu-negative-internal:" + str(ir.get("cat")))
        c2 = {"stage": "compu", "cm": ir, "iv": v}
        with mh.quiet_warnings():
            try:
                es = EncodeState()
                dop.encode_into_pdu(phys, es)
                back = bytes(es.coded_message)
                if back != pdu:
                    fails.append(core.Failure("compu-reencode-differs", f"{ir.get('cat')}: internal {v} -> {phys!r} -> "
                                              f"{back.hex()} != {pdu.hex()}", core.plain(c2),
                                              {"bucket": f"compu-reencode-differs:{ir.get('cat')}", "cat": ir.get("cat")}))
            except Exception as e:
                fails.append(core.Failure("compu-reencode-raises", f"{ir.get('cat')}: internal {v} decodes to {phys!r}, "
                                          f"encoding that raised {type(e).__name__}: {e}", core.plain(c2),
                                          {"bucket": f"compu-reencode-raises:{ir.get('cat')}", "cat": ir.get("cat"),
                                           "exc": mh.exc_key(e)}))
        if res is not None:
            res.accepted += 1
            res.note(c2, ir.get("cat") != "IDENTICAL" or v in (lo, hi), cls, sample=(len(res.samples) < 3))
        if fails:
            break
    return fails


def replay(case) -> list:
    if case.get("stage") == "compu":
        return eval_compu(case)
    return eval_case(case)


def shards(tier):
    return [("hyp", i) for i in range(12)] + [("compu", c) for c in
                                              ("LINEAR", "SCALE-LINEAR", "TAB-INTP", "TEXTTABLE", "RAT-FUNC", "SCALE-RAT-FUNC")]


def run_shard(spec, seed, tier):
    res = core.ShardResult()
    kf = known.load(PROPERTY)
    sweep = 8 if tier == "quick" else 12
    if spec[0] == "compu":
        from vlib.checks import c07
        strat = c07.strategies()[spec[1]]

        def cbody(case):
            out = []
            for f in eval_compu(case, res):
                k = known.match(kf, f)
                if k is not None:
                    res.known_hits[k["id"]] += 1
                else:
                    out.append(f)
            return out
        n = (400 if spec[1] in ("RAT-FUNC", "SCALE-RAT-FUNC", "SCALE-LINEAR") else 150) if tier == "quick" else 3000
        found = core.hyp_search(strat, cbody, seed, n, shrink_budget_s=30)
        if found:
            res.failures.extend(found)
        res.stages["compu"] = n
        res.exhaustive_subspaces.append("per compu method with an integer internal type of <= 12 bits: every internal value")
        return res

    def body(case):
        out = []
        for f in eval_case(case, res, sweep):
            k = known.match(kf, f)
            if k is not None:
                res.known_hits[k["id"]] += 1
            else:
                out.append(f)
        return out
    n = 400 if tier == "quick" else 5000
    # multiplexer cases are selected by name: a key inside a case's range other than its lower limit is not
    # recoverable from the decoded value, i.e. not canonical in the sense of the statement
    found = core.hyp_search(gen.message_case(opts={"mux_by_name_only": True, "mux_default": False}), body, seed, n, shrink_budget_s=30)
    if found:
        res.failures.extend(found)
    res.stages["hypothesis"] = n
    res.exhaustive_subspaces.append(f"per description: every internal value of the first integer leaf of <= {sweep} bits")
    return res
