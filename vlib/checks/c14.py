"""C14 — variant identification selects the first candidate whose pattern matches.

Domain: candidate lists of ECU variants (ECU-VARIANT-PATTERNs) or base variants
(BASE-VARIANT-PATTERN) loaded from generated ODX documents; identification services
with constant requests, one or two positive responses, negative and global negative
responses made of simple parameters, structures and static / dynamic-length /
end-of-pdu fields; out-parameters addressed by OUT-PARAM-IF-SNREF and
OUT-PARAM-IF-SNPATHREF; the ECU is a total function request bytes -> response bytes.
`VariantMatcher.request_loop()` <-> `evaluate()` is driven as a history, cache off and on.

Oracle: `vlib.models.matcher.ref_match` (independent reference decoding + matching).
"""
from __future__ import annotations

import io
import itertools
import random
import warnings

from vlib import core
from vlib.models import matcher as M

PROPERTY = "C14"
RULE = ("one evaluation = (description, candidate order, ECU function) driven through VariantMatcher with "
        "one cache mode; non-trivial = the reference outcome is decided (no ambiguous decoding) and "
        "(>=2 candidates and the matching candidate is not the first) or (a pattern with >=2 matching "
        "parameters fails only on its last one before the decision) or (an identification request is "
        "shared by matching parameters of >=2 candidates); distinct = digest of (description, order, ECU)")
ASSUMPTIONS = [
    "the reference decodes an ECU answer with a response only if every coded constant has its value and the "
    "answer is exactly as long as the response needs; answers that are longer, or that end inside a field "
    "item, are not judged (class skipped-ambiguous) — the statement does not say what is decoded then",
    "a matching parameter matches if the positive, negative or global negative response of its identification "
    "service that describes the answer holds the expected value at the referenced path (ISO 22901-1: the path "
    "is resolvable in at least one POS- or NEG-RESPONSE); a path that does not resolve does not match",
    "expected values are written canonically per type: decimal integers, the exact string, hex digits of a "
    "byte field (either case), a decimal numeral for floats (exactly representable values, >=0.25 apart), "
    "0x-prefixed hex for DTCs; a non-numeric expected value for a float parameter is outside the envelope; "
    "an empty EXPECTED-VALUE equals the empty string / the empty byte field of a leading-length parameter",
    "ECU answers are never empty (evaluate(b'') is indistinguishable from a missing evaluate() call by API design)",
    "python warnings are not turned into errors (warnings.simplefilter('ignore') around the matcher)",
    "DIAG-COMM-SNREF always resolves in the candidate, paths never end at a structure/field and never descend "
    "into a simple parameter (database errors raise in strict mode by design)",
    "EXPECTED-VALUE is compared as written in the document: leading, trailing and interior blanks of a string "
    "value are significant (blank padded fixed-length ASCII identification fields)",
    "a matcher whose request_loop() run was abandoned (loop left by break / an exception in the loop body, "
    "generator closed, exception thrown into it) has not identified anything: it must not answer has_match() "
    "== False for an ECU for which a candidate matches, and a complete request_loop() run on the same object "
    "afterwards reports what a fresh matcher reports (same deterministic ECU in both runs)",
    "a service of the variant shadows the inherited service of the same short name (ODX value inheritance)",
    "the yielded addressing flag is part of the request: for base variants USE-PHYSICAL-ADDRESSING (default "
    "true), for ECU variants always physical",
]
MUST_HIT = [
    "kind:ecu", "kind:base", "outcome:match", "outcome:nomatch", "decisive-not-first", "last-param-fail",
    "shared-request", "ref:snref", "ref:snpath", "via-struct", "via-field", "any-item-decisive",
    "all-vs-any-decisive", "first-vs-last-decisive", "any-pattern-decisive", "type:u8", "type:u16", "type:str",
    "type:bytes", "type:f32", "type:dtc", "type:lstr", "type:lbytes", "falsy-value-decisive", "expected:padded-string", "padding-decisive", "history:aborted-run",
    "history:rerun-with-match", "ans:pos", "ans:neg", "ans:mut", "ans:trunc", "local-override",
    "alias-service", "cache-saved-request", "match-via-neg", "two-pos", "phys:false", "wrong-const-answer",
]

LEAF_POOL = ["id", "ver", "num", "name", "type", "raw", "val", "dtc"]
VAR_POOL = LEAF_POOL + ["txt", "blob"]     # variable-length leaves: not inside field items
REQ_POOL = [[0x22, 0xF1, 0x00], [0x22, 0xF1, 0x01], [0x1A, 0xF1, 0x00], [0x22, 0xF1], [0x1A, 0x90],
            [0x22, 0xF2, 0x00], [0x09, 0xF1, 0x00], [0x22, 0xF1, 0x00, 0x00], [0x1A, 0xF1, 0x01], [0x09, 0x90]]


# ---------------------------------------------------------------------------
# odxtools side
# ---------------------------------------------------------------------------
def build_db(cfg):
    """-> {variant short name: diag layer}; exceptions of odxtools while loading a description
    inside the envelope are harness errors (C10/C09 own loading)"""
    from odxtools.database import Database
    xml = M.to_xml(cfg)
    db = Database()
    with warnings.catch_warnings():
        warnings.simplefilter("ignore")
        db.add_odx_file(io.BytesIO(xml))
        db.refresh()
    layers = db.ecu_variants if cfg["kind"] == "ecu" else db.base_variants
    return {dl.short_name: dl for dl in layers if dl.short_name != "COMMON"}


def _shim_bytes_requests(variants):
    """work-around used only after the recorded defect C14-cache-bytearray-key was hit: make the
    identification services return `bytes` (as the annotation of DiagService.encode_request says and
    as the repository's own matcher tests do), so that the cache clauses stay testable behind it"""
    for v in variants:
        for svc in v.services:
            if getattr(svc, "_c14_shim", False):
                continue
            orig = svc.encode_request
            svc.encode_request = (lambda _o=orig, **kw: bytes(_o(**kw)))
            svc._c14_shim = True


class _Transport(Exception):
    """fault injected by the harness into the loop body / thrown into the generator"""


FAULT_KINDS = ["break", "raise", "close", "throw"]


def abandon_run(m, cfg, ecu, fault):
    """first, unfinished request_loop() run on matcher m: the requests before position fault["pos"] are
    answered, the one at that position is not (the tester leaves the loop there).
    -> (aborted?, exception of odxtools or None)"""
    pos, kind = fault["pos"], fault["kind"]
    n = 0
    aborted = False
    with warnings.catch_warnings():
        warnings.simplefilter("ignore")
        try:
            if kind in ("break", "raise"):
                try:
                    for _phys, req in m.request_loop():
                        if n == pos:
                            aborted = True
                            if kind == "raise":
                                raise _Transport("no answer")
                            break
                        m.evaluate(M.ecu_answer(cfg, ecu, bytes(req)))
                        n += 1
                except _Transport:
                    pass
            else:
                it = m.request_loop()
                for _phys, req in it:
                    if n == pos:
                        aborted = True
                        if kind == "close":
                            it.close()
                        else:
                            try:
                                it.throw(_Transport("no answer"))
                            except _Transport:
                                pass
                        break
                    m.evaluate(M.ecu_answer(cfg, ecu, bytes(req)))
                    n += 1
                del it
        except M.ModelError:
            raise
        except Exception as e:
            return aborted, (type(e).__name__, str(e))
    return aborted, None


def drive(cands, cfg, ecu, use_cache, limit, fault=None):
    from odxtools.variantmatcher import VariantMatcher
    out = {"exc": None, "reqs": [], "runaway": False, "has": None, "idx": None, "aborted": False,
           "after_abort": None}
    with warnings.catch_warnings():
        warnings.simplefilter("ignore")
        try:
            m = VariantMatcher(list(cands), use_cache=use_cache)
        except Exception as e:
            out["exc"] = (type(e).__name__, str(e))
            return out
        if fault is not None:
            out["aborted"], exc = abandon_run(m, cfg, ecu, fault)
            if exc is not None:
                out["exc"] = exc
                return out
            try:
                out["after_abort"] = bool(m.has_match())
            except RuntimeError:
                out["after_abort"] = "pending"
            except Exception as e:
                out["exc"] = (type(e).__name__, str(e))
                return out
        try:
            it = m.request_loop()
        except Exception as e:
            out["exc"] = (type(e).__name__, str(e))
            return out
        while True:
            try:
                item = next(it)
            except StopIteration:
                break
            except Exception as e:
                out["exc"] = (type(e).__name__, str(e))
                return out
            phys, req = item
            out["reqs"].append((bool(phys), bytes(req)))
            if len(out["reqs"]) > limit:
                out["runaway"] = True
                return out
            ans = M.ecu_answer(cfg, ecu, bytes(req))
            try:
                m.evaluate(ans)
            except Exception as e:
                out["exc"] = (type(e).__name__, str(e))
                return out
        try:
            out["has"] = bool(m.has_match())
            mv = m.matching_variant
        except Exception as e:
            out["exc"] = (type(e).__name__, str(e))
            return out
    if mv is not None:
        pos = [i for i, c in enumerate(cands) if c is mv]
        out["idx"] = pos[0] if pos else -1
    return out


# ---------------------------------------------------------------------------
# oracle
# ---------------------------------------------------------------------------
def _mk(clause, detail, case, bucket, **feat):
    f = dict(feat)
    f["bucket"] = bucket
    return core.Failure(clause=clause, detail=detail, case=case, features=f)


def evaluate(cfg, layers, order, ecu, fault=None):
    """-> (failures, classes, nontrivial, evaluations)"""
    case = {"cfg": cfg, "order": list(order), "ecu": ecu}
    if fault is not None:
        case["fault"] = fault
    cands = [layers[cfg["variants"][i]["sn"]] for i in order]
    ref = M.ref_match(cfg, order, ecu)
    ident = M.ident_requests(cfg, order)
    ident_bytes = {r for _, r in ident}
    n_params = sum(len(p) for i in order for p in cfg["variants"][i]["patterns"])
    limit = 4 * n_params + 8
    fails = []
    classes = set()
    runs = {}
    for use_cache in (False, True):
        r = drive(cands, cfg, ecu, use_cache, limit)
        if (r["exc"] is not None and use_cache and r["exc"][0] == "TypeError"
                and "unhashable type: 'bytearray'" in r["exc"][1]):
            fails.append(_mk("exception", f"cache on: {r['exc'][0]}: {r['exc'][1]}", case,
                             "cache-bytearray-key", exc=r["exc"][0], msg=r["exc"][1], cache=True))
            _shim_bytes_requests(layers.values())
            r = drive(cands, cfg, ecu, use_cache, limit)
        tag = "cache on" if use_cache else "cache off"
        if r["exc"] is not None:
            fails.append(_mk("exception", f"{tag}: {r['exc'][0]}: {r['exc'][1]}", case,
                             f"exception:{r['exc'][0]}", exc=r["exc"][0], msg=r["exc"][1], cache=use_cache))
            continue
        if r["runaway"]:
            fails.append(_mk("termination", f"{tag}: more than {limit} requests for {n_params} matching parameters",
                             case, "runaway", cache=use_cache))
            continue
        runs[use_cache] = r
        if r["has"] != (r["idx"] is not None) or r["idx"] == -1:
            fails.append(_mk("report-consistency",
                             f"{tag}: has_match()={r['has']} but matching_variant index {r['idx']}", case,
                             "has-vs-variant", cache=use_cache))
        if not ref["amb"] and r["idx"] != ref["match"]:
            kind = ("missed" if r["idx"] is None else "spurious" if ref["match"] is None else
                    "later-candidate" if r["idx"] > ref["match"] else "earlier-candidate")
            len_ref = M.ref_match(cfg, order, ecu, lenient=True)
            explained = (not len_ref["amb"]) and len_ref["match"] == r["idx"]
            fails.append(_mk(
                "outcome",
                f"{tag}: matcher reports candidate {r['idx']}, reference {ref['match']} "
                f"(order {list(order)}, requests {[q.hex() for _, q in r['reqs']]})", case,
                "coded-const-mismatch-decoded" if explained else f"outcome:{kind}",
                kind=kind, lenient_explains=explained, cache=use_cache))
        for phys, req in r["reqs"]:
            if (phys, req) not in ident:
                sub = "addressing" if req in ident_bytes else "bytes"
                fails.append(_mk("foreign-request",
                                 f"{tag}: yielded ({phys}, {req.hex()}) is no identification request of a candidate",
                                 case, f"foreign:{sub}", cache=use_cache))
                break
        if use_cache:
            seen = [q for _, q in r["reqs"]]
            if len(set(seen)) != len(seen):
                fails.append(_mk("duplicate-request", f"cache on: requests {[q.hex() for q in seen]}", case,
                                 "duplicate", cache=True))
    if False in runs and True in runs:
        a, b = runs[False], runs[True]
        if (a["has"], a["idx"]) != (b["has"], b["idx"]):
            fails.append(_mk("cache-dependence",
                             f"cache off -> {a['idx']}, cache on -> {b['idx']}", case, "cache-dependence"))
        if len(b["reqs"]) < len(a["reqs"]):
            classes.add("cache-saved-request")
    # ---- history: an abandoned first run, then a complete run on the same matcher object --------
    n_eval = 2
    if fault is not None:
        for use_cache in (False, True):
            tag = f"history ({fault['kind']} at request {fault['pos']}, cache {'on' if use_cache else 'off'})"
            r = drive(cands, cfg, ecu, use_cache, limit, fault=fault)
            n_eval += 1
            if r["exc"] is not None:
                fails.append(_mk("exception", f"{tag}: {r['exc'][0]}: {r['exc'][1]}", case,
                                 f"history-exception:{r['exc'][0]}", exc=r["exc"][0], msg=r["exc"][1],
                                 cache=use_cache, history=True))
                continue
            if r["runaway"]:
                fails.append(_mk("termination", f"{tag}: more than {limit} requests", case, "history-runaway"))
                continue
            if not r["aborted"]:
                continue                      # the first run was complete: nothing new
            classes.add("history:aborted-run")
            if not ref["amb"] and ref["match"] is not None:
                classes.add("history:rerun-with-match")
                if r["after_abort"] is False:
                    fails.append(_mk("history-premature-report",
                                     f"{tag}: has_match() answers False after the unfinished run although candidate "
                                     f"{ref['match']} matches", case, "history:premature-no-match", cache=use_cache))
            want = ref["match"] if not ref["amb"] else (runs[use_cache]["idx"] if use_cache in runs else "?")
            if want != "?" and r["idx"] != want:
                fails.append(_mk("history-outcome",
                                 f"{tag}: the re-run reports candidate {r['idx']}, a fresh matcher / the reference "
                                 f"{want}", case, "history:rerun-differs", cache=use_cache))
            for phys, req in r["reqs"]:
                if (phys, req) not in ident:
                    fails.append(_mk("foreign-request", f"{tag}: yielded ({phys}, {req.hex()})", case,
                                     "history-foreign", cache=use_cache))
                    break
    # ---- classes / non-triviality (reference only) -------------------------
    classes |= _classes(cfg, order, ecu, ref)
    nontrivial = (not ref["amb"]) and ((len(order) >= 2 and ref["decisive_not_first"]) or
                                       ref["last_param_fail"] or ref["shared"])
    return fails, classes, nontrivial, n_eval


def _classes(cfg, order, ecu, ref):
    cl = {f"kind:{cfg['kind']}", f"n-cands:{len(order)}"}
    if ref["amb"]:
        cl.add("skipped-ambiguous")
        return cl
    cl.add("outcome:match" if ref["match"] is not None else "outcome:nomatch")
    if ref["decisive_not_first"]:
        cl.add("decisive-not-first")
    if ref["last_param_fail"]:
        cl.add("last-param-fail")
    if ref["shared"]:
        cl.add("shared-request")
    for alt, name in (("first_item", "any-item-decisive"), ("any_param", "all-vs-any-decisive"),
                      ("last_match", "first-vs-last-decisive"), ("first_pattern", "any-pattern-decisive"),
                      ("pos_only", "match-via-neg"), ("falsy_absent", "falsy-value-decisive"), ("strip_expected", "padding-decisive")):
        a = M.ref_match(cfg, order, ecu, alt=alt)
        if a["match"] != ref["match"]:
            cl.add(name)
    lr = M.ref_match(cfg, order, ecu, lenient=True)
    if lr["amb"] or lr["match"] != ref["match"]:
        cl.add("wrong-const-answer")
    reqs = set()
    for vi in order:
        v = cfg["variants"][vi]
        if v.get("services"):
            cl.add("local-override")
        if not v["patterns"]:
            cl.add("zero-patterns")
        for pat in v["patterns"]:
            cl.add(f"n-params:{len(pat)}")
            for mp in pat:
                svc = M.resolve_service(cfg, v, mp["svc"])
                reqs.add(bytes(svc["req"]))
                chunks = M.mp_chunks(mp)
                cl.add("ref:snref" if mp.get("snref") is not None else "ref:snpath")
                if mp["exp"] != mp["exp"].strip():
                    cl.add("expected:padded-string")
                elif " " in mp["exp"]:
                    cl.add("expected:interior-blank")
                if cfg["kind"] == "base" and mp.get("phys") is False:
                    cl.add("phys:false")
                if len(svc["pos"]) >= 2:
                    cl.add("two-pos")
                resolved = False
                for key in M.service_layout_keys(cfg, svc):
                    kinds = _path_kinds(cfg["layouts"][key], chunks)
                    if kinds is None:
                        continue
                    resolved = True
                    cl.add(f"type:{kinds[-1]}")
                    if "struct" in kinds:
                        cl.add("via-struct")
                    if any(k in ("sfield", "dlfield", "eopf") for k in kinds):
                        cl.add("via-field")
                    for k in kinds[:-1]:
                        cl.add(f"through:{k}")
                if not resolved:
                    cl.add("path-unresolvable")
    names = {}
    for s in M.all_services(cfg):
        names.setdefault(bytes(s["req"]), set()).add(s["sn"])
    if any(len(n) >= 2 and r in reqs for r, n in names.items()):
        cl.add("alias-service")
    for r in reqs:
        ans = ecu["map"].get(r.hex(), ecu["default"])
        k = ans["k"]
        if k == "resp":
            k = "neg" if cfg["layouts"][ans["layout"]][0]["v"] == 0x7F else "pos"
        cl.add(f"ans:{k}")
    return cl


def _path_kinds(nodes, chunks):
    node = next((p for p in nodes if p["n"] == chunks[0]), None)
    if node is None or node["t"] == "const":
        return None
    if M.is_leaf(node):
        return [node["t"]] if len(chunks) == 1 else None
    if len(chunks) == 1:
        return None
    sub = _path_kinds(node["ps"], chunks[1:])
    return None if sub is None else [node["t"]] + sub


def replay(case) -> list:
    case = core.unjson(case)
    cfg = case["cfg"]
    layers = build_db(cfg)
    fails, _, _, _ = evaluate(cfg, layers, case["order"], case["ecu"], case.get("fault"))
    for f in fails:
        f.case = core.plain(f.case)
    return fails


# ---------------------------------------------------------------------------
# generators
# ---------------------------------------------------------------------------
def _const(n, v):
    return {"n": n, "t": "const", "v": v}


def _leaf(n):
    return {"n": n, "t": M.NAME_TYPE[n]}


def _strategies():
    from hypothesis import strategies as st

    def leaves(lo, hi, pool=LEAF_POOL):
        return st.lists(st.sampled_from(pool), min_size=lo, max_size=hi, unique=True).map(
            lambda ns: [_leaf(n) for n in ns])

    @st.composite
    def struct_body(draw, depth):
        ps = draw(leaves(1, 2, VAR_POOL))
        if depth > 0 and draw(st.integers(0, 3)) == 0:
            inner = draw(st.sampled_from(["struct", "sfield", "dlfield"]))
            if inner == "struct":
                ps.append({"n": "sub", "t": "struct", "ps": draw(struct_body(depth - 1))})
            elif inner == "sfield":
                ps.append({"n": "lst", "t": "sfield", "count": draw(st.integers(1, 2)), "ps": draw(leaves(1, 2))})
            else:
                ps.append({"n": "lst", "t": "dlfield", "ps": draw(leaves(1, 2))})
        return ps

    @st.composite
    def item_body(draw):
        ps = draw(leaves(1, 2))
        if draw(st.integers(0, 3)) == 0:
            ps.append({"n": "sub", "t": "struct", "ps": draw(leaves(1, 2))})
        return ps

    @st.composite
    def pos_layout(draw, sid, sub):
        nodes = [_const("sid", (sid + 0x40) & 0xFF)]
        if sub is not None:
            nodes.append(_const("subfn", sub))
        kinds = draw(st.lists(st.sampled_from(["leaf", "leaf", "leaf", "struct", "struct", "field", "field"]),
                              min_size=1, max_size=3))
        used = set()
        for k in kinds:
            if k == "leaf":
                n = draw(st.sampled_from(VAR_POOL))
                if n in used:
                    continue
                nodes.append(_leaf(n))
            elif k == "struct":
                n = draw(st.sampled_from(["info", "blk"]))
                if n in used:
                    continue
                nodes.append({"n": n, "t": "struct", "ps": draw(struct_body(1))})
            else:
                n = draw(st.sampled_from(["arr", "items"]))
                if n in used:
                    continue
                if draw(st.booleans()):
                    nodes.append({"n": n, "t": "sfield", "count": draw(st.integers(1, 2)), "ps": draw(item_body())})
                else:
                    nodes.append({"n": n, "t": "dlfield", "ps": draw(item_body())})
            used.add(n)
        if draw(st.integers(0, 3)) == 0:
            nodes.append({"n": "tail", "t": "eopf", "ps": draw(item_body())})
        return nodes

    def values_for(nodes, req_sid):
        """strategy for a value assignment of a layout"""
        parts = {}
        for p in nodes:
            t = p["t"]
            if t == "const":
                continue
            if t in M.LEAF_SIZE:
                vals = list(M.VALUES[t])
                if p["n"] == "rsid":
                    vals = [req_sid, req_sid, 5]
                parts[p["n"]] = st.sampled_from(vals)
            elif t == "struct":
                parts[p["n"]] = values_for(p["ps"], req_sid)
            elif t == "sfield":
                parts[p["n"]] = st.lists(values_for(p["ps"], req_sid), min_size=p["count"], max_size=p["count"])
            else:
                parts[p["n"]] = st.lists(values_for(p["ps"], req_sid), min_size=0, max_size=2)
        return st.fixed_dictionaries(parts)

    @st.composite
    def one_mp(draw, cfg, v, names):
        layouts = cfg["layouts"]
        sn = draw(st.sampled_from(names))
        svc = M.resolve_service(cfg, v, sn)
        paths = []
        for key in M.service_layout_keys(cfg, svc):
            for pth in M.leaf_paths(layouts[key]):
                if pth not in paths and pth[0][-1] != "rsid":
                    paths.append(pth)
        if draw(st.integers(0, 11)) == 0:
            others = [pth for key in sorted(layouts) for pth in M.leaf_paths(layouts[key])]
            path, t = draw(st.sampled_from(others))
        else:
            path, t = draw(st.sampled_from(paths))
        good = [e for e in M.EXPECTED[t] if M.parse_expected(t, e) in M.VALUES[t]]
        exp = draw(st.sampled_from(good)) if draw(st.integers(0, 4)) else draw(st.sampled_from(M.EXPECTED[t]))
        mp = {"exp": exp, "svc": sn}
        if len(path) == 1 and draw(st.booleans()):
            mp["snref"] = path[0]
        else:
            mp["snpath"] = ".".join(path)
        if cfg["kind"] == "base":
            mp["phys"] = draw(st.sampled_from([None, True, False]))
        return mp

    @st.composite
    def cases(draw, n_ecus):
        kind = draw(st.sampled_from(["ecu", "ecu", "base"]))
        layouts = {}
        common = {"services": [], "gneg": []}
        n_svc = draw(st.integers(1, 3))
        sids = {}
        # distinct requests that share prefixes, suffixes and differ in single bytes
        req_idx = draw(st.lists(st.integers(0, len(REQ_POOL) - 1), unique=True, min_size=n_svc, max_size=n_svc))
        used_req = set(req_idx)
        for k in range(n_svc):
            req_k = REQ_POOL[req_idx[k]]
            sid = req_k[0]
            sids[k] = sid
            npos = draw(st.sampled_from([1, 1, 2]))
            pos = []
            for j in range(npos):
                key = f"S{k}p{j}"
                layouts[key] = draw(pos_layout(sid, (j + 1) if npos == 2 else None))
                pos.append(key)
            neg = []
            if draw(st.integers(0, 2)) > 0:
                key = f"S{k}n"
                layouts[key] = [_const("sid", 0x7F), _const("rs", sid),
                                _leaf(draw(st.sampled_from(["nrc", "nrc", "id", "ver"])))]
                neg.append(key)
            common["services"].append({"sn": f"S{k}", "req": list(req_k), "pos": pos, "neg": neg})
        if draw(st.integers(0, 2)) == 0:
            layouts["g"] = [_const("sid", 0x7F), _leaf("rsid"), _leaf(draw(st.sampled_from(["gnrc", "nrc"])))]
            common["gneg"] = ["g"]
        if draw(st.integers(0, 3)) == 0:
            src = common["services"][draw(st.integers(0, n_svc - 1))]
            common["services"].append({"sn": src["sn"] + "b", "req": list(src["req"]),
                                       "pos": list(src["pos"]), "neg": list(src["neg"])})
        # overriding services (same short name, other request), one definition per common service
        overrides = {}
        for k in range(n_svc):
            free = [i for i, r in enumerate(REQ_POOL) if r[0] == sids[k] and i not in used_req]
            if free and draw(st.integers(0, 2)) == 0:
                base = common["services"][k]
                oi = draw(st.sampled_from(free))
                used_req.add(oi)
                if draw(st.booleans()):
                    pos, neg = list(base["pos"]), list(base["neg"])
                else:
                    key = f"O{k}p0"
                    layouts[key] = draw(pos_layout(sids[k], None))
                    pos, neg = [key], []
                overrides[k] = {"sn": f"S{k}", "req": list(REQ_POOL[oi]), "pos": pos, "neg": neg}
        cfg = {"kind": kind, "layouts": layouts, "common": common, "variants": []}
        n_var = draw(st.sampled_from([2, 3, 4, 1, 2, 3, 4, 3, 4, 0, 3, 4]))
        for i in range(n_var):
            v = {"sn": f"V{i}", "services": [], "patterns": []}
            for k, o in sorted(overrides.items()):
                if draw(st.integers(0, 2)) == 0:
                    v["services"].append(o)
            names = sorted({s["sn"] for s in common["services"]})
            n_pat = draw(st.sampled_from([1, 2, 1, 3, 0, 2])) if kind == "ecu" else draw(st.sampled_from([1, 1, 0, 1, 1]))
            for _ in range(n_pat):
                earlier = [p for w in cfg["variants"] for p in w["patterns"]] + v["patterns"]
                if earlier and draw(st.integers(0, 9)) < 3:
                    # a pattern of an earlier candidate again, possibly differing in its last parameter
                    pat = [dict(mp) for mp in draw(st.sampled_from(earlier))]
                    if draw(st.booleans()):
                        pat[-1] = draw(one_mp(cfg, v, names))
                    v["patterns"].append(pat)
                    continue
                pat = []
                for _ in range(draw(st.sampled_from([1, 1, 2, 2, 3]))):
                    pat.append(draw(one_mp(cfg, v, names)))
                v["patterns"].append(pat)
            cfg["variants"].append(v)
        order = draw(st.one_of(
            st.just(list(range(n_var))),
            st.permutations(list(range(n_var))),
            st.permutations(list(range(n_var))),
            st.lists(st.integers(0, max(n_var - 1, 0)), unique=True, min_size=1, max_size=n_var) if n_var else st.just([])))
        order = list(order)
        # ---- ECUs ------------------------------------------------------------
        by_req = {}
        for s in M.all_services(cfg):
            by_req.setdefault(bytes(s["req"]).hex(), s)
        ecus = []
        for _ in range(n_ecus):
            ecu = {"map": {}, "default": {"k": "raw", "data": [0x7F, 0x00, 0x11]}}
            vals = {}
            for rq, s in sorted(by_req.items()):
                for key in M.service_layout_keys(cfg, s):
                    vals[(rq, key)] = draw(values_for(layouts[key], s["req"][0]))
            # steer the ECU towards one or two patterns of the candidates (so that matches, and
            # matches of several candidates, are not rare)
            forced = {}
            if order:
                for _ in range(draw(st.sampled_from([0, 1, 1, 1, 2, 2]))):
                    v = cfg["variants"][order[draw(st.integers(0, len(order) - 1))]]
                    if v["patterns"]:
                        pat = v["patterns"][draw(st.integers(0, len(v["patterns"]) - 1))]
                        last_item = draw(st.booleans())
                        for mp in pat:
                            _steer(cfg, v, mp, vals, forced, last_item)
            for rq, s in sorted(by_req.items()):
                keys = M.service_layout_keys(cfg, s)
                negs = [k for k in keys if layouts[k][0]["v"] == 0x7F]
                if rq in forced:
                    kinds = ["forced"] * 8 + ["mut", "mut", "trunc"]
                else:
                    kinds = ["pos"] * 6 + ["mut", "trunc", "raw"] + (["neg", "neg"] if negs else [])
                k = draw(st.sampled_from(kinds))
                if k in ("pos", "neg", "forced"):
                    key = forced[rq] if k == "forced" else draw(st.sampled_from(s["pos"] if k == "pos" else negs))
                    ans = {"k": "resp", "layout": key, "v": vals[(rq, key)]}
                elif k == "mut":
                    key = forced.get(rq) or draw(st.sampled_from(keys))
                    first = draw(st.sampled_from([0x00, 0x7E, (s["req"][0] + 0x41) & 0xFF, s["req"][0]]))
                    ans = {"k": "mut", "layout": key, "v": vals[(rq, key)], "first": first}
                elif k == "trunc":
                    key = forced.get(rq) or draw(st.sampled_from(s["pos"]))
                    full = len(M.encode_nodes(layouts[key], vals[(rq, key)]))
                    ans = {"k": "trunc", "layout": key, "v": vals[(rq, key)],
                           "len": draw(st.integers(1, max(1, min(3, full - 1))))}
                else:
                    data = draw(st.lists(st.sampled_from([0x7F, (s["req"][0] + 0x40) & 0xFF, s["req"][0], 0x00, 0x05, 0x41]),
                                         min_size=1, max_size=4))
                    ans = {"k": "raw", "data": data}
                ecu["map"][rq] = ans
            ecus.append(ecu)
        faults = [{"pos": draw(st.sampled_from([0, 0, 1, 1, 2, 3])), "kind": draw(st.sampled_from(FAULT_KINDS))}
                  for _ in ecus]
        return {"cfg": cfg, "order": order, "ecus": ecus, "faults": faults}

    return cases


def _steer(cfg, variant, mp, vals, forced, last_item):
    svc = M.resolve_service(cfg, variant, mp["svc"])
    rq = bytes(svc["req"]).hex()
    chunks = M.mp_chunks(mp)
    for key in M.service_layout_keys(cfg, svc):
        nodes = cfg["layouts"][key]
        kinds = _path_kinds(nodes, chunks)
        if kinds is None:
            continue
        want = M.parse_expected(kinds[-1], mp["exp"])
        if want is None or want not in M.VALUES[kinds[-1]]:
            return
        v = vals[(rq, key)]
        ok = True
        for c, k in zip(chunks[:-1], kinds[:-1]):
            v = v[c]
            if k != "struct":
                if not v:
                    ok = False
                    break
                v = v[-1] if last_item else v[0]
        if not ok:
            return
        v[chunks[-1]] = want
        forced[rq] = key
        return


# ---------------------------------------------------------------------------
# exhaustive catalogue
# ---------------------------------------------------------------------------
def catalogue(kind="ecu"):
    L = _leaf
    layouts = {
        "p0": [_const("sid", 0x62), L("id"), {"n": "info", "t": "struct", "ps": [L("type"), L("ver")]}],
        "n0": [_const("sid", 0x7F), _const("rs", 0x22), L("nrc")],
        "p1": [_const("sid", 0x62), {"n": "items", "t": "eopf", "ps": [L("type"), L("ver")]}],
        "g": [_const("sid", 0x7F), L("rsid"), L("gnrc")],
    }
    common = {"services": [
        {"sn": "S0", "req": [0x22, 0xF1, 0], "pos": ["p0"], "neg": ["n0"]},
        {"sn": "S1", "req": [0x22, 0xF1, 1], "pos": ["p1"], "neg": []},
        {"sn": "S0b", "req": [0x22, 0xF1, 0], "pos": ["p0"], "neg": ["n0"]},
    ], "gneg": ["g"]}

    def mp(exp, svc, path, phys=None):
        d = {"exp": exp, "svc": svc}
        if "." in path:
            d["snpath"] = path
        else:
            d["snref"] = path
        if kind == "base":
            d["phys"] = phys
        return d

    pats = [
        [[mp("5", "S0", "id")]],
        [[mp("34", "S0", "id")], [mp("CD", "S0", "info.type", False)]],
        [[mp("5", "S0", "id", True), mp("AB", "S1", "items.type", False)]],
        [[mp("AB", "S1", "items.type"), mp("34", "S1", "items.ver")]],
        [],
        [[mp("34", "S0", "nrc")]],
        [[mp("AB", "S0", "info.type"), mp("5", "S0", "info.ver"), mp("34", "S0", "id")]],
        [[mp("CD", "S1", "items.type")], [mp("34", "S0", "id", False), mp("5", "S0", "info.ver")]],
        [[mp("0", "S0", "id")]],              # V8: overrides S0 (other request bytes); expects the falsy value 0
        [[mp("5", "S0b", "id", False)]],      # V9: alias service, same request bytes as S0
        [[mp("34", "S1", "gnrc")]],           # V10: global negative response of S1
    ]
    variants = []
    for i, ps in enumerate(pats):
        if kind == "base":
            ps = ps[-1:]
        v = {"sn": f"V{i}", "services": [], "patterns": ps}
        if i == 8:
            v["services"] = [{"sn": "S0", "req": [0x22, 0xF2, 0], "pos": ["p0"], "neg": ["n0"]}]
        variants.append(v)
    cfg = {"kind": kind, "layouts": layouts, "common": common, "variants": variants}

    def p0(i, t, v):
        return {"k": "resp", "layout": "p0", "v": {"id": i, "info": {"type": t, "ver": v}}}

    a0 = [p0(5, "AB", 5), p0(34, "AB", 5), p0(5, "CD", 34),
          {"k": "resp", "layout": "n0", "v": {"nrc": 34}},
          {"k": "mut", "layout": "p0", "v": {"id": 34, "info": {"type": "CD", "ver": 5}}, "first": 0x63}]

    def p1(*items):
        return {"k": "resp", "layout": "p1", "v": {"items": [{"type": t, "ver": v} for t, v in items]}}

    a1 = [p1(), p1(("AB", 5)), p1(("CD", 5), ("AB", 34)),
          {"k": "resp", "layout": "g", "v": {"rsid": 0x22, "gnrc": 34}},
          {"k": "trunc", "layout": "p1", "v": {"items": [{"type": "AB", "ver": 34}]}, "len": 1}]
    a2 = [p0(0, "AB", 34), {"k": "resp", "layout": "n0", "v": {"nrc": 5}}]
    ecus = []
    for x, y, z in itertools.product(a0, a1, a2):
        ecus.append({"map": {"22f100": x, "22f101": y, "22f200": z},
                     "default": {"k": "raw", "data": [0x7F, 0x00, 0x11]}})
    return cfg, ecus


def _orders(n, maxlen):
    for k in range(0, maxlen + 1):
        yield from itertools.permutations(range(n), k)


# ---------------------------------------------------------------------------
# shards
# ---------------------------------------------------------------------------
def shards(tier):
    out = []
    nh = 8 if tier == "quick" else 16
    for i in range(nh):
        out.append(("hyp", i))
    n = len(catalogue()[0]["variants"])
    for kind in ("ecu", "base"):
        for first in range(-1, n):
            out.append(("enum", kind, first))
    return out


def _handle(res, kf, fails):
    """split failures into known (counted) and new"""
    from vlib import known
    new = []
    for f in fails:
        k = known.match(kf, f)
        if k is not None:
            res.known_hits[k["id"]] += 1
        else:
            f.case = core.plain(f.case)
            new.append(f)
    return new


def run_shard(spec, seed, tier):
    from vlib import known
    res = core.ShardResult()
    kf = known.load(PROPERTY)
    if spec[0] == "enum":
        _, kind, first = spec
        cfg, ecus = catalogue(kind)
        layers = build_db(cfg)
        n = len(cfg["variants"])
        maxlen = 3
        rnd = random.Random(seed)
        total = 0
        buckets = set()
        for order in _orders(n, maxlen):
            if (order[0] if order else -1) != first:
                continue
            # quick: all orders of length <= 2 exhaustively, a seeded third of the length-3 orders
            if tier == "quick" and len(order) == 3 and rnd.random() > 0.34:
                continue
            for ei, ecu in enumerate(ecus):
                fault = None
                if ei % 4 == (len(order) + sum(order)) % 4:
                    fault = {"pos": (ei // 4 + sum(order)) % 3, "kind": FAULT_KINDS[(ei // 4 + len(order)) % 4]}
                fails, classes, nontrivial, k = evaluate(cfg, layers, list(order), ecu, fault)
                total += k
                res.note({"catalogue": kind, "order": list(order), "ecu": ei}, nontrivial, classes,
                         sample=(total % 1999 == 1), n=k)
                for f in _handle(res, kf, fails):
                    if f.bucket() not in buckets:
                        buckets.add(f.bucket())
                        res.failures.append(f)
        res.stages["enumeration"] = total
        depth = "<= 2 (all) and 3 (seeded third)" if tier == "quick" else "<= 3"
        res.exhaustive_subspaces.append(
            f"catalogue of {n} {kind} variants: all ordered candidate lists of distinct variants of length "
            f"{depth} x all {len(ecus)} ECU functions x cache off/on")
        return res
    cases = _strategies()
    n_ecus = 4
    n = 300 if tier == "quick" else 2000

    def body(case):
        cfg = case["cfg"]
        layers = build_db(cfg)
        new = []
        for ecu, fault in zip(case["ecus"], case["faults"]):
            fails, classes, nontrivial, k = evaluate(cfg, layers, case["order"], ecu, fault)
            res.note({"cfg": cfg, "order": case["order"], "ecu": ecu, "fault": fault}, nontrivial, classes, n=k)
            new.extend(_handle(res, kf, fails))
        return new

    found = core.hyp_search(cases(n_ecus), body, seed, n)
    if found:
        res.failures.extend(found)
    res.stages["hypothesis"] = n
    return res
