"""C07 — compu methods compute the mathematically specified conversion.

Domain: compu methods of all categories as a JSON-able IR (vlib/refcompu.py), loaded into
odxtools twice — by constructing the dataclasses directly and through a DATA-OBJECT-PROP of a
minimal ODX document (`Database.add_odx_file` + `refresh`, i.e. all the `from_et` parsers) —
and compared value by value with the exact Fraction reference.  Internal values: all 256 values
of 8-bit internal domains (exhaustive per method), boundary / neighbour / drawn values of wide and
float domains, wrongly typed values.  Physical values: the observed images, every integer of the
physical image range +-2, exact images of the limits, drawn values, unknown texts.
"""
from __future__ import annotations

import io
import math
import struct
from fractions import Fraction as F
from xml.etree import ElementTree as ET

from vlib import core, refcompu
from vlib.refcompu import (FLOAT_TYPES, INT_TYPES, NUM_TYPES, STR_TYPES, Invalid, NotInvertible,
                           RefCompu, Unspecified)

PROPERTY = "C07"
RULE = ("one evaluation = one (compu method, value, load path) triple judged by the oracle clauses; "
        "compu methods come from per-category Hypothesis strategies (types, coefficients, 1..4 scales, "
        "OPEN/CLOSED/INFINITE/absent limits, defaults, inverse values), internal values are all 256 "
        "values of 8-bit domains plus boundary/drawn values otherwise, physical values the images, "
        "the integers of the image range +-2, limit images and drawn values; non-trivial = the method "
        "is not IDENTICAL or the value is within 1 of a limit; distinct = digest of (method, "
        "direction, value)")
ASSUMPTIONS = [
    "a Python int is an admissible value of a float-typed internal/physical type (DataType.isinstance); a float offered to an integer-typed side is not judged; bool, NaN and infinities are never generated",
    "limit values and table points of float-typed domains denote the double nearest to their text; coefficient texts denote their exact decimal value and the double rounding of coefficients is covered by the tolerance (DESIGN 2.4: 64 ulp(double) of the condition magnitude + 4 ulp of the target float width)",
    "integer results: any integer n with |n - exact| <= 1/2 + float tolerance is accepted (both neighbours on ties); the round trip is demanded only up to that set; the result of an integer-typed side must be a Python int (2.0 is not an integer result); an int returned for a float-typed side is accepted (ints are admissible floats)",
    "a COMPU-SCALE of a linear/rational method with exactly one limit element can be read as a single point or as a half-bounded interval; values on which the two readings differ are not judged and no physical-side clause is evaluated for such methods",
    "overlapping scales: linear and rational methods use the first applicable scale (DESIGN 2.4); overlapping text-table scales and texts naming several scales are not judged (E16)",
    "is_valid_physical_value is judged only where the statement fixes it: images of valid internal values of injective methods, exact preimages outside the declared limits (limits honour OPEN/CLOSED), explicitly declared inverse scales of rational methods, text tables without default, images under monotone continuous SCALE-LINEAR methods",
    "text tables: with a default text every internal value converts, whether it is then 'declared valid' is not judged; wrongly typed values are not judged for text tables; elsewhere an OdxError out of is_valid_* for a wrongly typed value counts as 'declared invalid'",
    "a declared inverse rational scale whose denominator has a root inside its limits is outside the envelope (generator avoids it, a pole met anyway is not judged)",
    "negative images of an A_UINT32 physical type are outside the envelope (not judged for validity)",
    "zero-slope scales carry a COMPU-INVERSE-VALUE (ODX rule); the physical validity of constants is judged only through 'a monotone continuous method can always encode'",
    "COMPUCODE is never valid (E15): only checked for declaring nothing valid",
    "byte-field ordering of compare_odx_values is not asserted; compare/limit checks use numbers up to 2^32 and short strings",
]
MUST_HIT = ["cat:IDENTICAL", "cat:LINEAR", "cat:SCALE-LINEAR", "cat:TEXTTABLE", "cat:TAB-INTP",
            "cat:RAT-FUNC", "cat:SCALE-RAT-FUNC", "path:direct", "path:xml", "domain:8bit-exhaustive",
            "limit:OPEN", "limit:CLOSED", "limit:INFINITE", "limit:absent", "scale-linear:monotone-continuous",
            "roundtrip", "tie", "it:int", "it:float", "pt:int", "pt:float", "valid-internal:false",
            "valid-internal:true", "valid-physical:true", "valid-physical:false", "clause:mc-encode",
            "texttable:default-i2p", "texttable:default-p2i", "ratfunc:with-inverse", "tabintp:int-result",
            "dop:decode", "dop:encode", "wrong-type", "compare", "ratfunc:roundtrip", "texttable:roundtrip",
            "tabintp:descending", "tabintp:flat", "one-sided-scale",
            "scale-linear:sign-change-across-zero", "scale-linear:plateau-monotone", "scale-linear:direct-sign-change",
            "clause:ambiguous-encode", "ratfunc:den-longer-i2p", "ratfunc:den-longer-p2i",
            "texttable:range-inverse-zero", "linear:identity-coeffs-mixed-types",
            "linear:identity-coeffs-mixed-types:LINEAR", "int-result:negative:ratfunc-i2p", "int-result:negative:ratfunc-p2i",
            "int-result:type-checked"]


# ---------------------------------------------------------------------------
# IR -> odxtools (direct dataclass construction)
# ---------------------------------------------------------------------------
def _num_py(s: str, typ: str):
    return refcompu.parse_int_text(s) if typ in INT_TYPES else float(s)


def build_direct(ir: dict):
    from odxtools.compumethods.compucodecompumethod import CompuCodeCompuMethod
    from odxtools.compumethods.compuconst import CompuConst
    from odxtools.compumethods.compudefaultvalue import CompuDefaultValue
    from odxtools.compumethods.compuinternaltophys import CompuInternalToPhys
    from odxtools.compumethods.compumethod import CompuCategory
    from odxtools.compumethods.compuphystointernal import CompuPhysToInternal
    from odxtools.compumethods.compurationalcoeffs import CompuRationalCoeffs
    from odxtools.compumethods.compuscale import CompuScale
    from odxtools.compumethods.identicalcompumethod import IdenticalCompuMethod
    from odxtools.compumethods.limit import IntervalType, Limit
    from odxtools.compumethods.linearcompumethod import LinearCompuMethod
    from odxtools.compumethods.ratfunccompumethod import RatFuncCompuMethod
    from odxtools.compumethods.scalelinearcompumethod import ScaleLinearCompuMethod
    from odxtools.compumethods.scaleratfunccompumethod import ScaleRatFuncCompuMethod
    from odxtools.compumethods.tabintpcompumethod import TabIntpCompuMethod
    from odxtools.compumethods.texttablecompumethod import TexttableCompuMethod
    from odxtools.odxtypes import DataType

    it, pt = DataType(ir["it"]), DataType(ir["pt"])

    def lim(l, typ):
        if l is None:
            return None
        return Limit(value_raw=l.get("v"), value_type=typ,
                     interval_type=IntervalType(l["t"]) if l.get("t") else None)

    def const(c, typ):
        if c is None:
            return None
        return CompuConst(v=c.get("v"), vt=c.get("vt"), data_type=typ)

    def scale(sc, dom, rng):
        coeffs = None
        if sc.get("num") is not None:
            coeffs = CompuRationalCoeffs(
                value_type=rng,
                numerators=[_num_py(s, rng.value) for s in sc["num"]],
                denominators=[_num_py(s, rng.value) for s in (sc.get("den") or [])])
        return CompuScale(short_label=None, description=None, lower_limit=lim(sc.get("lo"), dom),
                          upper_limit=lim(sc.get("hi"), dom),
                          compu_inverse_value=const(sc.get("inv"), dom),
                          compu_const=const(sc.get("const"), rng), compu_rational_coeffs=coeffs,
                          domain_type=dom, range_type=rng)

    def default(d, typ):
        if d is None:
            return None
        return CompuDefaultValue(v=d.get("v"), vt=d.get("vt"), data_type=typ, compu_inverse_value=None)

    citp = cpti = None
    if ir.get("i2p") is not None:
        citp = CompuInternalToPhys(compu_scales=[scale(s, it, pt) for s in ir["i2p"].get("scales") or []],
                                   prog_code=None, compu_default_value=default(ir["i2p"].get("default"), pt))
    if ir.get("p2i") is not None:
        cpti = CompuPhysToInternal(compu_scales=[scale(s, pt, it) for s in ir["p2i"].get("scales") or []],
                                   prog_code=None, compu_default_value=default(ir["p2i"].get("default"), it))
    cls = {"IDENTICAL": IdenticalCompuMethod, "LINEAR": LinearCompuMethod,
           "SCALE-LINEAR": ScaleLinearCompuMethod, "TEXTTABLE": TexttableCompuMethod,
           "TAB-INTP": TabIntpCompuMethod, "RAT-FUNC": RatFuncCompuMethod,
           "SCALE-RAT-FUNC": ScaleRatFuncCompuMethod, "COMPUCODE": CompuCodeCompuMethod}[ir["cat"]]
    return cls(category=CompuCategory(ir["cat"]), compu_internal_to_phys=citp, compu_phys_to_internal=cpti,
               physical_type=pt, internal_type=it)


# ---------------------------------------------------------------------------
# IR -> XML -> Database -> DOP
# ---------------------------------------------------------------------------
XSI = "http://www.w3.org/2001/XMLSchema-instance"


def _sub(parent, tag, text=None, **attrib):
    e = ET.SubElement(parent, tag, {k.replace("_", "-"): v for k, v in attrib.items()})
    if text is not None:
        e.text = text
    return e


def compu_method_et(ir: dict) -> ET.Element:
    cm = ET.Element("COMPU-METHOD")
    _sub(cm, "CATEGORY", ir["cat"])

    def value(parent, tag, c):
        e = _sub(parent, tag)
        if c.get("v") is not None:
            _sub(e, "V", c["v"])
        if c.get("vt") is not None:
            _sub(e, "VT", c["vt"])

    def side(tag, d):
        e = _sub(cm, tag)
        if d.get("scales") is not None:
            scs = _sub(e, "COMPU-SCALES")
            for sc in d["scales"]:
                s = _sub(scs, "COMPU-SCALE")
                for key, t in (("lo", "LOWER-LIMIT"), ("hi", "UPPER-LIMIT")):
                    l = sc.get(key)
                    if l is not None:
                        le = _sub(s, t, l.get("v"))
                        if l.get("t"):
                            le.set("INTERVAL-TYPE", l["t"])
                if sc.get("inv") is not None:
                    value(s, "COMPU-INVERSE-VALUE", sc["inv"])
                if sc.get("const") is not None:
                    value(s, "COMPU-CONST", sc["const"])
                if sc.get("num") is not None:
                    rc = _sub(s, "COMPU-RATIONAL-COEFFS")
                    n = _sub(rc, "COMPU-NUMERATOR")
                    for v in sc["num"]:
                        _sub(n, "V", v)
                    if sc.get("den"):
                        dn = _sub(rc, "COMPU-DENOMINATOR")
                        for v in sc["den"]:
                            _sub(dn, "V", v)
        if d.get("default") is not None:
            value(e, "COMPU-DEFAULT-VALUE", d["default"])

    if ir.get("i2p") is not None:
        side("COMPU-INTERNAL-TO-PHYS", ir["i2p"])
    if ir.get("p2i") is not None:
        side("COMPU-PHYS-TO-INTERNAL", ir["p2i"])
    return cm


def _bit_length(ir: dict) -> int:
    it = ir["it"]
    if it in INT_TYPES:
        return int(ir.get("bits", 8))
    if it == "A_FLOAT32":
        return 32
    if it == "A_FLOAT64":
        return 64
    return 32


def odx_document(ir: dict) -> bytes:
    ET.register_namespace("xsi", XSI)
    odx = ET.Element("ODX", {"MODEL-VERSION": "2.2.0"})
    dlc = _sub(odx, "DIAG-LAYER-CONTAINER", ID="c")
    _sub(dlc, "SHORT-NAME", "c")
    bv = _sub(_sub(dlc, "BASE-VARIANTS"), "BASE-VARIANT", ID="bv")
    _sub(bv, "SHORT-NAME", "bv")
    dops = _sub(_sub(bv, "DIAG-DATA-DICTIONARY-SPEC"), "DATA-OBJECT-PROPS")
    dop = _sub(dops, "DATA-OBJECT-PROP", ID="d")
    _sub(dop, "SHORT-NAME", "d")
    dop.append(compu_method_et(ir))
    dct = _sub(dop, "DIAG-CODED-TYPE", **{"BASE-DATA-TYPE": ir["it"]})
    dct.set(f"{{{XSI}}}type", "STANDARD-LENGTH-TYPE")
    _sub(dct, "BIT-LENGTH", str(_bit_length(ir)))
    _sub(dop, "PHYSICAL-TYPE", **{"BASE-DATA-TYPE": ir["pt"]})
    return b'<?xml version="1.0" encoding="UTF-8"?>' + ET.tostring(odx, encoding="utf-8")


def build_xml(ir: dict):
    """-> (DataObjectProperty, CompuMethod) loaded through the public path"""
    from odxtools.database import Database
    db = Database()
    db.add_odx_file(io.BytesIO(odx_document(ir)))
    db.refresh()
    dop = db.diag_layers[0].diag_data_dictionary_spec.data_object_props[0]
    return dop, dop.compu_method


# ---------------------------------------------------------------------------
# value suites
# ---------------------------------------------------------------------------
def int_domain(ir: dict):
    bits = int(ir.get("bits", 8))
    if ir["it"] == "A_UINT32":
        return 0, (1 << bits) - 1
    return -(1 << (bits - 1)), (1 << (bits - 1)) - 1


def _limit_values(ir: dict, side: str = "i2p"):
    """numeric values of all limits of one direction as python numbers of the domain type"""
    out = []
    d = ir.get(side) or {}
    typ = ir["it"] if side == "i2p" else ir["pt"]
    if typ not in NUM_TYPES:
        return out
    for sc in d.get("scales") or []:
        for k in ("lo", "hi"):
            l = sc.get(k)
            if l is not None and l.get("v") is not None:
                out.append(_num_py(l["v"], typ))
    return out


def internal_values(ir: dict, extra) -> list:
    it = ir["it"]
    vals: list = []
    if ir["cat"] == "IDENTICAL" and it not in NUM_TYPES:
        if it in STR_TYPES:
            vals = ["", "abc", "ä中", 5, 1.5, b"ab"]
        else:
            vals = [b"", b"\x00\x01", bytearray(b"\xff"), "abc", 7]
        return vals + [v for v in extra if v not in vals]
    lims = _limit_values(ir)
    if it in INT_TYPES:
        lo, hi = int_domain(ir)
        if int(ir.get("bits", 8)) <= 8:
            vals = list(range(lo, hi + 1))
        else:
            s = {lo, lo + 1, hi - 1, hi, 0, 1, -1 if lo < 0 else 2}
            for l in lims:
                for d in (-2, -1, 0, 1, 2):
                    s.add(int(l) + d)
            s.update(int(e) for e in extra if isinstance(e, int))
            vals = sorted(v for v in s if lo <= v <= hi)
        vals += [1.5, "x", 2.0]           # wrongly typed
    else:
        s = set()
        for l in lims:
            l = float(l)
            for d in (-1.0, -0.125, 0.0, 0.125, 1.0):
                s.add(l + d)
            if it == "A_FLOAT64":
                s.add(math.nextafter(l, math.inf))
                s.add(math.nextafter(l, -math.inf))
        for a, b in zip(sorted(lims), sorted(lims)[1:]):
            s.add((float(a) + float(b)) / 2)
        s.update([0.0, 1.0, -1.0, 0.5, 100.0, -100.0])
        s.update(float(e) for e in extra if isinstance(e, (int, float)))
        vals = sorted(s)
        vals += [3, -2, 0]                # ints are admissible floats
        vals += ["x", b"\x01"]           # wrongly typed
    return vals


def _json_val(v):
    return core.plain(v)


# ---------------------------------------------------------------------------
# the oracle
# ---------------------------------------------------------------------------
def _kind(t: str) -> str:
    return "int" if t in INT_TYPES else "float" if t in FLOAT_TYPES else "str" if t in STR_TYPES else "bytes"


class Judge:
    """evaluates one method (one IR) on both load paths"""

    def __init__(self, ir: dict, paths=("direct", "xml")):
        self.ir = ir
        self.cat = ir["cat"]
        self.it, self.pt = ir["it"], ir["pt"]
        self.ru, self.rp = refcompu.neutral(ir)
        self.neutral = self.ru is self.rp
        self.failures: list = []
        self.classes: set = set()
        self.counts = {"eval": 0, "nontrivial": 0}
        self.notes: list = []          # (direction, value, nontrivial)
        self.lims_i = [F(x) for x in _limit_values(ir, "i2p")]
        if self.cat == "TAB-INTP":
            self.lims_i = list(self.ru.xs)
        self.mdig = core.canon(ir)
        self.struct_features = {}
        if self.cat in ("LINEAR", "SCALE-LINEAR"):
            self.struct_features["neg_den"] = any(s.den < 0 and s.fac != 0 for s in self.ru.segs)
            self.struct_features["odx_invertible"] = self.ru.odx_invertible()   # under odxtools' reading of one-sided limits
        if self.cat == "TAB-INTP":
            self.struct_features["tab_shape"] = self._tab_shape()
        self.mixed_signs = (self.cat == "SCALE-LINEAR" and self.neutral
                            and any(s.slope > 0 for s in self.ru.segs) and any(s.slope < 0 for s in self.ru.segs))
        self.objs = []
        from odxtools.exceptions import OdxError
        self.OdxError = OdxError
        for p in paths:
            try:
                if p == "direct":
                    self.objs.append(("direct", None, build_direct(ir)))
                else:
                    dop, cm = build_xml(ir)
                    self.objs.append(("xml", dop, cm))
            except Exception as e:   # an in-envelope description must load
                self.fail("load", f"{p}: {type(e).__name__}: {e}", p, None, None, exc=type(e).__name__)

    # -- bookkeeping ----------------------------------------------------------
    def fail(self, clause, detail, path, direction, value, **feat):
        features = {"cat": self.cat, "it": _kind(self.it), "pt": _kind(self.pt), "path": path,
                    "nscales": len((self.ir.get("i2p") or {}).get("scales") or []),
                    "value_float": isinstance(value, float)}
        features.update(self.struct_features)
        if direction == "p" and self.cat == "TAB-INTP" and refcompu.is_num(value):
            features.update(self._tab_position(F(value)))
        pv = feat.pop("image", value if direction == "p" else None)
        if self.cat in ("LINEAR", "SCALE-LINEAR") and refcompu.is_int(pv) and self.pt in INT_TYPES:
            # the physical value coincides with the rounded image of an OPEN limit
            features["p_is_rounded_open_limit_image"] = any(
                l.bounded and l.kind == "OPEN" and pv in nearest_ints_tol(s.f(l.value), s.f_tol(l.value))
                for s in self.ru.segs for l in (s.lo, s.hi))
        if direction == "p" and self.cat in ("LINEAR", "SCALE-LINEAR") and refcompu.is_num(value):
            features["p_is_const_of_open_scale"] = any(
                s.slope == 0 and s.off / s.den == F(value) and
                any(l.bounded and l.kind == "OPEN" for l in (s.lo, s.hi)) for s in self.ru.segs)
        features.update(feat)
        if isinstance(feat.get("exc_obj"), BaseException):
            features["exc_msg"] = str(features.pop("exc_obj"))[:120]
        sub = feat.get("mode") or feat.get("exc") or ""
        features["bucket"] = f"{self.cat}:{_kind(self.it)}->{_kind(self.pt)}:{sub}"
        case = {"cm": self.ir, "iv": [], "pv": [], "paths": [path] if path else ["direct", "xml"]}
        if direction == "i":
            case["iv"] = [_json_val(value)]
        elif direction == "p":
            case["pv"] = [_json_val(value)]
        self.failures.append(core.Failure(clause=clause, detail=f"[{path}] {detail}", case=case, features=features))

    def near_limit(self, v) -> bool:
        if not refcompu.is_num(v):
            return False
        fv = F(v)
        return any(abs(fv - l) <= 1 for l in self.lims_i)

    def call(self, fn, *a):
        try:
            return True, fn(*a)
        except Exception as e:
            return False, e

    # -- internal side ----------------------------------------------------------
    def judge_internal(self, v, images: dict):
        ru, rp = self.ru, self.rp
        exp = ru.valid_internal(v)
        if not self.neutral and rp.valid_internal(v) != exp:
            exp = None
            self.classes.add("one-sided-ambiguous")
        wrong_type = not refcompu.admissible(v, self.it)
        if wrong_type:
            self.classes.add("wrong-type")
        # reference results (once for both paths)
        res = None
        rt = False
        if exp is True:
            try:
                res = ru.i2p(v)
                if not self.neutral:
                    r2 = rp.i2p(v)
                    if (res.kind, res.parts, res.values) != (r2.kind, r2.parts, r2.values):
                        res = None
                        self.classes.add("one-sided-ambiguous")
            except Unspecified:
                res = None
                self.classes.add("unspecified-i2p")
            if res is not None and self.neutral:
                rt = ru.roundtrip_exact(v)
        nontrivial = self.cat != "IDENTICAL" or self.near_limit(v)
        if exp is not None:
            self.classes.add("valid-internal:true" if exp else "valid-internal:false")
        if res is not None and res.kind == "num" and res.integer and len(res.strict_ints()) > 1:
            self.classes.add("tie")
        for path, dop, cm in self.objs:
            self.counts["eval"] += 1
            ok, got = self.call(cm.is_valid_internal_value, v)
            if not ok:
                if wrong_type and isinstance(got, self.OdxError):
                    got = False
                else:
                    self.fail("valid-internal", f"is_valid_internal_value({v!r}) raised {type(got).__name__}: {got}",
                              path, "i", v, exc=type(got).__name__, mode="raises")
                    continue
            if exp is not None and bool(got) != exp:
                self.fail("valid-internal", f"is_valid_internal_value({v!r}) = {got}, expected {exp}",
                          path, "i", v, mode=f"declared-{bool(got)}", wrong_type=wrong_type,
                          default_i2p=self._has_default("i2p"), default_p2i=self._has_default("p2i"))
                continue
            if exp is not True or res is None:
                continue
            ok, p = self.call(cm.convert_internal_to_physical, v)
            if not ok:
                self.fail("i2p-raises", f"convert_internal_to_physical({v!r}) raised {type(p).__name__}: {p} "
                          f"for a valid value; expected {res.describe()}", path, "i", v, exc=type(p).__name__)
                continue
            if res.kind == "num" and res.integer:
                self.classes.add("int-result:type-checked")
                if self.cat in ("RAT-FUNC", "SCALE-RAT-FUNC") and res.parts[0][1] < -1:
                    self.classes.add("int-result:negative:ratfunc-i2p")
            if not res.admits(p):
                self.fail("i2p-value", f"convert_internal_to_physical({v!r}) = {p!r}, expected {res.describe()}",
                          path, "i", v, mode=self._mode(res, p))
                continue
            if refcompu.is_num(p) or isinstance(p, str):
                images.setdefault(path, []).append(p)
            # DOP level: decoding the coded value gives the same physical value
            if dop is not None and self.it in INT_TYPES and refcompu.is_int(v):
                self.judge_dop_decode(dop, v, res, path)
            if rt:
                self.judge_roundtrip(cm, path, v, p)
        self.notes.append(("i", v, nontrivial))

    def _has_default(self, side) -> bool:
        return ((self.ir.get(side) or {}).get("default")) is not None

    def _mode(self, res, got) -> str:
        """classify a wrong numeric result (for bucketing / known-finding predicates):
        'truncated' = an integer result that is not a nearest integer but what cutting off the
        fraction of (a float evaluation of) the exact value gives"""
        if res.kind != "num" or not refcompu.is_num(got) or not res.integer:
            return "other"
        if not refcompu.is_int(got):
            return "not-int"         # an integer-typed side returned a float (unrounded or integral-valued)
        g = F(got)
        for lo, hi, tol in res.parts:
            for e in (lo, hi):
                if abs(g - e) <= 1 + tol and abs(g) <= abs(e) + tol:
                    return "truncated"
        return "other"

    def judge_roundtrip(self, cm, path, v, p):
        ref = self.ru
        self.classes.add("roundtrip")
        if self.cat in ("RAT-FUNC", "SCALE-RAT-FUNC"):
            self.classes.add("ratfunc:roundtrip")
        elif self.cat == "TEXTTABLE":
            self.classes.add("texttable:roundtrip")
        if self.pt == "A_UINT32" and refcompu.is_num(p) and p < 0:
            self.classes.add("uint-negative-image")
            return
        # a float internal value a hair inside an OPEN limit may share its image with the limit
        if self.it in FLOAT_TYPES and self.cat in ("LINEAR", "SCALE-LINEAR"):
            fv = F(v)
            for s in ref.segs:
                for l in (s.lo, s.hi):
                    if l.bounded and l.kind == "OPEN" and abs(s.f(fv) - s.f(l.value)) <= 8 * s.f_tol(fv):
                        self.classes.add("roundtrip-excused-open-limit")
                        return
        try:
            rb = ref.p2i(p)
        except (Invalid, Unspecified, NotInvertible):
            self.classes.add("roundtrip-ref-undefined")
            return
        if self.it in NUM_TYPES and not rb.admits(v):
            self.classes.add("roundtrip-ref-ambiguous")
            return
        ok, vp = self.call(cm.is_valid_physical_value, p)
        if not ok or not vp:
            tie = False
            try:
                r = ref.i2p(v)
                tie = r.kind == "num" and r.integer and len(r.strict_ints()) > 1
            except Exception:
                pass
            self.fail("image-valid", f"image {p!r} of the valid internal value {v!r} is not declared valid "
                      f"({'raised ' + type(vp).__name__ if not ok else vp})", path, "i", v,
                      mode="tie" if tie else "image-invalid", image_float=isinstance(p, float), image=p)
            return
        ok, b = self.call(cm.convert_physical_to_internal, p)
        if not ok:
            self.fail("roundtrip-raises", f"convert_physical_to_internal({p!r}) raised {type(b).__name__}: {b}; "
                      f"{p!r} is the image of the valid internal value {v!r}", path, "i", v,
                      exc=type(b).__name__, exc_obj=b,
                      **(self._tab_position(F(p)) if self.cat == "TAB-INTP" and refcompu.is_num(p) else {}))
            return
        if not rb.admits(b):
            self.fail("roundtrip-value", f"{v!r} -> {p!r} -> {b!r}, expected {rb.describe()}", path, "i", v,
                      mode=self._mode(rb, b))

    # -- DOP level ---------------------------------------------------------------
    def _raw(self, v: int):
        bits = int(self.ir.get("bits", 8))
        lo, hi = int_domain(self.ir)
        if not (lo <= v <= hi):
            return None
        return (v & ((1 << bits) - 1)).to_bytes(bits // 8, "big")

    def judge_dop_decode(self, dop, v, res, path):
        from odxtools.decodestate import DecodeState
        raw = self._raw(v)
        if raw is None:
            return
        self.classes.add("dop:decode")
        ok, p = self.call(lambda: dop.decode_from_pdu(DecodeState(coded_message=raw)))
        if not ok:
            self.fail("dop-decode", f"decode_from_pdu({raw.hex()}) raised {type(p).__name__}: {p}; internal value "
                      f"{v} is valid, expected {res.describe()}", path, "i", v, exc=type(p).__name__)
        elif not res.admits(p):
            self.fail("dop-decode", f"decode_from_pdu({raw.hex()}) = {p!r}, expected {res.describe()}", path, "i", v,
                      mode=self._mode(res, p))

    def judge_dop_encode(self, dop, p, rb, path):
        from odxtools.encodestate import EncodeState
        if rb.kind != "num":
            return
        bounds = rb.int_bounds()
        lo, hi = int_domain(self.ir)
        if bounds is None or bounds[0] < lo or bounds[1] > hi:
            return                       # some admissible result does not fit the coded type (C04's business)
        nbytes = int(self.ir.get("bits", 8)) // 8
        self.classes.add("dop:encode")
        es = EncodeState(coded_message=bytearray())
        ok, e = self.call(dop.encode_into_pdu, p, es)
        if not ok:
            self.fail("dop-encode", f"encode_into_pdu({p!r}) raised {type(e).__name__}: {e}; the value is declared "
                      f"valid and converts to {rb.describe()}", path, "p", p, exc=type(e).__name__, exc_obj=e)
            return
        raw = bytes(es.coded_message)
        got = int.from_bytes(raw, "big", signed=self.it == "A_INT32") if len(raw) == nbytes else None
        if got is None or not rb.admits(got):
            self.fail("dop-encode", f"encode_into_pdu({p!r}) = {raw.hex()}, expected {rb.describe()}", path, "p", p,
                      mode=self._mode(rb, got) if got is not None else "other")

    # -- physical side -------------------------------------------------------------
    def mc_image(self, p) -> bool:
        """is p certainly the image of a valid internal value of a monotone continuous
        SCALE-LINEAR method (then 'can always encode' applies to it)"""
        ref = self.ru
        if not (self.neutral and self.cat == "SCALE-LINEAR" and ref.monotone_continuous()):
            return False
        if not (refcompu.is_num(p) and refcompu.admissible(p, self.pt)):
            return False
        y = F(p)
        for s in ref.segs:
            if s.slope == 0:
                continue
            x = s.finv(y)
            cands = [x] if self.it in FLOAT_TYPES else [F(math.floor(x)), F(math.ceil(x))]
            for c in cands:
                seg = ref._first_lin(c)
                if seg is None:
                    continue
                fy = seg.f(c)
                if self.pt in INT_TYPES:
                    if abs(fy - y) < F(1, 2) - 4 * seg.f_tol(c):
                        return True
                elif fy == y and seg.exact:
                    return True
        return False

    def ambiguous_preimages(self, p) -> bool:
        """SCALE-LINEAR with slopes of both signs is never invertible (ODX 7.3.6.6.4, quoted in
        scalelinearcompumethod.py).  True if p certainly is the image of two valid internal values that lie
        on scales of opposite slope sign, i.e. no physical->internal conversion of p is defined."""
        if not self.mixed_signs or not (refcompu.is_num(p) and refcompu.admissible(p, self.pt)):
            return False
        ref, y, signs = self.ru, F(p), set()
        for s in ref.segs:
            if s.slope == 0:
                continue
            x = s.finv(y)
            cands = [x] if self.it in FLOAT_TYPES else [F(math.floor(x)), F(math.ceil(x))]
            for c in cands:
                if ref._first_lin(c) is not s:
                    continue
                fy = s.f(c)
                if self.pt in INT_TYPES:
                    hit = abs(fy - y) < F(1, 2) - 4 * s.f_tol(c)
                else:
                    hit = fy == y and s.exact
                if hit:
                    signs.add(s.slope > 0)
        return len(signs) == 2

    def judge_physical(self, p):
        ru, rp = self.ru, self.rp
        exp = ru.valid_physical(p)
        if not self.neutral and rp.valid_physical(p) != exp:
            exp = None
        wrong_type = not refcompu.admissible(p, self.pt)
        if exp is not None:
            self.classes.add("valid-physical:true" if exp else "valid-physical:false")
        rb = None
        ref_state = "ok"
        if self.neutral:
            try:
                rb = ru.p2i(p)
            except Invalid:
                ref_state = "invalid"
            except Unspecified:
                ref_state = "unspecified"
            except NotInvertible:
                ref_state = "not-invertible"
        else:
            ref_state = "one-sided"
        in_mc = self.mc_image(p)
        ambiguous = self.ambiguous_preimages(p)
        if ambiguous:
            self.classes.add("clause:ambiguous-encode")
        nontrivial = self.cat != "IDENTICAL"
        for path, dop, cm in self.objs:
            self.counts["eval"] += 1
            ok, got = self.call(cm.is_valid_physical_value, p)
            if not ok:
                if wrong_type and isinstance(got, self.OdxError):
                    got = False
                else:
                    self.fail("valid-physical", f"is_valid_physical_value({p!r}) raised {type(got).__name__}: {got}",
                              path, "p", p, exc=type(got).__name__, mode="raises")
                    continue
            if exp is not None and bool(got) != exp:
                self.fail("valid-physical", f"is_valid_physical_value({p!r}) = {got}, expected {exp}", path, "p", p,
                          mode=f"declared-{bool(got)}", default_i2p=self._has_default("i2p"),
                          default_p2i=self._has_default("p2i"))
                if not got:
                    continue
            if got:
                ok, b = self.call(cm.convert_physical_to_internal, p)
                if not ok and ref_state == "unspecified":
                    self.classes.add("unspecified-p2i")     # pole of a declared inverse, ambiguous text
                    continue
                if not ok:
                    self.fail("valid-converts", f"is_valid_physical_value({p!r}) is True but "
                              f"convert_physical_to_internal raised {type(b).__name__}: {b}", path, "p", p,
                              exc=type(b).__name__, exc_obj=b, ref_state=ref_state,
                              default_i2p=self._has_default("i2p"), default_p2i=self._has_default("p2i"))
                    continue
                if ambiguous:
                    self.fail("ambiguous-encode", f"{p!r} is the image of internal values on a rising and on a falling "
                              f"scale of a SCALE-LINEAR method (not invertible), but it is declared valid and "
                              f"convert_physical_to_internal silently returns {b!r}", path, "p", p, mode="silently-encoded")
                    continue
                if rb is not None and rb.kind == "num" and rb.integer and \
                        self.cat in ("RAT-FUNC", "SCALE-RAT-FUNC") and rb.parts[0][1] < -1:
                    self.classes.add("int-result:negative:ratfunc-p2i")
                if rb is not None and not rb.admits(b):
                    self.fail("p2i-value", f"convert_physical_to_internal({p!r}) = {b!r}, expected {rb.describe()}",
                              path, "p", p, mode=self._mode(rb, b))
                    continue
                if rb is not None and dop is not None and self.it in INT_TYPES:
                    self.judge_dop_encode(dop, p, rb, path)
            elif in_mc:
                self.fail("mc-encode", f"{p!r} lies in the range of a monotone continuous SCALE-LINEAR method but is "
                          f"declared invalid", path, "p", p, mode="declared-False")
            if in_mc:
                self.classes.add("clause:mc-encode")
        self.notes.append(("p", p, nontrivial))

    def _tab_position(self, y: F) -> dict:
        """where a physical value lies relative to the table intervals"""
        asc = flat = False
        for y0, y1 in zip(self.ru.ys, self.ru.ys[1:]):
            if y0 < y1 and y0 <= y <= y1:
                asc = True
            if y0 == y1 == y:
                flat = True
        return {"in_ascending_interval": asc, "on_flat_interval": flat}

    def _tab_shape(self):
        if self.cat != "TAB-INTP":
            return None
        d = [b - a for a, b in zip(self.ru.ys, self.ru.ys[1:])]
        if all(x > 0 for x in d):
            return "ascending"
        if all(x < 0 for x in d):
            return "descending"
        if any(x == 0 for x in d):
            return "flat"
        return "mixed"

    # -- physical candidates -------------------------------------------------------
    def physical_values(self, images: dict, extra) -> list:
        pt = self.pt
        imgs = [p for ps in images.values() for p in ps]
        if self.cat == "TEXTTABLE":
            out = []
            for sc in (self.ir.get("i2p") or {}).get("scales") or []:
                if sc.get("const") and sc["const"].get("vt") is not None:
                    out.append(sc["const"]["vt"])
            d = (self.ir.get("i2p") or {}).get("default")
            if d and d.get("vt") is not None:
                out.append(d["vt"])
            out += ["no such text", "", 5]
            return _dedup(out)
        if pt not in NUM_TYPES:
            if pt in STR_TYPES:
                return _dedup(["", "abc", "ä中", 5, b"ab"] + [e for e in extra if isinstance(e, str)])
            return [b"", b"\x00\x01", bytearray(b"\xff"), "abc", 7]
        num_imgs = [p for p in imgs if refcompu.is_num(p)]
        out: list = []
        if pt in INT_TYPES:
            s = set()
            if num_imgs:
                lo, hi = int(min(num_imgs)), int(max(num_imgs))
                if hi - lo <= 600:
                    s.update(range(lo - 2, hi + 3))
                else:
                    step = max(1, (hi - lo) // 300)
                    s.update(range(lo - 2, hi + 3, step))
                    s.update(range(lo - 2, lo + 20))
                    s.update(range(hi - 20, hi + 3))
                    s.update(int(x) for x in num_imgs[:300])
            for y in self._limit_images():
                for d in (-1, 0, 1):
                    s.add(math.floor(y) + d)
                    s.add(math.ceil(y) + d)
            s.update(int(e) for e in extra if isinstance(e, int))
            s.update([0, 1, -1])
            out = sorted(s)
            out += [2.5, "x"]
        else:
            s = set(float(x) for x in num_imgs)
            srt = sorted(s)
            for a, b in zip(srt, srt[1:]):
                if len(s) > 1500:
                    break
                s.add((a + b) / 2)
            for y in self._limit_images():
                fy = float(y)
                for d in (-1.0, -0.125, 0.0, 0.125, 1.0):
                    s.add(fy + d)
                if pt == "A_FLOAT64":
                    s.add(math.nextafter(fy, math.inf))
                    s.add(math.nextafter(fy, -math.inf))
            s.update(float(e) for e in extra if isinstance(e, (int, float)))
            s.update([0.0, 1.0, -1.0])
            out = sorted(x for x in s if math.isfinite(x))
            out += [3, -2, "x"]
        return out

    def _limit_images(self) -> list:
        ref = self.ru
        out = []
        if self.cat in ("LINEAR", "SCALE-LINEAR"):
            for s in ref.segs:
                for l in (s.lo, s.hi):
                    if l.bounded:
                        out.append(s.f(l.value))
        elif self.cat == "TAB-INTP":
            out = list(ref.ys)
        elif self.cat in ("RAT-FUNC", "SCALE-RAT-FUNC"):
            out = [F(x) for x in _limit_values(self.ir, "p2i")]
        return out

    # -- driver ----------------------------------------------------------------------
    def run(self, iv_extra=(), pv_extra=(), only_iv=None, only_pv=None):
        ir = self.ir
        self.classes.add(f"cat:{self.cat}")
        for p, _, _ in self.objs:
            self.classes.add(f"path:{p}")
        self.classes.add(f"it:{_kind(self.it)}")
        self.classes.add(f"pt:{_kind(self.pt)}")
        self._structure_classes()
        if self.cat == "COMPUCODE":
            for v in (0, 1, "x"):
                for path, dop, cm in self.objs:
                    self.counts["eval"] += 1
                    for fn, d in ((cm.is_valid_internal_value, "i"), (cm.is_valid_physical_value, "p")):
                        ok, got = self.call(fn, v)
                        if not ok or got:
                            self.fail("compucode", f"COMPUCODE declares {v!r} valid ({got!r})", path, d, v)
                self.notes.append(("i", v, False))
            return self
        images: dict = {}
        ivs = internal_values(ir, iv_extra) if only_iv is None else only_iv
        if only_iv is None and self.it in INT_TYPES and int(ir.get("bits", 8)) <= 8:
            self.classes.add("domain:8bit-exhaustive")
        for v in ivs:
            self.judge_internal(v, images)
        pvs = self.physical_values(images, pv_extra) if only_pv is None else only_pv
        for p in pvs:
            self.judge_physical(p)
        return self

    def _structure_classes(self):
        ir = self.ir
        for side in ("i2p", "p2i"):
            for sc in (ir.get(side) or {}).get("scales") or []:
                for k in ("lo", "hi"):
                    l = sc.get(k)
                    if l is None:
                        self.classes.add("limit:absent")
                    else:
                        self.classes.add(f"limit:{l.get('t') or 'CLOSED'}")
        if self.cat == "SCALE-LINEAR" and self.neutral and self.ru.monotone_continuous() and len(self.ru.segs) > 1:
            self.classes.add("scale-linear:monotone-continuous")
        if self.cat == "SCALE-LINEAR" and self.neutral and not self.ru.odx_invertible():
            self.classes.add("scale-linear:not-invertible")
        if self.cat in ("LINEAR", "SCALE-LINEAR"):
            if any(sg.off == 0 and sg.fac == sg.den for sg in self.ru.segs):
                self.classes.add("linear:identity-coeffs")
                if _kind(self.it) != _kind(self.pt):
                    self.classes.add("linear:identity-coeffs-mixed-types")
                    if self.cat == "LINEAR":
                        self.classes.add("linear:identity-coeffs-mixed-types:LINEAR")
        if self.cat == "SCALE-LINEAR" and self.neutral and len(self.ru.segs) >= 3:
            segs = self.ru.segs
            cont = all(a.hi.bounded and b.lo.bounded and a.hi.value == b.lo.value and
                       a.f(a.hi.value) == b.f(b.lo.value) for a, b in zip(segs, segs[1:]))
            if cont:
                pat = "".join("+" if s.slope > 0 else "-" if s.slope < 0 else "0" for s in segs)
                core_pat = pat.strip("0")
                import re as _re
                if _re.search(r"\+0+-|-0+\+", pat):
                    self.classes.add("scale-linear:sign-change-across-zero")
                if "0" in core_pat and not ("+" in pat and "-" in pat):
                    self.classes.add("scale-linear:plateau-monotone")
                if "+-" in pat or "-+" in pat:
                    self.classes.add("scale-linear:direct-sign-change")
        if self.cat in ("RAT-FUNC", "SCALE-RAT-FUNC"):
            for side in ("i2p", "p2i"):
                for sc in (ir.get(side) or {}).get("scales") or []:
                    if len(sc.get("den") or []) > len(sc.get("num") or []):
                        self.classes.add(f"ratfunc:den-longer-{side}")
        if self.cat == "TEXTTABLE":
            for sc in ir["i2p"].get("scales") or []:
                lo, hi, inv = sc.get("lo"), sc.get("hi"), sc.get("inv")
                if lo and hi and inv and lo.get("v") is not None and inv.get("v") is not None \
                        and refcompu.parse_int_text(inv["v"]) == 0 and refcompu.parse_int_text(lo["v"]) != 0:
                    self.classes.add("texttable:range-inverse-zero")
            if self._has_default("i2p"):
                self.classes.add("texttable:default-i2p")
            if self._has_default("p2i"):
                self.classes.add("texttable:default-p2i")
        if self.cat in ("RAT-FUNC", "SCALE-RAT-FUNC") and ir.get("p2i") is not None:
            self.classes.add("ratfunc:with-inverse")
        if self.cat == "TAB-INTP":
            self.classes.add(f"tabintp:{self._tab_shape()}")
            if self.pt in INT_TYPES or self.it in INT_TYPES:
                self.classes.add("tabintp:int-result")
        if not self.neutral:
            self.classes.add("one-sided-scale")


def nearest_ints_tol(y: F, tol: F):
    return refcompu.nearest_ints(y - tol, y + tol)


def _dedup(xs):
    out, seen = [], set()
    for x in xs:
        k = (type(x).__name__, repr(x))
        if k not in seen:
            seen.add(k)
            out.append(x)
    return out


# ---------------------------------------------------------------------------
# compare_odx_values / Limit.complies_to_* against exact comparison
# ---------------------------------------------------------------------------
def judge_compare(a, b, typ: str) -> list:
    """a, b python values of ODX type typ (numbers or strings)"""
    from odxtools.compumethods.limit import IntervalType, Limit
    from odxtools.odxtypes import DataType, compare_odx_values
    fails = []

    def fail(clause, detail):
        fails.append(core.Failure(clause=clause, detail=detail,
                                  case={"compare": [core.plain(a), core.plain(b), typ]},
                                  features={"bucket": f"compare:{_kind(typ)}", "cat": "compare"}))
    if typ in NUM_TYPES:
        exact = (F(a) > F(b)) - (F(a) < F(b))
    else:
        exact = (a > b) - (a < b)
    try:
        got = compare_odx_values(a, b)
    except Exception as e:
        fail("compare", f"compare_odx_values({a!r}, {b!r}) raised {type(e).__name__}: {e}")
        return fails
    if (got > 0) - (got < 0) != exact:
        fail("compare", f"compare_odx_values({a!r}, {b!r}) = {got}, exact comparison gives {exact}")
    if typ in NUM_TYPES:
        raw = str(b) if typ in INT_TYPES else repr(float(b))
        for t in (None, "CLOSED", "OPEN", "INFINITE"):
            l = Limit(value_raw=raw, value_type=DataType(typ), interval_type=IntervalType(t) if t else None)
            exp_lo = True if t == "INFINITE" else (F(a) > F(b) if t == "OPEN" else F(a) >= F(b))
            exp_hi = True if t == "INFINITE" else (F(a) < F(b) if t == "OPEN" else F(a) <= F(b))
            try:
                g_lo, g_hi = l.complies_to_lower(a), l.complies_to_upper(a)
            except Exception as e:
                fail("limit", f"Limit({raw}, {t}).complies_to_*({a!r}) raised {type(e).__name__}: {e}")
                continue
            if g_lo != exp_lo:
                fail("limit", f"Limit({raw}, {t}).complies_to_lower({a!r}) = {g_lo}, expected {exp_lo}")
            if g_hi != exp_hi:
                fail("limit", f"Limit({raw}, {t}).complies_to_upper({a!r}) = {g_hi}, expected {exp_hi}")
    return fails


# ---------------------------------------------------------------------------
# Hypothesis strategies for the IR
# ---------------------------------------------------------------------------
DYADIC = ["0.5", "-0.5", "0.25", "1.5", "2", "-3", "0.125", "1", "-1", "10", "4", "-2.5", "3", "-0.25"]
NONDYADIC = ["0.1", "-0.3", "0.01", "1.1", "2.7", "-0.7", "3.3"]


def _txt(v, typ: str) -> str:
    if typ in INT_TYPES:
        return str(int(v))
    f = float(v)
    return repr(f)


def frac_txt(f: F) -> str:
    """exact decimal text of a dyadic fraction"""
    if f.denominator == 1:
        return str(f.numerator)
    x = float(f)
    assert F(x) == f, f
    s = repr(x)
    assert "e" not in s and F(s) == f, (s, f)
    return s


def strategies():
    from hypothesis import strategies as st

    num_type = st.sampled_from(["A_INT32", "A_UINT32", "A_UINT32", "A_FLOAT32", "A_FLOAT64"])
    limit_kind = st.sampled_from([None, "CLOSED", "OPEN", "OPEN", "INFINITE"])

    def dom_value(typ, bits):
        if typ == "A_UINT32":
            return st.integers(0, 255) if bits == 8 else st.one_of(
                st.integers(0, 300), st.integers(0, 2**32 - 1), st.sampled_from([2**31, 2**32 - 1, 65535, 65536]))
        if typ == "A_INT32":
            return st.integers(-128, 127) if bits == 8 else st.one_of(
                st.integers(-300, 300), st.integers(-2**31, 2**31 - 1), st.sampled_from([-2**31, 2**31 - 1]))
        return st.integers(-1024, 1024).map(lambda k: k / 8)

    @st.composite
    def limit(draw, v, typ, kinds=limit_kind):
        k = draw(kinds)
        if k == "INFINITE" and draw(st.booleans()):
            return {"v": None, "t": "INFINITE"}
        return {"v": _txt(v, typ), "t": k}

    @st.composite
    def interval(draw, typ, bits, allow_absent=True, allow_inf=True):
        a = draw(dom_value(typ, bits))
        b = draw(dom_value(typ, bits))
        a, b = min(a, b), max(a, b)
        kinds = limit_kind if allow_inf else st.sampled_from([None, "CLOSED", "OPEN"])
        lo = draw(limit(a, typ, kinds))
        hi = draw(limit(b, typ, kinds))
        if allow_absent:
            r = draw(st.integers(0, 11))
            if r == 0:
                lo = hi = None
            elif r == 1:
                lo = None
            elif r == 2:
                hi = None
        return lo, hi

    def type_pair():
        return st.tuples(num_type, num_type, st.sampled_from([8, 8, 8, 32]))

    def coeff(pt, pool_int=st.integers(-8, 8)):
        if pt in INT_TYPES:
            return pool_int.map(str)
        return st.one_of(st.sampled_from(DYADIC), st.sampled_from(DYADIC), st.sampled_from(NONDYADIC),
                         st.integers(-8, 8).map(str))

    def denom(pt):
        if pt in INT_TYPES:
            return st.sampled_from(["1", "1", "2", "3", "4", "5", "8", "-1", "-2", "-3"])
        return st.sampled_from(["1", "1", "2", "4", "0.5", "3", "10", "-2", "0.25", "0.1"])

    @st.composite
    def linear_scale(draw, it, pt, bits, lo, hi, identity=None):
        if identity is None:
            identity = draw(st.integers(0, 7)) == 0
        if identity:
            # "identity-like": offset 0 and factor == denominator (1/1, 4/4, -2/-2, 0.5/0.5, 1/none)
            pool = ["1", "1", "2", "4", "-2", "-1", "3", "8"] + ([] if pt in INT_TYPES else ["0.5", "1.0", "-0.25", "2.0"])
            c = draw(st.sampled_from(pool))
            sc = {"lo": lo, "hi": hi, "num": [draw(st.sampled_from(["0", "0", "-0"])) if pt in INT_TYPES
                                              else draw(st.sampled_from(["0", "0.0", "-0.0"])), c]}
            if F(c) != 1 or draw(st.booleans()):
                sc["den"] = [c]
            return sc
        off = draw(coeff(pt, st.integers(-20, 20)))
        fac = draw(coeff(pt))
        sc = {"lo": lo, "hi": hi, "num": [off, fac]}
        r = draw(st.integers(0, 5))
        if r > 0:
            sc["den"] = [draw(denom(pt))]
        if F(fac) == 0:
            sc["inv"] = {"v": _txt(draw(dom_value(it, bits)), it)}
            if draw(st.integers(0, 3)) == 0:
                sc["num"] = [off]
        return sc

    mixed_pair = st.sampled_from([("A_UINT32", "A_FLOAT64"), ("A_INT32", "A_FLOAT32"), ("A_INT32", "A_FLOAT64"),
                                  ("A_FLOAT64", "A_UINT32"), ("A_FLOAT32", "A_INT32"), ("A_FLOAT64", "A_INT32"),
                                  ("A_UINT32", "A_FLOAT32")])

    @st.composite
    def linear(draw):
        it, pt, bits = draw(type_pair())
        identity = draw(st.integers(0, 3)) == 0
        if identity and draw(st.integers(0, 3)) > 0:
            it, pt = draw(mixed_pair)         # int on one side, float on the other
        lo, hi = draw(interval(it, bits))
        return {"cat": "LINEAR", "it": it, "pt": pt, "bits": bits,
                "i2p": {"scales": [draw(linear_scale(it, pt, bits, lo, hi, identity=identity))]}}

    @st.composite
    def breakpoints(draw, it, bits, n):
        vals = draw(st.lists(dom_value(it, bits), min_size=n, max_size=n, unique=True))
        return sorted(vals)

    # slope sign patterns of continuous piecewise-linear shapes with >= 3 scales: plateaus inside
    # monotone functions (must stay invertible) and sign changes directly or across plateaus
    # ('hat' / 'V' shapes, never invertible)
    SHAPES = ["+0+", "-0-", "+0-", "-0+", "0+0-", "0-0+", "+0-0", "+00-", "-00+", "++0-", "+0--", "+0+0", "0+0+",
              "+-+", "+-0", "0+-", "+0-+", "+0+-", "-0+0", "+0+", "+0-", "-0+"]

    @st.composite
    def scale_linear_mc(draw, shaped=False):
        """continuous by construction; monotone unless `shaped` (explicit slope sign pattern)"""
        it, pt, bits = draw(type_pair())
        if pt in INT_TYPES and it in FLOAT_TYPES:
            it = draw(st.sampled_from(["A_INT32", "A_UINT32"]))
        pattern = None
        if shaped:
            pattern = draw(st.sampled_from(SHAPES))
            n = len(pattern)
        else:
            n = draw(st.integers(2, 4))
        bs = [F(b) for b in draw(breakpoints(it, bits, n + 1))]
        sign = draw(st.sampled_from([1, -1]))
        if pt in INT_TYPES:
            d = F(draw(st.sampled_from([1, 1, 2, 3, 4])))
            slopes = [F(sign * draw(st.integers(1, 6))) for _ in range(n)]
            y = F(draw(st.integers(-20, 20)))
        else:
            d = F(draw(st.sampled_from(["1", "1", "2", "4", "0.5"])))
            slopes = [sign * F(draw(st.sampled_from(["0.5", "0.25", "1", "2", "1.5", "3", "0.125"]))) for _ in range(n)]
            y = F(draw(st.integers(-80, 80)), 4)
        zero_at = draw(st.integers(-1, 3 * n))
        if pattern is not None:
            zero_at = -1
            slopes = [abs(m) * {"+": 1, "-": -1, "0": 0}[c] for m, c in zip(slopes, pattern)]
        scales = []
        for k in range(n):
            m = slopes[k]                       # numerator slope, effective slope is m/d
            if k == zero_at:
                m = F(0)
            off = y - m * bs[k]                  # numerator offset: f(x) = (off + m x)/d, f(bs[k]) = y/d
            sc = {"num": [frac_txt(off), frac_txt(m)], "den": [frac_txt(d)]}
            if m == 0:
                inv = draw(st.sampled_from([bs[k], bs[k + 1]]))
                sc["inv"] = {"v": _txt(inv, it)}
            scales.append(sc)
            y = y + m * (bs[k + 1] - bs[k])
        # limits: shared boundaries
        for k in range(n):
            if k == 0:
                scales[k]["lo"] = draw(limit(bs[0], it, st.sampled_from([None, "CLOSED", "CLOSED", "OPEN"])))
            if k == n - 1:
                scales[k]["hi"] = draw(limit(bs[n], it, st.sampled_from([None, "CLOSED", "CLOSED", "OPEN"])))
            else:
                style = draw(st.sampled_from(["cc", "oc", "co"]))
                scales[k]["hi"] = {"v": _txt(bs[k + 1], it), "t": "OPEN" if style == "oc" else draw(st.sampled_from([None, "CLOSED"]))}
                scales[k + 1]["lo"] = {"v": _txt(bs[k + 1], it), "t": "OPEN" if style == "co" else draw(st.sampled_from([None, "CLOSED"]))}
        return {"cat": "SCALE-LINEAR", "it": it, "pt": pt, "bits": bits, "i2p": {"scales": scales}}

    @st.composite
    def scale_linear_free(draw):
        it, pt, bits = draw(type_pair())
        n = draw(st.integers(1, 4))
        scales = []
        if draw(st.booleans()):
            # adjacent / gapped intervals from sorted breakpoints
            bs = draw(breakpoints(it, bits, 2 * n))
            for k in range(n):
                a, b = bs[2 * k], bs[2 * k + 1]
                if k > 0 and draw(st.booleans()):
                    a = bs[2 * k - 1]              # adjacent to the previous scale
                lo = draw(limit(a, it))
                hi = draw(limit(b, it))
                scales.append(draw(linear_scale(it, pt, bits, lo, hi)))
        else:
            for k in range(n):
                lo, hi = draw(interval(it, bits))
                scales.append(draw(linear_scale(it, pt, bits, lo, hi)))
        return {"cat": "SCALE-LINEAR", "it": it, "pt": pt, "bits": bits, "i2p": {"scales": scales}}

    @st.composite
    def tab_intp(draw):
        it, pt, bits = draw(type_pair())
        n = draw(st.integers(2, 5))
        xs = draw(breakpoints(it, bits, n))
        shape = draw(st.sampled_from(["asc", "asc", "desc", "any", "steep"]))
        if pt in INT_TYPES:
            ys = draw(st.lists(st.integers(-100, 300) if pt == "A_INT32" else st.integers(0, 300), min_size=n, max_size=n))
            if shape == "steep" and it in INT_TYPES:
                ys = [int(2 * x) + 3 for x in xs] if draw(st.booleans()) else [1000 - int(3 * x) for x in xs]
            ytxt = [str(y) for y in ys]
        else:
            if draw(st.integers(0, 4)) == 0:
                ys = [float(draw(st.sampled_from(NONDYADIC))) * draw(st.integers(-9, 9)) for _ in range(n)]
            else:
                ys = draw(st.lists(st.integers(-800, 800).map(lambda k: k / 8), min_size=n, max_size=n))
            ytxt = [repr(float(y)) for y in ys]
        if shape in ("asc", "desc") :
            order = sorted(range(n), key=lambda i: float(ytxt[i]))
            ytxt = [ytxt[i] for i in order]
            if shape == "desc":
                ytxt.reverse()
        scales = [{"lo": {"v": _txt(x, it), "t": draw(st.sampled_from([None, "CLOSED"]))}, "hi": None,
                   "const": {"v": y}} for x, y in zip(xs, ytxt)]
        return {"cat": "TAB-INTP", "it": it, "pt": pt, "bits": bits, "i2p": {"scales": scales}}

    @st.composite
    def texttable(draw):
        it = draw(st.sampled_from(["A_UINT32", "A_UINT32", "A_INT32"]))
        pt = draw(st.sampled_from(["A_UNICODE2STRING", "A_UNICODE2STRING", "A_UTF8STRING", "A_ASCIISTRING"]))
        bits = draw(st.sampled_from([8, 8, 8, 32]))
        n = draw(st.integers(1, 5))
        texts = draw(st.lists(st.sampled_from(["on", "off", "a<b&c", "x y", "äö", "t3", "t4", "Reserved", "0"]),
                              min_size=n, max_size=n, unique=True))
        scales = []
        zero_inverse = draw(st.integers(0, 2)) == 0     # a range scale around 0 whose inverse value is 0
        overlapping = not zero_inverse and draw(st.integers(0, 5)) == 0
        if zero_inverse:
            it = "A_INT32"
            a0, b0 = -draw(st.integers(1, 100)), draw(st.integers(1, 60))
            rest = sorted(draw(st.lists(st.integers(b0 + 1, 127), min_size=2 * n - 2, max_size=2 * n - 2, unique=True)))
            bs = [a0, b0] + rest
        else:
            bs = draw(breakpoints(it, bits, 2 * n))
        for k in range(n):
            a, b = bs[2 * k], bs[2 * k + 1]
            if overlapping:
                a, b = sorted([draw(dom_value(it, bits)), draw(dom_value(it, bits))])
            style = draw(st.sampled_from(["point-lo", "point-lo", "point-eq", "point-hi", "range", "range", "range"]))
            if zero_inverse and k == 0:
                style = "range"
            sc = {"const": {"vt": texts[k]}}
            if style == "point-lo":
                sc["lo"] = {"v": str(a), "t": draw(st.sampled_from([None, "CLOSED"]))}
                sc["hi"] = None
            elif style == "point-hi":
                sc["lo"] = None
                sc["hi"] = {"v": str(a), "t": draw(st.sampled_from([None, "CLOSED"]))}
            elif style == "point-eq":
                sc["lo"] = {"v": str(a), "t": draw(st.sampled_from([None, "CLOSED"]))}
                sc["hi"] = {"v": str(a), "t": draw(st.sampled_from([None, "CLOSED"]))}
            else:
                sc["lo"] = draw(limit(a, it))
                sc["hi"] = draw(limit(b, it))
                lo_closed = sc["lo"]["v"] is not None and sc["lo"]["t"] in (None, "CLOSED")
                if zero_inverse and k == 0:
                    if sc["lo"]["v"] is None:
                        sc["lo"] = {"v": str(a), "t": draw(st.sampled_from([None, "CLOSED", "OPEN"]))}
                    sc["inv"] = {"v": draw(st.sampled_from(["0", "0", "0x0"]))}
                elif not lo_closed or draw(st.booleans()):
                    inside = draw(st.integers(min(a + 1, b), b)) if b > a else a
                    cands = [inside, b, inside] + ([a] if lo_closed else []) + ([0] if a < 0 < b else [])
                    sc["inv"] = {"v": str(draw(st.sampled_from(cands)))}
            scales.append(sc)
        ir = {"cat": "TEXTTABLE", "it": it, "pt": pt, "bits": bits, "i2p": {"scales": scales}}
        if draw(st.integers(0, 2)) == 0:
            ir["i2p"]["default"] = {"vt": draw(st.sampled_from(["undefined", "dflt", texts[0]]))} \
                if draw(st.integers(0, 6)) else {"vt": "undefined"}
            if ir["i2p"]["default"]["vt"] == texts[0]:
                ir["i2p"]["default"] = {"vt": "undefined"}
        if draw(st.integers(0, 2)) == 0:
            ir["p2i"] = {"default": {"v": str(draw(dom_value(it, bits)))}}
        return ir

    @st.composite
    def rat_scale_pair(draw, it, pt, a, b, lo_kind, hi_kind, with_inverse):
        """one forward scale on [a, b] (+ matching inverse scale or None)"""
        lo = {"v": _txt(a, it), "t": lo_kind}
        hi = {"v": _txt(b, it), "t": hi_kind}
        fa, fb = F(a), F(b)
        mode = draw(st.sampled_from(["moebius", "moebius", "linear", "quadratic", "quadratic-over-linear",
                                     "recip", "recip", "recip-inv", "recip-inv", "lin-over-quad"]))
        ints = st.integers(-6, 6)
        if mode == "recip-inv" and fa - 1 <= 0 <= fb + 1:
            mode = "recip"                      # (k - a x)/x needs a domain away from 0
        if mode == "linear":
            n0, n1 = draw(ints), draw(ints.filter(lambda x: x != 0))
            d0 = draw(st.sampled_from([1, 1, 2, 4, -2, 3]))
            num, den = [n0, n1], [d0]
            inv_num, inv_den = [-n0, d0], [n1]          # x = (d0 p - n0)/n1
        elif mode == "moebius":
            # (n0 + n1 x)/(d0 + d1 x), pole -d0/d1 outside [a-1, b+1], n1 d0 - n0 d1 != 0
            n0, n1, d1 = draw(ints), draw(ints), draw(ints.filter(lambda x: x != 0))
            side = draw(st.booleans())
            pole = (fa - draw(st.integers(2, 9))) if side else (fb + draw(st.integers(2, 9)))
            d0f = -pole * d1
            if d0f.denominator != 1:
                d1 = d1 * d0f.denominator
                d0f = -pole * d1
            d0 = int(d0f)
            if n1 * d0 - n0 * d1 == 0:
                n0 += 1
            num, den = [n0, n1], [d0, d1]
            inv_num, inv_den = [n0, -d0], [-n1, d1]     # x = (n0 - d0 p)/(d1 p - n1)
        elif mode == "recip":
            # k/(d0 + d1 x): denominator of higher order than the numerator; inverse (k - d0 p)/(d1 p)
            k = draw(st.integers(-200, 200).filter(lambda x: x != 0))
            d1 = draw(ints.filter(lambda x: x != 0))
            side = draw(st.booleans())
            pole = (fa - draw(st.integers(2, 9))) if side else (fb + draw(st.integers(2, 9)))
            d0f = -pole * d1
            if d0f.denominator != 1:
                d1 = d1 * d0f.denominator
                d0f = -pole * d1
            num, den = [k], [int(d0f), d1]
            inv_num, inv_den = [k, -int(d0f)], [0, d1]
        elif mode == "recip-inv":
            # (k - a x)/(d1 x) on a domain away from 0; its inverse k/(a + d1 p) has the longer denominator
            k = draw(st.integers(-200, 200).filter(lambda x: x != 0))
            a_ = draw(ints)
            d1 = draw(st.sampled_from([1, 1, 2, -1, 3]))
            num, den = [k, -a_], [0, d1]
            inv_num, inv_den = [k], [a_, d1]
        elif mode == "lin-over-quad":
            # (n0 + n1 x)/(d0 + d1 x + x^2) with a positive definite denominator (no real pole)
            n0, n1 = draw(ints), draw(ints)
            d1 = draw(st.integers(-4, 4))
            d0 = d1 * d1 // 4 + draw(st.integers(1, 9))
            if draw(st.booleans()):
                num = [draw(st.integers(-200, 200).filter(lambda x: x != 0))]
            else:
                num = [n0, n1]
            den = [d0, d1, 1]
            inv_num, inv_den = [draw(ints)], [draw(st.integers(1, 9)), 0, 1]
        elif mode == "quadratic":
            num, den = [draw(ints), draw(ints), draw(ints.filter(lambda x: x != 0))], [draw(st.sampled_from([1, 2, 4, -1]))]
            inv_num, inv_den = [draw(ints), draw(ints)], [draw(st.sampled_from([1, 2]))]
        else:
            d1 = draw(ints.filter(lambda x: x != 0))
            pole = fb + draw(st.integers(2, 9))
            d0f = -pole * d1
            if d0f.denominator != 1:
                d1 = d1 * d0f.denominator
                d0f = -pole * d1
            num, den = [draw(ints), draw(ints), draw(ints.filter(lambda x: x != 0))], [int(d0f), d1]
            inv_num, inv_den = [draw(ints), draw(ints)], [1]
        fw = {"lo": lo, "hi": hi, "num": [str(x) for x in num], "den": [str(x) for x in den]}
        bw = None
        if with_inverse:
            seg = refcompu.RatSeg(fw, it, pt, "unbounded")
            ya, _ = seg.eval(fa)
            yb, _ = seg.eval(fb)
            if mode in ("linear", "moebius", "recip", "recip-inv"):
                # image interval; open/closed follow the internal limits
                (y0, k0), (y1, k1) = sorted([(ya, lo_kind), (yb, hi_kind)], key=lambda t: t[0])
                if pt in INT_TYPES:
                    y0, y1 = F(math.floor(y0)), F(math.ceil(y1))
                    k0 = k1 = "CLOSED"
                elif float(y0) != y0 or float(y1) != y1:
                    y0, y1 = F(math.floor(y0 * 8), 8), F(math.ceil(y1 * 8), 8)
                    k0 = k1 = "CLOSED"
                blo = {"v": _txt(y0, pt) if pt in INT_TYPES else repr(float(y0)), "t": k0}
                bhi = {"v": _txt(y1, pt) if pt in INT_TYPES else repr(float(y1)), "t": k1}
            else:
                y0, y1 = sorted([draw(st.integers(-50, 50)), draw(st.integers(-50, 50))])
                blo = {"v": _txt(y0, pt), "t": draw(st.sampled_from([None, "CLOSED", "OPEN"]))}
                bhi = {"v": _txt(y1, pt), "t": draw(st.sampled_from([None, "CLOSED", "OPEN"]))}
            bw = {"lo": blo, "hi": bhi, "num": [str(x) for x in inv_num], "den": [str(x) for x in inv_den]}
            if len(inv_den) == 2 and inv_den[1] != 0:
                root = F(-inv_den[0], inv_den[1])
                if F(blo["v"]) - 1 <= root <= F(bhi["v"]) + 1:
                    if mode in ("recip", "recip-inv") and not (F(blo["v"]) <= root <= F(bhi["v"])) \
                            and pt in FLOAT_TYPES and float(ya) == ya and float(yb) == yb:
                        pass               # exact image limits, the pole is outside them: keep
                    else:
                        bw = "pole"
        return fw, bw

    @st.composite
    def rat_func(draw, scaled=False):
        it, pt, bits = draw(type_pair())
        n = draw(st.integers(1, 3)) if scaled else 1
        bs = draw(breakpoints(it, bits, 2 * n))
        with_inverse = draw(st.integers(0, 3)) > 0
        fws, bws = [], []
        for k in range(n):
            a, b = bs[2 * k], bs[2 * k + 1]
            if k > 0 and draw(st.booleans()):
                a = bs[2 * k - 1]
            lk = draw(st.sampled_from([None, "CLOSED", "OPEN"]))
            hk = draw(st.sampled_from([None, "CLOSED", "OPEN"]))
            fw, bw = draw(rat_scale_pair(it, pt, a, b, lk, hk, with_inverse))
            fws.append(fw)
            if bw == "pole":
                with_inverse = False
            elif bw is not None:
                bws.append(bw)
        ir = {"cat": "SCALE-RAT-FUNC" if scaled else "RAT-FUNC", "it": it, "pt": pt, "bits": bits,
              "i2p": {"scales": fws}}
        if with_inverse and len(bws) == n:
            ir["p2i"] = {"scales": bws}
        return ir

    @st.composite
    def identical(draw):
        t = draw(st.sampled_from(["A_INT32", "A_UINT32", "A_FLOAT32", "A_FLOAT64", "A_UNICODE2STRING",
                                  "A_ASCIISTRING", "A_UTF8STRING", "A_BYTEFIELD"]))
        pt = t
        if t in STR_TYPES and draw(st.booleans()):
            pt = draw(st.sampled_from(list(STR_TYPES)))
        ir = {"cat": "IDENTICAL", "it": t, "pt": pt, "bits": draw(st.sampled_from([8, 32]))}
        return ir

    extras = st.lists(st.one_of(st.integers(-300, 300), st.integers(-2**31, 2**32 - 1),
                                st.integers(-8192, 8192).map(lambda k: k / 64)), max_size=6)

    methods = {
        "IDENTICAL": identical(),
        "LINEAR": linear(),
        "SCALE-LINEAR": st.one_of(scale_linear_mc(), scale_linear_free(), scale_linear_mc(shaped=True)),
        "TAB-INTP": tab_intp(),
        "TEXTTABLE": texttable(),
        "RAT-FUNC": rat_func(False),
        "SCALE-RAT-FUNC": rat_func(True),
    }
    cases = {k: st.fixed_dictionaries({"cm": m, "iv_extra": extras, "pv_extra": extras}) for k, m in methods.items()}
    cmp_num = st.one_of(st.integers(-2**31, 2**32 - 1), st.integers(-300, 300),
                        st.integers(-8192, 8192).map(lambda k: k / 64),
                        st.floats(allow_nan=False, allow_infinity=False, width=64, min_value=-1e9, max_value=1e9))
    cmp_case = st.one_of(
        st.tuples(cmp_num, cmp_num, st.sampled_from(["A_FLOAT64"])),
        st.tuples(st.integers(-300, 300), st.integers(-300, 300), st.sampled_from(["A_INT32"])),
        st.tuples(st.text(max_size=4), st.text(max_size=4), st.just("A_UNICODE2STRING")),
    ).map(lambda t: {"compare": [t[0], t[1], t[2]]})
    cases["compare"] = cmp_case
    return cases


# ---------------------------------------------------------------------------
# running one case
# ---------------------------------------------------------------------------
def run_case(case: dict, res: core.ShardResult | None = None) -> list:
    """evaluate one generated case completely; returns all failures"""
    if "compare" in case:
        a, b, typ = core.unjson(case["compare"])
        fails = judge_compare(a, b, typ)
        if typ in NUM_TYPES and b == a:
            pass
        if res is not None:
            res.note(case, True, ["compare", f"compare:{_kind(typ)}"], sample=False)
        return fails
    ir = case["cm"]
    j = Judge(ir, paths=case.get("paths") or ("direct", "xml"))
    only_iv = core.unjson(case["iv"]) if "iv" in case else None
    only_pv = core.unjson(case["pv"]) if "pv" in case else None
    j.run(iv_extra=case.get("iv_extra") or (), pv_extra=case.get("pv_extra") or (), only_iv=only_iv, only_pv=only_pv)
    if res is not None:
        npaths = max(1, len(j.objs))
        first = True
        for d, v, nontrivial in j.notes:
            res.note({"cm": ir, "dir": d, "value": v}, nontrivial, j.classes if first else (),
                     sample=first, n=npaths, dig=(j.mdig, d, repr(v)))
            first = False
    return j.failures


def replay(case) -> list:
    return run_case(case)


# ---------------------------------------------------------------------------
# shards
# ---------------------------------------------------------------------------
CATS = ["IDENTICAL", "LINEAR", "SCALE-LINEAR", "TAB-INTP", "TEXTTABLE", "RAT-FUNC", "SCALE-RAT-FUNC"]
BUDGET = {  # methods per shard (quick, thorough)
    "IDENTICAL": (60, 300), "LINEAR": (200, 1000), "SCALE-LINEAR": (200, 800), "TAB-INTP": (200, 1000),
    "TEXTTABLE": (300, 1500), "RAT-FUNC": (220, 1000), "SCALE-RAT-FUNC": (160, 700), "compare": (600, 4000),
}


def shards(tier):
    out = []
    reps = 2 if tier == "quick" else 4
    for c in CATS:
        for k in range(reps if c != "IDENTICAL" else 1):
            out.append(("hyp", c, k))
    out.append(("hyp", "compare", 0))
    out.append(("fixed", "COMPUCODE", 0))
    return out


def run_shard(spec, seed, tier):
    from vlib import known
    res = core.ShardResult()
    kf = known.load(PROPERTY)
    kind, cat, _k = spec
    if kind == "fixed":
        ir = {"cat": "COMPUCODE", "it": "A_UINT32", "pt": "A_UINT32", "bits": 8}
        res.failures.extend(f for f in run_case({"cm": ir}, res) if known.match(kf, f) is None)
        res.stages["enumeration"] = 1
        return res
    strat = strategies()[cat]
    n = BUDGET[cat][0 if tier == "quick" else 1]

    def body(case):
        fails = run_case(case, res)
        new = []
        for f in fails:
            k = known.match(kf, f)
            if k is not None:
                res.known_hits[k["id"]] += 1
            else:
                new.append(f)
        # smallest first, so that the reported case is the simplest
        new.sort(key=lambda f: len(core.canon(f.case)))
        return new[:1]

    found = core.hyp_search(strat, body, seed, n)
    if found:
        res.failures.extend(found)
    res.stages["hypothesis"] = n
    if cat != "compare":
        res.exhaustive_subspaces.append("all 256 internal values of every generated method with an 8-bit integer internal domain")
    return res
