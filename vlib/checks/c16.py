"""C16 — NamedItemList keeps its list view and its name view consistent.

Domain: histories of append / insert / extend / remove / pop / clear / copy /
copy.copy / deepcopy / pickle over items with colliding, keyword, digit-leading and
method-like short names.  Oracle: a plain Python list of the same objects (model)
plus the invariants of DESIGN C16, evaluated after every step.
"""
from __future__ import annotations

import copy
import itertools
import keyword
import pickle
import re
from dataclasses import dataclass

from vlib import core

PROPERTY = "C16"
RULE = ("history of NamedItemList operations interpreted against a list model, invariants after every "
        "step; non-trivial = history has >=3 operations, at least one name collision (two live items "
        "with the same short name, or a short name that needs escaping) and at least one removal "
        "(remove/pop/clear); distinct = digest of the operation list")
ASSUMPTIONS = [
    "list.remove/index of an absent item raising ValueError and pop from an empty list raising IndexError are list semantics, not violations",
    "only the mutators named in the property are driven (not __setitem__, __delitem__, +=, sort, reverse)",
    "a name is 'the short name made unique and identifier-safe' if it matches _?<short_name>(_?<n>)?, is an identifier, not a keyword and not an attribute of the list class",
]
MUST_HIT = ["stale-name-probe", "extend:gen", "extend:iter", "extend:nil", "op:append", "op:insert", "op:extend", "op:remove", "op:pop", "op:clear", "op:copy",
            "op:deepcopy", "op:pickle", "collision", "equal-distinct-removed", "same-object-twice"]

NAMES = ["x", "x", "x_2", "y_", "class", "1a", "append", "keys", "items", "copy", "_x", "x2", "y_2", "0a", "007", "9"]


@dataclass
class It:
    short_name: str
    payload: int = 0


def _nil():
    from odxtools.nameditemlist import NamedItemList
    return NamedItemList


class Interp:
    """applies JSON-able operations to a NamedItemList and to the model list"""

    def __init__(self):
        self.NIL = _nil()
        self.real = self.NIL()
        self.model: list = []
        self.pool: list = []       # every item object ever created, op args refer to pool indices
        self.ops: list = []
        self.classes: set = set()
        self.removed = False
        self.collision = False

    # -- helpers -----------------------------------------------------------
    def item(self, ref):
        """ref = ["new", name, payload] | ["old", idx]"""
        if ref[0] == "new":
            it = It(ref[1], ref[2])
            self.pool.append(it)
            return it
        return self.pool[ref[1] % len(self.pool)] if self.pool else self.item(["new", "x", 0])

    def fail(self, clause, detail, bucket=None):
        return core.Failure(clause=clause, detail=detail, case={"ops": core.plain(self.ops)},
                            features={"bucket": bucket or clause, "last_op": self.ops[-1][0] if self.ops else None})

    # -- one step ------------------------------------------------------------
    def step(self, op) -> list:
        self.ops.append(op)
        kind = op[0]
        self.classes.add(f"op:{kind}")
        real, model = self.real, self.model
        try:
            if kind == "append":
                it = self.item(op[1])
                if any(m is it for m in model):
                    self.classes.add("same-object-twice")
                real.append(it); model.append(it)
            elif kind == "insert":
                it = self.item(op[2])
                if any(m is it for m in model):
                    self.classes.add("same-object-twice")
                real.insert(op[1], it); model.insert(op[1], it)
            elif kind == "extend":
                its = [self.item(r) for r in op[1]]
                # extend() takes any iterable (as list.extend does), also one that can be consumed only once
                how = op[2] if len(op) > 2 else "list"
                self.classes.add(f"extend:{how}")
                arg = {"list": lambda: its, "tuple": lambda: tuple(its), "gen": lambda: (x for x in its),
                       "iter": lambda: iter(its), "map": lambda: map(lambda x: x, its),
                       "nil": lambda: type(real)(its)}[how]()
                real.extend(arg); model.extend(its)
            elif kind == "remove":
                it = self.item(op[1])
                exp_exc = None
                try:
                    i = model.index(it)
                    if sum(1 for m in model if m == it) > 1 and any(m == it and m is not it for m in model):
                        self.classes.add("equal-distinct-removed")
                    del model[i]
                    self.removed = True
                except ValueError:
                    exp_exc = ValueError
                try:
                    real.remove(it)
                    if exp_exc:
                        return [self.fail("remove-absent", "remove of absent item did not raise ValueError")]
                except ValueError:
                    if not exp_exc:
                        return [self.fail("remove-present", "remove of present item raised ValueError")]
                    self.classes.add("remove-absent")
            elif kind == "pop":
                idx = op[1]
                exp_exc = None
                exp = None
                try:
                    if idx is None:
                        exp = model.pop()
                    else:
                        exp = model.pop(idx)
                    self.removed = True
                    if any(m == exp and m is not exp for m in model):
                        self.classes.add("equal-distinct-removed")
                except IndexError:
                    exp_exc = IndexError
                try:
                    got = real.pop() if idx is None else real.pop(idx)
                    if exp_exc:
                        return [self.fail("pop-range", "pop out of range did not raise IndexError")]
                    if got is not exp:
                        return [self.fail("pop-result", f"pop returned {got!r}, model {exp!r}")]
                except IndexError:
                    if not exp_exc:
                        return [self.fail("pop-range", "pop in range raised IndexError")]
                    self.classes.add("pop-empty")
            elif kind == "clear":
                if model:
                    self.removed = True
                real.clear(); model.clear()
            elif kind in ("copy", "copycopy"):
                new = real.copy() if kind == "copy" else copy.copy(real)
                if not isinstance(new, self.NIL):
                    return [self.fail("copy-type", f"{kind} returned {type(new).__name__}")]
                if len(new) != len(model) or any(a is not b for a, b in zip(new, model)):
                    return [self.fail("copy-content", f"{kind} does not hold the same items in order")]
                if kind == "copy" and not (new == real):
                    return [self.fail("copy-equal", "copy() is not equal to the original")]
                # independence: mutating the copy must not touch the original
                probe = It("probe", 99)
                new.append(probe)
                f = self.invariants(real, model, "original-after-copy-mutation")
                if f:
                    return f
                new.pop()
                self.real = new   # continue with the copy
            elif kind in ("deepcopy", "pickle"):
                new = copy.deepcopy(real) if kind == "deepcopy" else pickle.loads(pickle.dumps(real))
                if not isinstance(new, self.NIL):
                    return [self.fail("copy-type", f"{kind} returned {type(new).__name__}")]
                if len(new) != len(model) or any(a != b for a, b in zip(new, model)):
                    return [self.fail("copy-content", f"{kind} does not hold equal items in order")]
                if any(a is b for a, b in zip(new, model)):
                    return [self.fail("copy-content", f"{kind} shares item objects with the original")]
                # aliasing pattern preserved
                for i, j in itertools.combinations(range(len(model)), 2):
                    if (model[i] is model[j]) != (new[i] is new[j]):
                        return [self.fail("copy-alias", f"{kind} changed the aliasing between positions {i} and {j}")]
                f = self.invariants(real, model, "original-after-" + kind)
                if f:
                    return f
                self.real = new
                # pool objects are replaced by their copies so that later "old" refs address live objects
                mp = {id(o): n for o, n in zip(model, new)}
                self.pool = [mp.get(id(o), o) for o in self.pool]
                self.model = list(new)
            else:
                raise AssertionError(f"unknown op {op}")
        except (ValueError, IndexError):
            raise
        except Exception as e:  # any other exception out of a list operation
            return [self.fail("exception", f"{kind} raised {type(e).__name__}: {e}", bucket=f"exception:{kind}:{type(e).__name__}")]
        return self.invariants(self.real, self.model, "after-" + kind)

    # -- invariants ------------------------------------------------------------
    def invariants(self, real, model, where) -> list:
        lst = list(real)
        if len(lst) != len(model) or any(a is not b for a, b in zip(lst, model)):
            return [self.fail("list-view", f"{where}: list(nil) differs from the model list")]
        if len(real) != len(model):
            return [self.fail("list-view", f"{where}: len")]
        keys = list(real.keys())
        vals = list(real.values())
        items = list(real.items())
        if len(keys) != len(model):
            return [self.fail("one-name-per-item", f"{where}: {len(keys)} names for {len(model)} items: keys={keys}")]
        # multiset of values == multiset of list elements by identity
        a = sorted(id(v) for v in vals)
        b = sorted(id(v) for v in model)
        if a != b:
            return [self.fail("name-view-items", f"{where}: names refer to other objects than the list holds: keys={keys}")]
        names = [m.short_name for m in model]
        if len(set(names)) < len(names) or any(n[0].isdigit() or keyword.iskeyword(n) or hasattr(self.NIL, n) for n in names):
            self.collision = True
            self.classes.add("collision")
        for k, v in items:
            if real[k] is not v:
                return [self.fail("key-access", f"{where}: nil[{k!r}] is not the item listed under that key")]
            try:
                g = getattr(real, k)
            except AttributeError:
                return [self.fail("attr-access", f"{where}: getattr(nil, {k!r}) raises AttributeError")]
            if g is not v:
                return [self.fail("attr-access", f"{where}: getattr(nil, {k!r}) is not the item (shadowed by {type(g).__name__})")]
            sn = v.short_name
            if not re.fullmatch(r"_?" + re.escape(sn) + r"(_?\d+)?", k):
                return [self.fail("name-form", f"{where}: key {k!r} for short name {sn!r}")]
            if not k.isidentifier() or keyword.iskeyword(k):
                return [self.fail("name-form", f"{where}: key {k!r} is not identifier-safe")]
            if hasattr(self.NIL, k) or hasattr(list, k):
                return [self.fail("shadow", f"{where}: key {k!r} shadows a list attribute")]
        # no name refers to an item that is not in the list: names seen earlier that are not names now
        self.ever = getattr(self, "ever", set()) | set(keys)
        for k in sorted(self.ever - set(keys)):
            if hasattr(self.NIL, k):
                continue
            try:
                g = getattr(real, k)
            except AttributeError:
                g = None
            else:
                self.classes.add("stale-name-probe")
                return [self.fail("stale-name", f"{where}: getattr(nil, {k!r}) still yields {g!r} although no item has that name "
                                  f"(keys={keys})")]
            if real.get(k) is not None:
                return [self.fail("stale-name", f"{where}: nil.get({k!r}) still yields an item (keys={keys})")]
            self.classes.add("stale-name-probe")
        for i, m in enumerate(model):
            if real[i] is not m:
                return [self.fail("positional", f"{where}: nil[{i}]")]
        if model and real[-1] is not model[-1]:
            return [self.fail("positional", f"{where}: nil[-1]")]
        return []

    def nontrivial(self):
        return len(self.ops) >= 3 and self.collision and self.removed


def run_ops(ops) -> tuple[list, Interp]:
    ip = Interp()
    for op in ops:
        f = ip.step(op)
        if f:
            return f, ip
    return [], ip


# ---------------------------------------------------------------------------
# exhaustive enumeration of short histories over a small alphabet
# ---------------------------------------------------------------------------
ENUM_ITEMS = [["new", "x", 1], ["new", "x", 1], ["new", "x_2", 0]]


def _enum_alphabet():
    ops = []
    for i in range(3):
        ops += [["append", ["old", i]], ["insert", 0, ["old", i]], ["remove", ["old", i]]]
    ops += [["pop", None], ["pop", 0], ["clear"], ["copy"], ["deepcopy"]]
    return ops


def _run_enum(prefix, depth, res: core.ShardResult):
    alpha = _enum_alphabet()
    n = 0
    for tail in itertools.product(range(len(alpha)), repeat=depth - len(prefix)):
        seq = list(prefix) + list(tail)
        ip = Interp()
        for r in ENUM_ITEMS:
            ip.item(r)
        fails = []
        for oi in seq:
            fails = ip.step(alpha[oi])
            if fails:
                break
        n += 1
        if fails:
            # make the case self-contained: items are created by explicit "new" refs on first use
            f = fails[0]
            f.case = {"ops": core.plain(ip.ops), "pool": ENUM_ITEMS}
            res.failures.append(f)
            if len(res.failures) > 20:
                break
        res.note({"ops": ip.ops}, ip.nontrivial(), ip.classes, sample=(n % 997 == 1))
    return n


def replay(case) -> list:  # supports the optional pre-created pool of enumeration cases
    ip = Interp()
    for r in case.get("pool", []):
        ip.item(r)
    for op in case["ops"]:
        f = ip.step(op)
        if f:
            return f
    return []


# ---------------------------------------------------------------------------
# Hypothesis rule-based machine
# ---------------------------------------------------------------------------
def _machine(res: core.ShardResult, kf):
    from hypothesis import strategies as st
    from hypothesis.stateful import RuleBasedStateMachine, invariant, precondition, rule
    from vlib import known

    names = st.sampled_from(NAMES)
    newref = st.builds(lambda n, p: ["new", n, p], names, st.integers(0, 1))
    ref = st.one_of(newref, newref, st.builds(lambda i: ["old", i], st.integers(0, 30)))

    class M(RuleBasedStateMachine):
        def __init__(self):
            super().__init__()
            self.ip = Interp()
            self.dead = False

        def do(self, op):
            if self.dead:
                return
            fails = self.ip.step(op)
            if fails:
                k = known.match(kf, fails[0])
                if k is not None:
                    res.known_hits[k["id"]] += 1
                    self.dead = True      # model and implementation have diverged in a recorded way
                    return
                M.last_fail = fails
                raise core._Viol()

        @rule(r=ref)
        def append(self, r): self.do(["append", r])

        @rule(i=st.integers(-6, 6), r=ref)
        def insert(self, i, r): self.do(["insert", i, r])

        @rule(rs=st.lists(ref, max_size=3), how=st.sampled_from(["list", "tuple", "gen", "iter", "map", "nil"]))
        def extend(self, rs, how): self.do(["extend", rs, how])

        @rule(i=st.integers(0, 30))
        def remove_present(self, i): self.do(["remove", ["old", i]])

        @rule(r=newref)
        def remove_equal_or_absent(self, r): self.do(["remove", r])

        @rule(i=st.one_of(st.none(), st.integers(-6, 6)))
        def pop(self, i): self.do(["pop", i])

        @rule()
        def clear(self): self.do(["clear"])

        @rule(k=st.sampled_from(["copy", "copycopy", "deepcopy", "pickle"]))
        def copy_(self, k): self.do([k])

        def teardown(self):
            ip = self.ip
            res.note({"ops": ip.ops}, ip.nontrivial(), ip.classes)

    M.last_fail = None
    return M


def shards(tier):
    out = []
    nh = 8 if tier == "quick" else 16
    for i in range(nh):
        out.append(("hyp", i))
    depth = 4 if tier == "quick" else 5
    alpha = len(_enum_alphabet())
    # split the enumeration by first operation
    for first in range(alpha):
        out.append(("enum", depth, first))
    return out


def run_shard(spec, seed, tier):
    import hypothesis
    from hypothesis.stateful import run_state_machine_as_test
    from vlib import known
    res = core.ShardResult()
    kf = known.load(PROPERTY)
    if spec[0] == "enum":
        _, depth, first = spec
        total = 0
        for d in range(1, depth + 1):
            total += _run_enum([first], d, res)
        res.stages["enumeration"] = total
        res.exhaustive_subspaces.append(
            f"all operation sequences of length <= {depth} over 3 items (x,1),(x,1),(x_2,0) x "
            f"{len(_enum_alphabet())} operations")
        return res
    M = _machine(res, kf)
    n = 250 if tier == "quick" else 2500
    try:
        run_state_machine_as_test(
            hypothesis.seed(seed)(M),
            settings=core.hyp_settings(n, stateful_step_count=30 if tier == "quick" else 50))
    except core._Viol:
        res.failures.extend(M.last_fail)
    except BaseException as e:
        if M.last_fail is not None and "_Viol" in repr(e):
            res.failures.extend(M.last_fail)
        else:
            raise
    res.stages["hypothesis"] = n
    return res
