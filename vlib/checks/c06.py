"""C06 — messages are attributed to exactly the services whose description matches.

Domain: generated diagnostic layers (1..5 services; request prefixes of 0..3 constant
bytes over a 3-letter alphabet, realised as 8/16-bit constants in both byte orders or as
two sub-byte constants, optionally followed by a constant run that ends in the middle of a
byte shared with a sub-byte VALUE; further VALUE parameters; positive responses with
MATCHING-REQUEST-PARAM; negative responses with NRC-CONST alternatives; global negative
responses) x messages (reference encodings of every request/response, their truncations
and extensions, all strings of length <= 3 over a 5-letter alphabet, random short strings).
Oracle: the three-valued reference dispatcher of vlib/models/dispatch.py.
"""
from __future__ import annotations

import io
import itertools
import random
import warnings

from vlib import core
from vlib.models import dispatch as D

PROPERTY = "C06"
RULE = ("one evaluation = one (layer description, message) decode, one decode_response(resp, req) "
        "pair or one service_groups view, judged by the three-valued reference dispatcher; "
        "non-trivial = the layer has >=2 services sharing the first byte of a lookup prefix, or a "
        "service with an empty constant prefix, or a global negative response, AND the message is "
        "matched (MUST or MAY) by >=1 service or is a truncation of an own encoding; distinct = "
        "digest of (layer description, kind, message bytes)")
ASSUMPTIONS = [
    "DecodeError-category warnings are escalated to errors as in the repository's pytest configuration, so a coded-constant mismatch means 'does not match'",
    "a message with trailing bytes after a complete match is undecided (MAY): nothing is asserted about the service",
    "two coding objects of the same service that both take the message make that service undecided (MAY)",
    "a MATCHING-REQUEST-PARAM excludes a service only if it lies in the leading constant run of the response and is completely covered by the constant prefix of the request; elsewhere a mismatch is undecided (MAY)",
    "a global negative response applies to a service only if the request bytes it echoes exist in that request",
    "the value reported for a MATCHING-REQUEST-PARAM may be the bytes or their big/little endian integer",
    "service_groups is only judged for services whose first request byte is completely constant",
    "own-encoding clause: a request/response encoded by odxtools itself is only judged when its bytes differ from the reference encoding (identical bytes are covered by the decode clause); a rejected encoding is not judged here (C04)",
    "BYTE-POSITION is omitted only where the ODX cursor rule (byte after the previously listed parameter) gives the same position; BIT-POSITION of a value crossing a byte boundary counts from the least significant bit of its last byte (high-low order)",
    "the reference encoder/dispatcher (vlib/models/dispatch.py) is a second reading of ODX by the author of the check",
]
MUST_HIT = ["prefix:empty", "prefix:equal", "prefix:nested", "cc:16hl", "cc:16lh", "cc:subbyte",
            "resp:pos-mrp", "resp:neg-nrc", "gnr", "gnr:mrp", "msg:own-request", "msg:own-pos",
            "msg:own-neg", "msg:own-gnr", "msg:truncated", "msg:exhaustive", "msg:random",
            "attributed:request", "attributed:pos", "attributed:neg", "attributed:gnr",
            "shared-must", "raise-ok", "via-request:ok", "groups:ok", "cc:midbyte", "attributed:midbyte", "attributed:nrc0",
            "pos:implicit", "val:crossing", "crossing:cut-inside", "crossing:cut-inside-other-attributed",
            "nrc:subbyte", "nrc:subbyte-then-implicit", "odxenc:same:request", "odxenc:same:pos",
            "odxenc:same:neg", "odxenc:same:gnr", "response:empty-prefix:decode_response"]

ALPHA = [0x10, 0x11, 0x22]
POOL = [0x50, 0x51, 0x62, 0x7F, 0x10, 0x11, 0x22]
NRCS = [0x00, 0x11, 0x12, 0x22, 0x31]     # 0 is a legal (boundary) response code
VAL8 = [0x10, 0x11, 0x22, 0x50, 0x51, 0x62, 0x7F, 0x00, 0x01, 0xFF, 0x12, 0x31]


# ---------------------------------------------------------------------------
# generator
# ---------------------------------------------------------------------------
def _cc(name, pos, val, nbits=8, bit=0, hl=True):
    return {"k": "cc", "name": name, "pos": pos, "bit": bit, "len": nbits, "val": val, "hl": hl}


def _val(name, pos, nbits=8, hl=True):
    return {"k": "val", "name": name, "pos": pos, "len": nbits, "hl": hl}


def layers_strategy():
    from hypothesis import strategies as st

    byte8 = st.one_of(st.sampled_from(VAL8), st.integers(0, 255))

    @st.composite
    def prefix_params(draw, pre):
        """realise the constant bytes `pre` as coded constants"""
        out, i = [], 0
        while i < len(pre):
            modes = ["b8", "b8"]
            if i + 1 < len(pre):
                modes += ["w16hl", "w16lh"]
            if i == 0:
                modes += ["sub"]
            m = draw(st.sampled_from(modes))
            if m == "b8":
                out.append(_cc(f"c{len(out)}", i, pre[i], 8, 0, draw(st.booleans())))
                i += 1
            elif m == "w16hl":
                out.append(_cc(f"c{len(out)}", i, (pre[i] << 8) | pre[i + 1], 16, 0, True))
                i += 2
            elif m == "w16lh":
                out.append(_cc(f"c{len(out)}", i, (pre[i + 1] << 8) | pre[i], 16, 0, False))
                i += 2
            else:
                k = draw(st.sampled_from([4, 4, 1, 2, 3, 5, 6, 7]))   # width of the low part
                lo = _cc("clo", i, pre[i] & ((1 << k) - 1), k, 0, True)
                hi = _cc("chi", i, pre[i] >> k, 8 - k, k, True)
                out += [hi, lo] if draw(st.booleans()) else [lo, hi]
                i += 1
        return out

    @st.composite
    def tail_params(draw, pos, maxn=2, allow_const=True):
        """0..maxn VALUE parameters (and rarely one constant behind them) from byte `pos`"""
        out = []
        for k in range(draw(st.integers(0, maxn))):
            nbits = draw(st.sampled_from([8, 8, 16]))
            out.append(_val(f"v{k}", pos, nbits, draw(st.booleans())))
            pos += nbits // 8
        if allow_const and out and draw(st.integers(0, 7)) == 0:
            out.append(_cc("ctail", pos, draw(st.sampled_from(ALPHA)), 8, 0, True))
            pos += 1
        return out

    @st.composite
    def split_byte(draw, pos):
        """a constant run that ends in the middle of byte `pos`: k constant bits and a VALUE of
        8-k bits share the byte (the byte is not part of the constant prefix)"""
        k = draw(st.sampled_from([4, 4, 1, 2, 3, 5, 6, 7]))
        high = draw(st.sampled_from([True, True, False]))
        cbit, vbit = (8 - k, 0) if high else (0, k)
        target = draw(st.sampled_from(ALPHA + [0x35, 0xF0, 0x0F]))
        return [_cc("cmid", pos, (target >> cbit) & ((1 << k) - 1), k, cbit, True),
                {"k": "val", "name": "vsub", "pos": pos, "bit": vbit, "len": 8 - k, "hl": True}]

    @st.composite
    def cross_bytes(draw, pos):
        """bytes pos..pos+1: a VALUE `vx` of n bits at BIT-POSITION k > 0 that crosses the byte
        boundary (e.g. 8 bits at bit position 4: the 2-byte word holds `value << 4`, so the value
        occupies the low bits of byte pos and the high bits of byte pos+1), and optionally a low part
        of k bits (constant or VALUE) in the free low bits of byte pos+1"""
        k = draw(st.sampled_from([4, 4, 1, 2, 3, 5, 6, 7]))
        n = draw(st.sampled_from([8, 8, 16 - k, 9 - k + draw(st.integers(0, 6))]))
        n = max(9 - k, min(n, 16 - k))
        out = [{"k": "val", "name": "vx", "pos": pos, "bit": k, "len": n, "hl": True}]
        low = draw(st.integers(0, 2))
        if low == 1:
            out.append(_cc("clow", pos + 1, draw(st.sampled_from(ALPHA + [0x35, 0x0F])) & ((1 << k) - 1), k, 0, True))
        elif low == 2:
            out.append({"k": "val", "name": "vlow", "pos": pos + 1, "bit": 0, "len": k, "hl": True})
        return out if draw(st.booleans()) else out[::-1]

    @st.composite
    def mrp_param(draw, pos, rqlen, npre):
        """optional MATCHING-REQUEST-PARAM echoing existing request bytes.  npre = length of the
        constant request prefix (None: unknown); an echo that is only partly covered by that
        prefix is generated rarely (it is a recorded defect that disables the whole layer)"""
        if rqlen == 0 or draw(st.integers(0, 2)) == 0:
            return None
        opts = [(a, n) for a in range(min(3, rqlen)) for n in (1, 2) if a + n <= rqlen]
        if npre is not None:
            clean = [(a, n) for a, n in opts if not (a < npre < a + n)]
            if clean and draw(st.integers(0, 9)) != 0:
                opts = clean
        rqpos, n = draw(st.sampled_from(opts))
        return {"k": "mrp", "name": "echo", "pos": pos, "rqpos": rqpos, "n": n}

    @st.composite
    def response(draw, name, first, rqlen, npre, neg, nrc_vals=None):
        ps = [_cc("sid", 0, first, 8, 0, True)]
        pos = 1
        shape = draw(st.integers(0, 11))
        if npre is not None and npre >= 1 and draw(st.integers(0, 7)) == 0:
            # a response without any leading constant (empty constant prefix) of a service whose
            # request has one: it starts with raw data or with the echo of a non-constant request
            # byte and can only be found through its request (decode_response)
            shape = 99
            if rqlen > npre and draw(st.booleans()):
                a = draw(st.integers(npre, min(rqlen - 1, npre + 1)))
                ps = [{"k": "mrp", "name": "echo0", "pos": 0, "rqpos": a,
                       "n": draw(st.integers(1, min(2, rqlen - a)))}]
                pos = ps[0]["n"]
            else:
                ps = [_val("vraw", 0, 8, True)]
        if shape in (0, 1):
            ps += draw(split_byte(pos))
            pos += 1
        elif shape in (2, 3):
            ps += draw(cross_bytes(pos))
            pos += 2
        m = draw(mrp_param(pos, rqlen, npre))
        if m is not None:
            ps.append(m)
            pos += m["n"]
        if neg and nrc_vals:
            if draw(st.integers(0, 2)) == 0:
                # sub-byte NRC-CONST (the alternatives are numbered 0..4 so that disjoint lists stay
                # disjoint), overlapped by a VALUE of the same extent; the rest of the byte is
                # unused or carries one more VALUE
                k = draw(st.sampled_from([4, 4, 3, 5, 6, 7]))
                b = draw(st.sampled_from([0, 0, 8 - k, draw(st.integers(0, 8 - k))]))
                pair = [{"k": "nrc", "name": "nrcc", "pos": pos, "bit": b, "len": k,
                         "vals": sorted(NRCS.index(v) for v in nrc_vals)},
                        {"k": "val", "name": "nrc", "pos": pos, "bit": b, "len": k, "hl": True}]
                rest = []
                if b == 0 and draw(st.booleans()):
                    rest = [{"k": "val", "name": "vhi", "pos": pos, "bit": k, "len": 8 - k, "hl": True}]
            else:
                pair = [{"k": "nrc", "name": "nrcc", "pos": pos, "vals": list(nrc_vals)}, _val("nrc", pos, 8, True)]
                rest = []
            # either order is legal; VALUE first lets the next parameter follow the NRC-CONST directly
            ps += (pair if draw(st.booleans()) else pair[::-1]) + rest
            pos += 1
            ps += draw(tail_params(pos, 1, allow_const=False))
        else:
            ps += draw(tail_params(pos, 2))
        return {"name": name, "params": ps}

    @st.composite
    def layer(draw):
        services = []
        for i in range(draw(st.integers(1, 5))):
            npre = draw(st.sampled_from([1, 2, 0, 1, 2, 3, 1, 2]))
            pre = [draw(st.sampled_from(ALPHA)) for _ in range(npre)]
            rq = draw(prefix_params(pre))
            nfix = npre
            shape = draw(st.integers(0, 11)) if npre >= 1 else 99
            if shape in (0, 1):
                rq += draw(split_byte(npre))     # first byte stays completely constant
                nfix += 1
            elif shape in (2, 3):
                rq += draw(cross_bytes(npre))
                nfix += 2
            rq += draw(tail_params(nfix, 2))
            if not rq and draw(st.integers(0, 3)):
                rq = [_val("v0", 0, 8, True)]      # a request without any parameter stays rare
            rqo = {"name": f"rq_s{i}", "params": rq}
            rqlen = D.obj_len(rqo)
            used = set(pre[:1])
            pos, neg = [], []
            for j in range(draw(st.integers(0, 2))):
                free = [b for b in POOL if b not in used]
                first = draw(st.sampled_from(free))
                used.add(first)
                pos.append(draw(response(f"pr_s{i}_{j}", first, rqlen, npre, False)))
            nneg = draw(st.integers(0, 2))
            if nneg:
                # NRC-CONST alternatives: the negative responses of one service share their first
                # byte and are told apart by disjoint NRC lists
                free = [b for b in [0x7F] + POOL if b not in used]
                first = draw(st.sampled_from(free))
                used.add(first)
                nrcs = draw(st.permutations(NRCS))
                cut = draw(st.integers(1, 3))
                parts = [nrcs[:cut], nrcs[cut:]] if nneg == 2 else [nrcs[:cut]]
                for j, part in enumerate(parts):
                    neg.append(draw(response(f"nr_s{i}_{j}", first, rqlen, npre, True, sorted(part))))
            services.append({"name": f"s{i}", "rq": rqo, "pos": pos, "neg": neg})
        minrq = min(D.obj_len(s["rq"]) for s in services)
        gnrs = []
        for j in range(draw(st.sampled_from([0, 1, 0, 2]))):
            first = draw(st.sampled_from([0x7F, 0x7F] + POOL))
            nrc_vals = sorted(draw(st.permutations(NRCS))[:draw(st.integers(1, 2))]) \
                if draw(st.booleans()) else None
            # for a global response "partly covered" depends on the service: 1-byte echoes are never partial
            gnrs.append(draw(response(f"gnr_{j}", first, min(minrq, 1 if draw(st.integers(0, 5)) else 2),
                                      None, True, nrc_vals)))
        return {"services": services, "gnrs": gnrs}

    @st.composite
    def case(draw):
        lay = draw(layer())
        values = {}
        objs = [o for s in lay["services"] for o in [s["rq"]] + s["pos"] + s["neg"]] + lay["gnrs"]
        for o in objs:
            vs = {}
            nrc = next((p for p in o["params"] if p["k"] == "nrc"), None)
            for p in o["params"]:
                if p["k"] != "val":
                    continue
                if nrc is not None and p["name"] == "nrc":
                    vs[p["name"]] = draw(st.sampled_from(nrc["vals"]))
                elif p["len"] < 8:
                    top = (1 << p["len"]) - 1
                    vs[p["name"]] = draw(st.one_of(st.integers(1, top), st.integers(0, top)))
                elif p["len"] == 8:
                    vs[p["name"]] = draw(byte8)
                else:
                    vs[p["name"]] = ((draw(byte8) << 8) | draw(byte8)) & ((1 << p["len"]) - 1)
            values[o["name"]] = vs
        # BYTE-POSITION may be omitted where the cursor (byte after the end of the previously listed
        # parameter) is where the parameter lives anyway
        for o in objs:
            end, prev = 0, None
            for p in o["params"]:
                a, n = D.param_span(p)
                # more often right behind an NRC-CONST (which moves the cursor without writing anything)
                if a == end and draw(st.integers(0, 5)) < (4 if prev == "nrc" else 2):
                    p["imp"] = True
                end, prev = a + n, p["k"]
        extra = draw(st.lists(st.binary(min_size=0, max_size=6).map(
            lambda b: bytes(VAL8[x % len(VAL8)] if x < 200 else x for x in b)), max_size=8))
        return {"layer": lay, "values": values, "extra": extra}

    return case()


# ---------------------------------------------------------------------------
# running odxtools
# ---------------------------------------------------------------------------
def load(layer):
    import odxtools.exceptions as oex
    from odxtools.database import Database
    oex.strict_mode = True
    db = Database()
    db.add_odx_file(io.BytesIO(D.layer_xml(layer)))
    db.refresh()
    return db.diag_layers["bv"]


def _call(fn, *args):
    """call into odxtools with DecodeError warnings escalated (pyproject.toml: error::DecodeError)"""
    from odxtools.exceptions import DecodeError
    with warnings.catch_warnings():
        warnings.simplefilter("ignore")
        warnings.simplefilter("error", DecodeError)
        try:
            return fn(*args), None
        except Exception as e:  # classified by the oracle
            return None, e


def _is_decode_error(e) -> bool:
    from odxtools.exceptions import DecodeError
    return isinstance(e, DecodeError)


# ---------------------------------------------------------------------------
# oracle
# ---------------------------------------------------------------------------
def _is_prefix(p: bytes, m: bytes) -> bool:
    return len(p) <= len(m) and m[:len(p)] == p


def _kind_of(layer, objname) -> str:
    for s in layer["services"]:
        if s["rq"]["name"] == objname:
            return "request"
        if any(o["name"] == objname for o in s["pos"]):
            return "pos"
        if any(o["name"] == objname for o in s["neg"]):
            return "neg"
    return "gnr"


def _structure(layer, verdicts, path: bytes) -> dict:
    """reference-side description of why a lookup along `path` could be disturbed:
    blockers = services with a lookup prefix on the path that cannot take the message cleanly."""
    blockers = []
    for s in layer["services"]:
        v = verdicts[s["name"]]
        if not any(len(p) > 0 and _is_prefix(p, path) for p in D.all_prefixes(layer, s)):
            continue
        own = [f for f in v.fits if _kind_of(layer, f.obj["name"]) != "gnr"]
        if v.cls != D.MUST and (v.ambiguous or all(f.cls == D.NOT for f in own)):
            blockers.append(s["name"])
            continue
        rp = D.request_prefix(s)
        for f in own:
            pre = D.const_prefix(f.obj, rp if f.obj is not s["rq"] else b"")
            if f.cls == D.NOT and f.why in ("short", "const", "mrp") and _is_prefix(pre, path):
                blockers.append(s["name"])
                break
    return {"blockers": blockers}


def _empty_prefix_only(layer, service, verdict) -> bool:
    """every coding object under which the service takes the message has an empty constant prefix"""
    rp = D.request_prefix(service)
    ok = [f for f in verdict.fits if f.cls != D.NOT]
    return bool(ok) and all(
        len(D.const_prefix(f.obj, b"" if f.obj is service["rq"] else rp)) == 0 for f in ok)


def _partial_mrp(layer) -> bool:
    for s in layer["services"]:
        rp = D.request_prefix(s)
        for o in s["pos"] + s["neg"] + [g for g in layer["gnrs"] if D.gnr_applicable(g, s)]:
            for p in o["params"]:
                if p["k"] == "mrp" and p["rqpos"] < len(rp) < p["rqpos"] + p["n"]:
                    # only relevant while the parameter is still in the leading constant run
                    return True
                if p["k"] in ("val", "nrc"):
                    break
    return False


def _same_value(exp, got) -> bool:
    if isinstance(exp, (bytes, bytearray)):
        if isinstance(got, (bytes, bytearray)):
            return bytes(got) == bytes(exp)
        return isinstance(got, int) and not isinstance(got, bool) and got in (
            int.from_bytes(exp, "big"), int.from_bytes(exp, "little"))
    return isinstance(got, int) and not isinstance(got, bool) and got == exp


def _check_messages(layer, msgs, service_name, verdict, mk):
    """the reported interpretation(s) of a MUST service: coding object accepted by the reference
    and equivalent values.  Returns (failures, kinds reported)"""
    fails, kinds = [], set()
    acc = verdict.accepted()
    for m in msgs:
        if m.service.short_name != service_name:
            continue
        co = getattr(m.coding_object, "short_name", None)
        if co not in acc:
            why = next((f.why for f in verdict.fits if f.obj["name"] == co), None)
            gnr_mrp = _kind_of(layer, co) == "gnr" and why == "mrp"
            fails.append(mk("wrong-coding-object",
                            f"service {service_name} reported with coding object {co!r}, the reference "
                            f"accepts {sorted(acc)} ({verdict.why()})",
                            "gnr-mrp" if gnr_mrp else "other", service=service_name,
                            cause="gnr-mrp-unbound" if gnr_mrp else "none"))
            continue
        exp = acc[co]
        got = dict(m.param_dict)
        if set(exp) != set(got) or not all(_same_value(exp[k], got[k]) for k in exp):
            fails.append(mk("wrong-values", f"{service_name}/{co}: values {got!r}, expected {exp!r}",
                            "wrong-values"))
            continue
        kinds.add(_kind_of(layer, co))
    return fails, kinds


def eval_decode(layer, dl, msg: bytes):
    """-> (failures, classes, matched?)"""
    verdicts = D.classify(layer, msg)
    must = sorted(n for n, v in verdicts.items() if v.cls == D.MUST)
    may = sorted(n for n, v in verdicts.items() if v.cls == D.MAY)
    classes = set()
    case = {"kind": "decode", "layer": layer, "msg": msg}

    def mk(clause, detail, bucket, **feat):
        st = _structure(layer, verdicts, msg)
        svc = {s["name"]: s for s in layer["services"]}
        feat.update(bucket=bucket, blockers=st["blockers"], must=must, may=may,
                    empty_prefix_only=[n for n in must if _empty_prefix_only(layer, svc[n], verdicts[n])],
                    partial_mrp=_partial_mrp(layer))
        return core.Failure(clause=clause, detail=f"decode({msg.hex()}): {detail}", case=core.plain(case),
                            features=feat)

    res, exc = _call(dl.decode, msg)
    fails = []
    classes.add("must:%s" % (len(must) if len(must) < 2 else "2+"))
    if len(must) >= 2:
        classes.add("shared-must")
    if not must and may:
        classes.add("may-only")
    if exc is not None:
        en = type(exc).__name__
        if must:
            st = _structure(layer, verdicts, msg)
            svc = {s["name"]: s for s in layer["services"]}
            epo = all(_empty_prefix_only(layer, svc[n], verdicts[n]) for n in must)
            # no exactly matching service can be looked up at all -> that alone explains the error
            cause = ("empty-prefix" if epo else "blocker" if st["blockers"] else "none") \
                if _is_decode_error(exc) else "foreign"
            fails.append(mk("raised-despite-must",
                            f"raised {en}: {str(exc)[:120]} although {must} match exactly "
                            f"({ {n: verdicts[n].why() for n in must} })",
                            f"{en}:{cause}", exc=en, cause=cause))
        elif not may:
            if _is_decode_error(exc):
                classes.add("raise-ok")
            else:
                fails.append(mk("foreign-exception", f"raised {en}: {str(exc)[:120]} instead of a DecodeError",
                                f"{en}", exc=en, cause="foreign"))
        return fails, classes, bool(must or may)
    got = sorted({m.service.short_name for m in res})

    def via_unbound_gnr(n):
        """every interpretation reported for service n is a global negative response that the
        reference excludes only because its MATCHING-REQUEST-PARAM does not fit n's request"""
        co = {getattr(m.coding_object, "short_name", None) for m in res if m.service.short_name == n}
        return bool(co) and all(
            _kind_of(layer, c) == "gnr" and any(f.obj["name"] == c and f.why == "mrp" for f in verdicts[n].fits)
            for c in co)

    if not must and not may:
        unb = all(n in verdicts and via_unbound_gnr(n) for n in got)
        fails.append(mk("no-raise-when-unmatched", f"returned {got} although no service matches",
                        "gnr-mrp" if unb else "other", cause="gnr-mrp-unbound" if unb else "none"))
    missing = [n for n in must if n not in got]
    svc = {s["name"]: s for s in layer["services"]}
    for n in missing:
        epo = _empty_prefix_only(layer, svc[n], verdicts[n])
        fails.append(mk("missing-must", f"returned {got} without {n} ({verdicts[n].why()})",
                        "empty-prefix" if epo else "other", service=n,
                        cause="empty-prefix" if epo else "none"))
    for n in got:
        if n in verdicts and verdicts[n].cls == D.NOT:
            co = sorted({getattr(m.coding_object, "short_name", None) for m in res if m.service.short_name == n})
            gnr_mrp = via_unbound_gnr(n)
            fails.append(mk("extra-mustnot", f"reported {n} via {co} although every coding object is excluded "
                            f"({verdicts[n].why()})", "gnr-mrp" if gnr_mrp else "other", service=n,
                            cause="gnr-mrp-unbound" if gnr_mrp else "none"))
    for n in must:
        if n in got:
            f2, kinds = _check_messages(layer, res, n, verdicts[n], mk)
            fails += f2
            classes.update(f"attributed:{k}" for k in kinds)
    return fails, classes, bool(must or may)


def eval_response(layer, dl, service, resp_obj, req: bytes, resp: bytes):
    """decode_response(resp, req) must contain the service that owns req"""
    name = service["name"]
    verdicts = D.classify(layer, resp)
    v = verdicts[name]
    case = {"kind": "response", "layer": layer, "service": name, "object": resp_obj["name"],
            "req": req, "resp": resp}
    if v.cls != D.MUST:
        return [], {"via-request:undecided"}
    # lookup goes along the request bytes; who else is on that path and cannot take resp?
    st = _structure(layer, verdicts, req)
    blockers = st["blockers"]
    # the owner itself is only found if one of its prefixes is non-empty and on the path
    findable = any(len(p) > 0 and _is_prefix(p, req) for p in D.all_prefixes(layer, service))

    def mk(clause, detail, bucket, **feat):
        feat.update(bucket=bucket, blockers=blockers, owner_findable=findable, partial_mrp=_partial_mrp(layer))
        return core.Failure(clause=clause, detail=f"decode_response({resp.hex()}, {req.hex()}): {detail}",
                            case=core.plain(case), features=feat)

    res, exc = _call(dl.decode_response, resp, req)
    if exc is not None:
        en = type(exc).__name__
        cause = ("empty-prefix" if not findable else "blocker" if blockers else "none") \
            if _is_decode_error(exc) else "foreign"
        return [mk("response-via-request", f"raised {en}: {str(exc)[:120]}; expected {name} via "
                   f"{resp_obj['name']}", f"raised:{en}:{cause}", exc=en, cause=cause)], set()
    got = sorted({m.service.short_name for m in res})
    if name not in got:
        cause = "empty-prefix" if not findable else "none"
        return [mk("response-via-request", f"returned {got} without the owner {name}", f"missing:{cause}",
                   cause=cause)], set()
    fails, _ = _check_messages(layer, res, name, v, mk)
    classes = {"via-request:ok"}
    rp = D.request_prefix(service)
    if not fails and rp and resp_obj in service["pos"] + service["neg"] and not D.const_prefix(resp_obj, rp):
        classes.add("response:empty-prefix:decode_response")
    return fails, classes


def eval_own_encoding(layer, dl, kind, service, obj, req: bytes, ref_msg: bytes, vals: dict):
    """the request / response as encoded *by odxtools* from the original values is attributed to
    its service with those values.  When odxtools produces the same bytes as the reference encoder
    the general decode clause already covers the message."""
    name = service["name"]
    case = {"kind": "ownenc", "layer": layer, "service": name, "object": obj["name"], "okind": kind,
            "req": req, "values": vals}
    svc = dl.services[name]
    if kind == "request":
        enc, exc = _call(lambda: bytes(svc.request.encode(**vals)))
    else:
        robj = next(r for r in [*svc.positive_responses, *svc.negative_responses,
                                *dl.global_negative_responses] if r.short_name == obj["name"])
        enc, exc = _call(lambda: bytes(robj.encode(coded_request=req, **vals)))
    if exc is not None:
        return [], {"odxenc:rejected"}
    if enc == ref_msg:
        return [], {"odxenc:same", f"odxenc:same:{kind}"}
    verdict = D.classify(layer, enc)[name]
    if verdict.ambiguous:
        return [], {"odxenc:differs-undecided"}

    def mk(detail):
        return core.Failure(
            clause="own-encoding",
            detail=f"{obj['name']} encoded by odxtools from {vals} (request {req.hex()}) is {enc.hex()} "
                   f"(reference: {ref_msg.hex()}); {detail}",
            case=core.plain(case), features={"bucket": kind, "okind": kind})

    res, exc = _call(dl.decode, enc)
    if exc is not None:
        return [mk(f"decode raised {type(exc).__name__}: {str(exc)[:100]}")], {"odxenc:differs"}
    for m in res:
        if m.service.short_name == name and getattr(m.coding_object, "short_name", None) == obj["name"] \
                and all(k in m.param_dict and _same_value(v, m.param_dict[k]) for k, v in vals.items()):
            return [], {"odxenc:differs"}
    got = [(m.service.short_name, getattr(m.coding_object, "short_name", None), dict(m.param_dict)) for m in res]
    return [mk(f"decode returned {got}, not {name}/{obj['name']} with the original values")], {"odxenc:differs"}


def _first_const_kind(service) -> str:
    ps = service["rq"]["params"]
    if not ps or ps[0]["k"] != "cc":
        return "none"
    p = ps[0]
    if p["len"] == 16:
        return "cc16hl" if p["hl"] else "cc16lh"
    if p["len"] == 8:
        return "cc8"
    return "subbyte-highfirst" if p["bit"] > 0 else "subbyte-lowfirst"


def eval_groups(layer, dl):
    """service_groups[b] files each service under the (constant) first byte of its request"""
    fails, classes = [], set()
    case = {"kind": "groups", "layer": layer}
    sg, exc = _call(lambda: dl.service_groups)
    if exc is not None:
        return [core.Failure("service-groups", f"service_groups raised {type(exc).__name__}: {exc}",
                             core.plain(case), {"bucket": "raised", "cause": "foreign"})], classes
    keys, exc = _call(lambda: [k for k in sg])
    if exc is not None:
        raise RuntimeError(f"cannot iterate the service groups: {exc!r}")
    for s in layer["services"]:
        b = D.first_request_byte(s)
        if b is None:
            classes.add("groups:no-constant-first-byte")
            continue
        kind = _first_const_kind(s)
        filed = sorted(k for k in keys if k is not None
                       and any(x.short_name == s["name"] for x in sg[k]))
        in_b = any(x.short_name == s["name"] for x in sg[b])
        if not in_b or filed != [b]:
            fails.append(core.Failure(
                "service-groups",
                f"service {s['name']} (request starts with constant byte {b:#04x}, first constant {kind}) is "
                f"filed under {[hex(k) for k in filed] or 'no SID'}",
                core.plain(case), {"bucket": kind, "first_const": kind, "service": s["name"]}))
        else:
            classes.add("groups:ok")
            classes.add(f"groups:ok:{kind}")
    return fails, classes


# ---------------------------------------------------------------------------
# one generated case = one layer + its message set
# ---------------------------------------------------------------------------
def layer_classes(layer) -> set:
    cl = set()
    firsts = []
    rps = []
    for s in layer["services"]:
        rp = D.request_prefix(s)
        rps.append(rp)
        pf = D.all_prefixes(layer, s)
        if any(len(p) == 0 for p in pf):
            cl.add("prefix:empty")
        firsts.append({p[0] for p in pf if p})
        for p in s["rq"]["params"]:
            if p["k"] == "cc":
                if p["len"] == 16:
                    cl.add("cc:16hl" if p["hl"] else "cc:16lh")
                elif p["len"] < 8:
                    cl.add("cc:subbyte")
                    if s["rq"]["params"][0]["bit"] == 0:
                        cl.add("cc:subbyte-lowfirst")
                if p["name"] == "ctail":
                    cl.add("trailing-const")
            if p["k"] == "val" and p["len"] == 16 and not p["hl"]:
                cl.add("val:16lh")
        for o in s["pos"]:
            if any(p["k"] == "mrp" for p in o["params"]):
                cl.add("resp:pos-mrp")
        for o in s["neg"]:
            if any(p["k"] == "nrc" for p in o["params"]):
                cl.add("resp:neg-nrc")
        if len(s["neg"]) == 2:
            cl.add("resp:neg-nrc-alternatives")
    for a, b in itertools.combinations(range(len(rps)), 2):
        if rps[a] and rps[a] == rps[b]:
            cl.add("prefix:equal")
        elif rps[a] and rps[b] and (_is_prefix(rps[a], rps[b]) or _is_prefix(rps[b], rps[a])):
            cl.add("prefix:nested")
        if firsts[a] & firsts[b]:
            cl.add("prefix:shared-first-byte")
    if layer["gnrs"]:
        cl.add("gnr")
        if any(p["k"] == "mrp" for g in layer["gnrs"] for p in g["params"]):
            cl.add("gnr:mrp")
    objs = [o for s in layer["services"] for o in [s["rq"]] + s["pos"] + s["neg"]] + layer["gnrs"]
    if any(p["name"] == "cmid" for o in objs for p in o["params"]):
        cl.add("cc:midbyte")
    for o in objs:
        ps = o["params"]
        for i, p in enumerate(ps):
            if p.get("imp"):
                cl.add("pos:implicit")
            if p["k"] == "val" and p.get("bit", 0) and p.get("bit", 0) + p["len"] > 8:
                cl.add("val:crossing")
            if p["k"] == "nrc" and p.get("len", 8) < 8:
                cl.add("nrc:subbyte")
                if (p.get("bit", 0) + p["len"]) % 8 and i + 1 < len(ps) and ps[i + 1].get("imp"):
                    cl.add("nrc:subbyte-then-implicit")
    if _partial_mrp(layer):
        cl.add("mrp:partial")
    cl.add(f"services:{len(layer['services'])}")
    return cl


def own_messages(layer, values):
    """[(kind, service, obj, req, msg, values used)] reference encodings of every request / response;
    a response with an NRC-CONST is encoded once per listed alternative, so that every alternative
    (including 0) is the decisive byte of an own encoding"""
    out = []
    for s in layer["services"]:
        rv = values[s["rq"]["name"]]
        req = D.encode(s["rq"], rv)
        out.append(("request", s, s["rq"], req, req, rv))
        for kind, objs in (("pos", s["pos"]), ("neg", s["neg"]),
                           ("gnr", [g for g in layer["gnrs"] if D.gnr_applicable(g, s)])):
            for o in objs:
                ov = values[o["name"]]
                out.append((kind, s, o, req, D.encode(o, ov, req), ov))
                nrc = next((p for p in o["params"] if p["k"] == "nrc"), None)
                over = nrc and next((p for p in o["params"] if p["k"] == "val" and p["name"] == "nrc"), None)
                if over:
                    for code in nrc["vals"]:
                        if code != ov[over["name"]]:
                            ov2 = dict(ov, **{over["name"]: code})
                            out.append((kind, s, o, req, D.encode(o, ov2, req), ov2))
    return out


def message_alphabet(layer) -> list:
    extra = []
    objs = [o for s in layer["services"] for o in s["pos"] + s["neg"]] + list(layer["gnrs"])
    for o in objs:
        p = o["params"][0] if o["params"] else None
        if p and p["k"] == "cc" and p["len"] == 8 and p["pos"] == 0:
            extra.append(p["val"])
    extra += [0x50, 0x7F]
    alpha = list(ALPHA)
    for b in extra:
        if b not in alpha and len(alpha) < 5:
            alpha.append(b)
    return alpha


def short_strings(alpha, maxlen=3):
    return [bytes(t) for n in range(maxlen + 1) for t in itertools.product(alpha, repeat=n)]


def run_case(case, res: core.ShardResult | None, kf, stop_at_first=True, exhaustive_len=3):
    """evaluate one layer against its whole message set.  Returns failures that are not known."""
    from vlib import known
    layer, values = case["layer"], case["values"]
    dl = load(layer)
    lcl = layer_classes(layer)
    interesting = bool({"prefix:empty", "prefix:shared-first-byte", "gnr"} & lcl)
    ldig = core.digest(layer).hex()
    new_fails = []

    def account(fails):
        for f in fails:
            k = known.match(kf, f)
            if k is not None:
                if res is not None:
                    res.known_hits[k["id"]] += 1
            else:
                new_fails.append(f)

    # --- messages ---------------------------------------------------------
    own = own_messages(layer, values)
    # self-check of the reference: what it encodes it classifies as exact for the owner
    for kind, s, o, req, m, ov in own:
        rp = None if kind == "request" else D.request_prefix(s)
        f = D.fit(o, m, rp)
        if f.cls != D.MUST or any(f.values[k] != v for k, v in ov.items()):
            raise RuntimeError(f"reference does not round-trip its own encoding: {o['name']} {m.hex()} {f}")
    msgs: dict = {}
    truncs = set()
    for kind, s, o, req, m, ov in own:
        msgs.setdefault(m, f"msg:own-{kind}")
    for kind, s, o, req, m, ov in own:
        if m:
            msgs.setdefault(m[:-1], "msg:truncated")
            truncs.add(m[:-1])
        msgs.setdefault(m + b"\x11", "msg:extended")
    for m in short_strings(message_alphabet(layer), exhaustive_len):
        msgs.setdefault(m, "msg:exhaustive")
    for m in case.get("extra", []):
        msgs.setdefault(bytes(m), "msg:random")

    # own encodings whose constant run ends mid-byte and whose co-located VALUE bits are not 0
    mid = {m for kind, s, o, req, m, ov in own
           if any(p["name"] == "cmid" for p in o["params"]) and ov.get("vsub")}
    # own negative / global negative responses whose decisive NRC-CONST byte is 0
    nrc0 = {m for kind, s, o, req, m, ov in own
            if any(p["k"] == "nrc" and 0 in p["vals"] and D.nrc_value(m, p) == 0 for p in o["params"])}
    # (lookup prefix, length) of messages that end after the first byte of a VALUE crossing a byte boundary
    cuts = []
    for sv in layer["services"]:
        rp = D.request_prefix(sv)
        for o in [sv["rq"]] + sv["pos"] + sv["neg"]:
            for p in o["params"]:
                if p["k"] == "val" and p.get("bit", 0) and p.get("bit", 0) + p["len"] > 8:
                    cuts.append((D.const_prefix(o, b"" if o is sv["rq"] else rp), p["pos"] + 1))
    first = True
    for m, mclass in msgs.items():
        fails, classes, matched = eval_decode(layer, dl, m)
        classes.add(mclass)
        if any(len(m) == n and pre and m.startswith(pre) for pre, n in cuts):
            classes.add("crossing:cut-inside")
            if any(c.startswith("attributed:") for c in classes):
                classes.add("crossing:cut-inside-other-attributed")
        if m in mid:
            classes.add("msg:own-midbyte-nonzero")
            if any(c.startswith("attributed:") for c in classes):
                classes.add("attributed:midbyte")
        if m in nrc0:
            classes.add("msg:own-nrc0")
            if "attributed:neg" in classes or "attributed:gnr" in classes:
                classes.add("attributed:nrc0")
        if first:
            classes |= lcl
            first = False
        if res is not None:
            nontriv = interesting and (matched or m in truncs)
            res.note({"kind": "decode", "layer": layer, "msg": m}, nontriv, classes,
                     dig=(ldig, "decode", m.hex()))
        account(fails)
        if new_fails and stop_at_first:
            return new_fails
    # --- what odxtools itself encodes is attributed to the service ----------------
    for kind, s, o, req, m, ov in own:
        fails, classes = eval_own_encoding(layer, dl, kind, s, o, req, m, ov)
        if res is not None:
            res.note({"kind": "ownenc", "layer": layer, "service": s["name"], "object": o["name"],
                      "values": ov}, interesting, classes, dig=(ldig, "ownenc", o["name"], s["name"], m.hex()))
        account(fails)
        if new_fails and stop_at_first:
            return new_fails
    # --- a response is found through the request that triggered it -------------
    for kind, s, o, req, m, ov in own:
        if kind == "request":
            continue
        fails, classes = eval_response(layer, dl, s, o, req, m)
        if res is not None:
            res.note({"kind": "response", "layer": layer, "service": s["name"], "object": o["name"],
                      "req": req, "resp": m}, interesting, classes, dig=(ldig, "response", req.hex(), m.hex()))
        account(fails)
        if new_fails and stop_at_first:
            return new_fails
    # --- service groups -----------------------------------------------------
    fails, classes = eval_groups(layer, dl)
    if res is not None:
        res.note({"kind": "groups", "layer": layer}, len(layer["services"]) >= 2, classes, dig=(ldig, "groups"))
    account(fails)
    return new_fails


# ---------------------------------------------------------------------------
# replay of one saved case
# ---------------------------------------------------------------------------
def replay(case) -> list:
    case = core.unjson(case)
    kind = case.get("kind", "layer")
    layer = case["layer"]
    if kind == "layer":
        return run_case(case, None, [], stop_at_first=False)
    dl = load(layer)
    if kind == "decode":
        return eval_decode(layer, dl, bytes(case["msg"]))[0]
    if kind == "response":
        s = next(x for x in layer["services"] if x["name"] == case["service"])
        o = next(x for x in s["pos"] + s["neg"] + layer["gnrs"] if x["name"] == case["object"])
        return eval_response(layer, dl, s, o, bytes(case["req"]), bytes(case["resp"]))[0]
    if kind == "ownenc":
        s = next(x for x in layer["services"] if x["name"] == case["service"])
        o = next(x for x in [s["rq"]] + s["pos"] + s["neg"] + layer["gnrs"] if x["name"] == case["object"])
        req = bytes(case["req"])
        return eval_own_encoding(layer, dl, case["okind"], s, o, req,
                                 D.encode(o, case["values"], req), case["values"])[0]
    if kind == "groups":
        return eval_groups(layer, dl)[0]
    raise ValueError(f"unknown case kind {kind!r}")


# ---------------------------------------------------------------------------
# exhaustive enumeration: tuples of request-only services
# ---------------------------------------------------------------------------
def _enum_shapes(nvmax=2):
    shapes = []
    for n in range(3):
        for pre in itertools.product(ALPHA, repeat=n):
            for nv in range(nvmax + 1):
                shapes.append((pre, nv))
    return shapes


def _enum_service(i, shape):
    pre, nv = shape
    ps = [_cc(f"c{k}", k, b) for k, b in enumerate(pre)]
    ps += [_val(f"v{k}", len(pre) + k) for k in range(nv)]
    return {"name": f"s{i}", "rq": {"name": f"rq_s{i}", "params": ps}, "pos": [], "neg": []}


def _run_enum(first_idx, arity, maxlen, nvmax, res, kf):
    shapes = _enum_shapes(nvmax)
    total = 0
    for rest in itertools.product(range(len(shapes)), repeat=arity - 1):
        idx = (first_idx,) + rest
        if arity == 3 and not (idx[1] <= idx[2]):
            continue   # the two other services are unordered
        layer = {"services": [_enum_service(i, shapes[j]) for i, j in enumerate(idx)], "gnrs": []}
        values = {s["rq"]["name"]: {p["name"]: 0x11 for p in s["rq"]["params"] if p["k"] == "val"}
                  for s in layer["services"]}
        fails = run_case({"layer": layer, "values": values, "extra": []}, res, kf, stop_at_first=True,
                         exhaustive_len=maxlen)
        res.failures.extend(fails[:1])
        total += 1
        if len(res.failures) > 10:
            break
    return total


def _enum_text(arity, maxlen, nvmax):
    return (f"all layers of {arity} request-only services with 0..2 constant prefix bytes over "
            f"{[hex(b) for b in ALPHA]} and 0..{nvmax} value bytes x all messages of length <= {maxlen} "
            f"over the 5-letter alphabet {[hex(b) for b in ALPHA + [0x50, 0x7F]]}")


# ---------------------------------------------------------------------------
def shards(tier):
    out = []
    nh = 8 if tier == "quick" else 16
    for i in range(nh):
        out.append(("hyp", i))
    if tier == "quick":
        n = len(_enum_shapes(2))
        for k in range(4):
            out.append(("enum", 2, list(range(k, n, 4)), 3, 2))
    else:
        n = len(_enum_shapes(2))
        for k in range(13):
            out.append(("enum", 2, list(range(k, n, 13)), 4, 2))
        n = len(_enum_shapes(1))
        for k in range(13):
            out.append(("enum", 3, list(range(k, n, 13)), 3, 1))
    return out


def run_shard(spec, seed, tier):
    from vlib import known
    res = core.ShardResult()
    kf = known.load(PROPERTY)
    if spec[0] == "enum":
        _, arity, firsts, maxlen, nvmax = spec
        total = 0
        for f in firsts:
            total += _run_enum(f, arity, maxlen, nvmax, res, kf)
        res.stages["enumeration"] = total
        res.exhaustive_subspaces.append(_enum_text(arity, maxlen, nvmax))
        return res
    n = 150 if tier == "quick" else 1000

    def body(case):
        return run_case(case, res, kf)

    fails = core.hyp_search(layers_strategy(), body, seed, n)
    if fails:
        res.failures.extend(fails[:1])
    res.stages["hypothesis"] = n
    return res
