"""C18 — the comparison and listing tools report the true differences and counts.

Domain: generated databases (vlib/models/clidb.py: 1..3 layers, 1..5 services per layer, requests and
positive/negative responses made of CODED-CONST and VALUE parameters with DOPs, optional
base-variant -> ecu-variant inheritance, communication parameters) and the shipped
examples/somersault.pdx, each x one edit (identity / add / delete / rename a service / change byte
position, bit length, coded value, semantic, data type or linked DOP of one parameter / modify a DOP in
place: same id, short name and coded type, other COMPU-METHOD or PHYSICAL-TYPE).  Both versions
are serialised to XML and loaded separately.

Oracle (metamorphic, DESIGN C18): the tool is driven the way `odxtools compare -db` drives it
(Comparison object prepared as in run(), print_dl_metrics for both databases, compare_databases,
print_database_changes) with the module-level `rich_print` of the cli modules replaced by a recorder.
The expected classification and the expected counts come from the model (no odxtools involved).
"""
from __future__ import annotations

import io
import os
import re
from pathlib import Path

from vlib import core
from vlib.models import clidb as M

PROPERTY = "C18"
RULE = ("pair (database, single edit) serialised to ODX XML twice and loaded separately; generated "
        "databases by Hypothesis, every expressible single edit of examples/somersault.pdx by enumeration; "
        "non-trivial = the edit is not the identity and the layer owning the edited service has >=2 "
        "services; distinct = digest of (description, edit).  Layer-overview cases: generated databases with 2..6 "
        "layers of all kinds whose numbers of services / DOPs / comparam refs are independently zero or not, "
        "printed in several orders (all, reversed, permuted subsets) through print_dl_metrics and `list`; "
        "non-trivial = at least two layers")
ASSUMPTIONS = [
    "inside one layer all services have distinct constant request prefixes before and after the edit (the tool identifies services by short name and by this prefix); generated edits that would make two prefixes equal are not generated",
    "byte-position edits change the effective layout (making an explicit position implicit without moving the parameter is not generated); parameters never overlap",
    "the layer overview counts what is applicable to the layer including inheritance, like its service column does: services, DATA-OBJECT-PROPs and communication parameters keyed by (comparam, protocol)",
    "odxtools' loading, value inheritance and coded_const_prefix() are trusted; the model's service sets and prefixes are cross-checked against them and a mismatch ends the run as inconclusive (exit 2)",
    "the printed report is observed through the rich Table objects handed to rich_print; a reported service must appear in the first column of some table printed for its layer",
    "a changed attribute must show up as one detail row whose old/new cells equal the old/new value of the edit (hexadecimal strings are read as integers); the wording of labels is not asserted",
    "find and decode tools are not covered (the statement only speaks about comparison and the layer overview)",
    "attribute edits cover exactly the attributes Comparison.compare_parameters has a branch for (byte position, bit length incl. BYTE-LENGTH of MATCHING-REQUEST-PARAM and RESERVED, semantic, coded value(s), data type of CODED-CONST/NRC-CONST, linked DOP of VALUE/PHYS-CONST/SYSTEM/LENGTH-KEY, PHYS-CONSTANT-VALUE, a changed PHYSICAL-DEFAULT-VALUE); attributes it does not look at (BIT-POSITION, REQUEST-BYTE-POS, SYSPARAM, TABLE-REF/TABLE-KEY-REF, adding or removing a default, ...) are not named by the statement and are neither generated nor asserted",
    "PHYS-CONST values and VALUE defaults are only generated with IDENTICAL DOPs (so that they are valid physical values) and a PHYS-CONST never directly follows the leading constants of a request (it would belong to the request prefix)",
    "layer-overview cases: layers of all five kinds with at most one parent (kinds as ODX allows), unique short names, an ECU-SHARED-DATA has no communication parameters; each row must show the model's counts for that layer whatever rows precede it; in the per-layer listing of `odxtools list` everything printed after a layer was named and before the next one is named must be exactly the services / DOPs / communication parameters applicable to that layer (recognised by their generated short names, wording not asserted)",
]
MUST_HIT = ["edit:identity", "edit:add", "edit:delete", "edit:rename", "edit:byte_position", "edit:bit_length",
            "edit:coded_value", "edit:semantic", "edit:data_type", "edit:linked_dop", "edit:dop_modified",
            "edit:coded_values", "edit:constant_value", "edit:default_value",
            "dop-modified-used", "dop-modified-physical-type", "src:metrics",
            "svcname:digit-leading", "svcname:keyword", "svcname:method-like", "svcname:numeric-suffix", "svcname:plain",
            "dopname:digit-leading", "dopname:keyword", "dopname:method-like", "layername:digit-leading", "layername:keyword",
            "layername:method-like",
            "nrc:alternative-added", "nrc:alternative-removed", "nrc:value-changed", "som-pe:NRC:coded_values",
            "pe:CC:byte_position", "pe:NRC:byte_position", "pe:VAL:byte_position", "pe:PC:byte_position", "pe:RES:byte_position", "pe:MR:byte_position", "pe:SYS:byte_position", "pe:LK:byte_position", "pe:TK:byte_position", "pe:TS:byte_position", "pe:CC:semantic", "pe:NRC:semantic", "pe:VAL:semantic", "pe:PC:semantic", "pe:RES:semantic", "pe:MR:semantic", "pe:SYS:semantic", "pe:LK:semantic", "pe:TK:semantic", "pe:TS:semantic", "pe:CC:bit_length", "pe:NRC:bit_length", "pe:RES:bit_length", "pe:MR:bit_length", "pe:CC:coded_value", "pe:NRC:coded_values", "pe:CC:data_type", "pe:NRC:data_type", "pe:VAL:linked_dop", "pe:PC:linked_dop", "pe:SYS:linked_dop", "pe:LK:linked_dop", "pe:PC:constant_value", "pe:VAL:default_value",
            "metrics:zero-after-nonzero:services", "metrics:zero-after-nonzero:dops", "metrics:zero-after-nonzero:comparams",
            "metrics:nonzero-after-zero:services", "metrics:nonzero-after-zero:dops", "metrics:nonzero-after-zero:comparams",
            "metrics:order:reversed", "metrics:order:subset", "metrics:order:permuted", "metrics:via:list", "metrics:via:compare",
            "kind:PROTOCOL", "kind:FUNCTIONAL-GROUP", "kind:ECU-SHARED-DATA", "kind:BASE-VARIANT", "kind:ECU-VARIANT",
            "role:request", "role:pos", "role:neg", "param:CC", "param:VAL",
            "shared-first-byte", "inherited-layer-affected", "src:gen", "src:somersault", "comparams>0",
            "variant-vs-variant"]

SOMERSAULT = "examples/somersault.pdx"
EMPTY = {"new": [], "deleted": [], "renamed": [], "changed": []}
FIELD = {k: v[0] for k, v in M.ATTR_EDITS.items()}


def _repo() -> Path:
    return Path(os.environ.get("VERIF_REPO_DIR", "/repo"))


def load_documents(docs, aux=()):
    """load ODX documents the way Database.add_pdx_file does for the members of an archive"""
    from odxtools.database import Database
    db = Database()
    for d in docs:
        db.add_odx_file(io.BytesIO(d))
    for name, data in aux:
        db.add_auxiliary_file(name, io.BytesIO(data))
    db.refresh()
    return db


# ---------------------------------------------------------------------------
# driving the tool with a recorder instead of rich_print
# ---------------------------------------------------------------------------
class _Patched:
    """replaces rich_print of odxtools.cli.compare / _print_utils and rich.print (used by cli.list)"""

    def __enter__(self):
        import rich
        import odxtools.cli._print_utils as PU
        import odxtools.cli.compare as C
        self.mods = [(C, "rich_print"), (PU, "rich_print"), (rich, "print")]
        self.saved = [getattr(m, a) for m, a in self.mods]
        self.rec = {"compare": [], "utils": [], "rich": [], "all": []}

        def recorder(k):
            def rec(*args, **kw):
                self.rec[k].append(args)
                self.rec["all"].append(args)     # everything in the order it was printed
            return rec

        for (m, a), key in zip(self.mods, ("compare", "utils", "rich")):
            setattr(m, a, recorder(key))
        return self

    def __exit__(self, *exc):
        for (m, a), f in zip(self.mods, self.saved):
            setattr(m, a, f)
        return False

    def take(self, key):
        out = self.rec[key]
        self.rec[key] = []
        return out


def _dl(db, name):
    """layer by short name; not via NamedItemList[...] whose keys are escaped for digit-leading names, keywords, ..."""
    for dl in db.diag_layers:
        if dl.short_name == name:
            return dl
    raise KeyError(name)


def name_classes(name):
    """why a short name is awkward for attribute-style / dictionary-style access to a NamedItemList"""
    import keyword
    out = []
    if name[:1].isdigit():
        out.append("digit-leading")
    if keyword.iskeyword(name):
        out.append("keyword")
    if hasattr(list, name) or name in ("keys", "values", "items", "get"):
        out.append("method-like")
    if re.search(r"_\d+$", name):
        out.append("numeric-suffix")
    if name.startswith("_"):
        out.append("underscore-leading")
    return out or ["plain"]


SPECIAL_NAMES = ["2E_write_config", "31_routine", "1a", "class", "continue", "import", "in", "lambda", "keys", "items",
                 "append", "copy", "sort", "index", "get", "values", "count", "pop", "svc", "svc_2", "svc_3", "x_2", "x",
                 "_31_routine", "_class", "None", "extend", "remove"]


def _tables(items):
    from rich.table import Table
    return [a for args in items for a in args if isinstance(a, Table)]


def _rows(table):
    cols = [list(c.cells) for c in table.columns]
    return [list(r) for r in zip(*cols)] if cols else []


def _names(lst):
    return [s.short_name for s in lst]


def _observe(sd):
    return {"new": _names(sd["new_services"]), "deleted": _names(sd["deleted_services"]),
            "renamed": _names(sd["changed_name_of_service"][0]),
            "changed": _names(sd["changed_parameters_of_service"][0])}


def _norm(x):
    if isinstance(x, str) and re.fullmatch(r"0x[0-9A-Fa-f]+", x):
        return int(x, 16)
    if isinstance(x, str) and re.fullmatch(r"\[[-0-9, ]*\]", x):       # str() of a list of integers
        return [int(v) for v in x.strip("[]").split(",") if v.strip()]
    if isinstance(x, str) and re.fullmatch(r"-?[0-9]+", x):
        return int(x)
    return x


# ---------------------------------------------------------------------------
# one evaluation
# ---------------------------------------------------------------------------
class Plan:
    """what the model expects for one (database, edit) pair"""

    def __init__(self):
        self.old_docs = self.new_docs = None
        self.aux = ()
        self.layers = []            # layer short names (same in both versions)
        self.expected = {}          # layer -> {"new","deleted","renamed","changed"} (lists of short names)
        self.old_names = {}         # layer -> [old short name] for renames
        self.counts_old = {}        # layer -> {"services","dops","comparams"}
        self.counts_new = {}
        self.prefix_old = {}        # layer -> {service short name: prefix}
        self.prefix_new = {}
        self.prefix_old_cut = {}    # the same under the other reading of "constant prefix" (see model)
        self.prefix_new_cut = {}
        self.detail = None          # (old value, new value) of an attribute edit
        self.classes = set()
        self.nontrivial = False
        self.vv = []                # [(layer a, layer b, expected)] comparisons of two layers of the old version


def plan_generated(desc, edit) -> Plan:
    pl = Plan()
    new = M.apply_edit(desc, edit)
    if not (M.well_formed(desc) and M.well_formed(new)):
        raise ValueError("case outside the envelope")
    pl.old_docs, pl.new_docs = M.emit(desc), M.emit(new)
    pl.layers = [l["name"] for l in desc["layers"]]
    k = edit["kind"]
    pl.classes |= {"src:gen", f"edit:{k}", f"layers:{len(desc['layers'])}"}
    pl.classes |= {f"layername:{c}" for l in desc["layers"] for c in name_classes(l["name"]) if c != "plain"}
    pl.classes |= {f"dopname:{c}" for l in desc["layers"] for d in l["dops"] for c in name_classes(d["name"]) if c != "plain"}
    pl.classes |= {f"othersvcname:{c}" for l in desc["layers"] for sv in l["services"] for c in name_classes(sv["name"])
                   if c != "plain"}
    for li, ln in enumerate(pl.layers):
        pl.expected[ln] = {q: [] for q in EMPTY}
        pl.counts_old[ln] = M.effective_counts(desc, li)
        pl.counts_new[ln] = M.effective_counts(new, li)
        pl.prefix_old[ln] = {s["name"]: M.const_prefix(desc, o, s["request"]) for o, s in M.effective_services(desc, li)}
        pl.prefix_new[ln] = {s["name"]: M.const_prefix(new, o, s["request"]) for o, s in M.effective_services(new, li)}
        pl.prefix_old_cut[ln] = {s["name"]: M.const_prefix(desc, o, s["request"], True) for o, s in M.effective_services(desc, li)}
        pl.prefix_new_cut[ln] = {s["name"]: M.const_prefix(new, o, s["request"], True) for o, s in M.effective_services(new, li)}
        if pl.counts_old[ln]["comparams"] > 0:
            pl.classes.add("comparams>0")
        firsts = [p[:1] for p in pl.prefix_old[ln].values()]
        if len(set(firsts)) < len(firsts):
            pl.classes.add("shared-first-byte")
        if desc["layers"][li]["parent"] is not None:
            pl.classes.add("inheritance")
            own = [s["name"] for s in desc["layers"][li]["services"]]
            if len(own) == 1:
                pn = pl.layers[desc["layers"][li]["parent"]]
                pl.vv.append((ln, pn, dict(EMPTY, new=own)))
                pl.vv.append((pn, ln, dict(EMPTY, deleted=own)))
    if k == "identity":
        return pl
    if k == "dop_modified":
        d_old = desc["layers"][edit["layer"]]["dops"][edit["dop"]]
        users = M.dop_users(desc, d_old["name"])
        for ln in pl.layers:
            pl.expected[ln]["changed"] = list(users[ln])
        used = [ln for ln in pl.layers if users[ln]]
        pl.classes |= {f"svcname:{c}" for ln in used for n in users[ln] for c in name_classes(n)}
        pl.classes.add("dop-modified-used" if used else "dop-modified-unused")
        if len(used) > 1:
            pl.classes.add("inherited-layer-affected")
        if max((len(users[ln]) for ln in pl.layers), default=0) > 1:
            pl.classes.add("dop-modified-several-services")
        if edit["new"]["phys"] != d_old.get("phys", d_old["type"]):
            pl.classes.add("dop-modified-physical-type")
        pl.nontrivial = any(pl.counts_old[ln]["services"] >= 2 for ln in used)
        return pl
    li = edit["layer"]
    affected = [pl.layers[i] for i in M.layers_containing(desc, li)]
    if len(affected) > 1:
        pl.classes.add("inherited-layer-affected")
    if k == "add":
        name = edit["service"]["name"]
        key = "new"
    else:
        svc = desc["layers"][li]["services"][edit["service"]]
        name = svc["name"]
        key = {"delete": "deleted", "rename": "renamed"}.get(k, "changed")
        if k == "rename":
            name = edit["name"]
    for ln in affected:
        pl.expected[ln][key] = [name]
        if k == "rename":
            pl.old_names[ln] = [svc["name"]]
    pl.classes |= {f"svcname:{c}" for c in name_classes(name if k != "rename" else svc["name"])}
    n_old = pl.counts_old[pl.layers[li]]["services"]
    n_new = pl.counts_new[pl.layers[li]]["services"]
    pl.nontrivial = max(n_old, n_new) >= 2
    if min(n_old, n_new) == 0:
        pl.classes.add("layer-becomes-empty")
    if k in FIELD:
        p = M._msg(svc, edit["role"])["params"][edit["param"]]
        pl.detail = (p[FIELD[k]], edit["new"])
        pl.classes |= {f"role:{edit['role'][0]}", f"param:{p['kind']}", f"pe:{p['kind']}:{k}"}
        if k == "coded_values":
            o, n = len(p["values"]), len(edit["new"])
            pl.classes.add("nrc:alternative-added" if n > o else "nrc:alternative-removed" if n < o else "nrc:value-changed")
        if edit["role"][0] == "request" and pl.prefix_old[pl.layers[li]][name] != pl.prefix_new[pl.layers[li]][name]:
            pl.classes.add("request-prefix-changed")
        if k == "byte_position" and (p["pos"] is None or edit["new"] is None):
            pl.classes.add("implicit-position")
    return pl


_PDX = {}


def _base_pdx():
    key = str(_repo())
    if key not in _PDX:
        _PDX[key] = M.Pdx(_repo() / SOMERSAULT)
    return _PDX[key]


def plan_somersault(edit) -> Plan:
    pl = Plan()
    old = _base_pdx()
    new = M.pdx_apply(old, edit)
    if not (M.pdx_well_formed(old) and M.pdx_well_formed(new)):
        raise ValueError("case outside the envelope")
    pl.old_docs, pl.new_docs = old.documents(), new.documents()
    pl.aux = old.aux
    k = edit["kind"]
    pl.classes |= {"src:somersault", f"edit:{k}", "inheritance"}
    pl.layers = [M._sn(l) for l in old.layers()]
    pl.counts_old, pl.counts_new = M.pdx_counts(old), M.pdx_counts(new)
    pl.prefix_old, pl.prefix_new = M.pdx_prefixes(old), M.pdx_prefixes(new)
    pl.prefix_old_cut, pl.prefix_new_cut = M.pdx_prefixes(old, True), M.pdx_prefixes(new, True)
    for ln in pl.layers:
        pl.expected[ln] = {q: [] for q in EMPTY}
        if pl.counts_old[ln]["comparams"] > 0:
            pl.classes.add("comparams>0")
        firsts = [p[:1] for p in pl.prefix_old[ln].values()]
        if len(set(firsts)) < len(firsts):
            pl.classes.add("shared-first-byte")
    if k == "identity":
        return pl
    sid = edit.get("service")
    old_eff = {M._sn(l): {s.get("ID"): M._sn(s) for s in M.eff_services(old, l)} for l in old.layers()}
    new_eff = {M._sn(l): {s.get("ID"): M._sn(s) for s in M.eff_services(new, l)} for l in new.layers()}
    affected_ids = [sid]
    if k == "dop_modified":
        msgs = M.pdx_direct_dop_users(old, edit["dop"])
        if not msgs:
            raise ValueError("DOP is not (only) linked directly by VALUE parameters")
        affected_ids = sorted({i for m in msgs for i in old.services_using(m)})
        pl.classes.add("dop-modified-used")
    if k in FIELD:
        svc = M.find_by_id(old, "DIAG-SERVICE", sid)
        msg = M.svc_message(old, svc, edit["role"])
        affected_ids = old.services_using(msg.get("ID"))
        info = M.xparam_info(M.xparams(msg)[edit["param"]])
        ov, nv = info[FIELD[k]], edit["new"]
        if k == "linked_dop":
            ov = M._sn(M.find_by_id(old, "DATA-OBJECT-PROP", ov))
            nv = M._sn(M.find_by_id(old, "DATA-OBJECT-PROP", nv))
        pl.detail = (ov, nv)
        pl.classes |= {f"role:{edit['role'][0]}", f"param:{info['kind']}", f"som-pe:{info['kind']}:{k}"}
        if len(affected_ids) > 1:
            pl.classes.add("shared-message")
    n_aff = 0
    sizes = []
    for ln in pl.layers:
        e = pl.expected[ln]
        if k == "add":
            e["new"] = [n for i, n in new_eff[ln].items() if i not in old_eff[ln]]
        elif k == "delete":
            e["deleted"] = [n for i, n in old_eff[ln].items() if i not in new_eff[ln]]
        elif k == "rename":
            if sid in old_eff[ln]:
                e["renamed"] = [edit["name"]]
                pl.old_names[ln] = [old_eff[ln][sid]]
        else:
            e["changed"] = [n for i, n in old_eff[ln].items() if i in affected_ids]
        if any(e.values()):
            n_aff += 1
            sizes.append(max(len(old_eff[ln]), len(new_eff[ln])))
    if n_aff == 0:
        raise ValueError("edit without effect")
    if n_aff > 1:
        pl.classes.add("inherited-layer-affected")
    pl.nontrivial = max(sizes) >= 2
    return pl


def make_plan(case) -> Plan:
    if case["src"] == "gen":
        return plan_generated(case["desc"], case["edit"])
    return plan_somersault(case["edit"])


def _crosscheck(db, readings, what):
    """the model's idea of the layers, their services and request prefixes must be odxtools' (trusted
    base: loading, inheritance, coded_const_prefix); otherwise nothing can be concluded"""
    got = {}
    for dl in db.diag_layers:
        got[dl.short_name] = {s.short_name: bytes(s.request.coded_const_prefix()) for s in dl.services}
    if got not in readings:
        raise core.Inconclusive(f"model and odxtools disagree about services / request prefixes of the {what} "
                                f"version: model={readings} odxtools={got}")


def evaluate(case):
    """-> (failures, classes, nontrivial)"""
    case = core.unjson(case)
    pl = make_plan(case)
    edit = case["edit"]
    kind = edit["kind"]
    detailed = bool(case.get("detailed", False))
    fails = []

    emitted = set()

    def fail(clause, detail, **feat):
        feat.setdefault("bucket", f"{clause}:{kind}")
        if feat["bucket"] in emitted:     # one failure per root-cause key and case
            return
        emitted.add(feat["bucket"])
        feat["edit"] = kind
        feat["src"] = case["src"]
        fails.append(core.Failure(clause=clause, detail=detail, case=core.plain(case), features=feat))

    db_new = load_documents(pl.new_docs, pl.aux)
    db_old = load_documents(pl.old_docs, pl.aux)
    _crosscheck(db_new, (pl.prefix_new, pl.prefix_new_cut), "new")
    _crosscheck(db_old, (pl.prefix_old, pl.prefix_old_cut), "old")

    import odxtools.cli._print_utils as PU
    import odxtools.cli.compare as C
    import odxtools.cli.list as L

    with _Patched() as px:
        # ---- layer overview: once the way `compare` prints it, once the way `list` prints it ----------
        for db, counts, how in ((db_new, pl.counts_new, "compare"), (db_old, pl.counts_old, "list")):
            try:
                if how == "compare":
                    PU.print_dl_metrics(list(db.diag_layers))
                else:
                    L.print_summary(db)
            except Exception as e:  # noqa: BLE001 - classified
                fail("metrics-exception", f"layer overview ({how}) raised {type(e).__name__}: {e}",
                     bucket=f"metrics-exception:{type(e).__name__}")
                px.take("utils")
                continue
            tabs = _tables(px.take("utils"))
            px.take("rich")
            if len(tabs) != 1:
                fail("metrics-rows", f"layer overview ({how}) printed {len(tabs)} tables", bucket="metrics-rows")
                continue
            rows = _rows(tabs[0])
            if sorted(r[0] for r in rows) != sorted(pl.layers) or any(len(r) < 5 for r in rows):
                fail("metrics-rows", f"layer overview ({how}) rows {[r[0] for r in rows]} for layers {pl.layers}",
                     bucket="metrics-rows")
                continue
            for r in rows:
                exp = counts[r[0]]
                for col, key in ((2, "services"), (3, "dops"), (4, "comparams")):
                    if str(r[col]).strip() != str(exp[key]):
                        fail(f"metrics-{key}", f"layer {r[0]} ({how}): overview says {r[col]} {key}, the layer has {exp[key]}",
                             bucket=f"metrics-{key}", observed=str(r[col]).strip(), expected=exp[key])
                        break

        # ---- comparison, prepared as Comparison.run() does for `-db` ------------------------------------
        task = C.Comparison()
        task.param_detailed = detailed
        task.databases = [db_new, db_old]
        task.diagnostic_layer_names = {dl.short_name for db in task.databases for dl in db.diag_layers}
        task.db_indicator_1 = 0
        task.db_indicator_2 = 1
        result = None
        try:
            result = task.compare_databases(db_new, db_old)
        except Exception as e:  # noqa: BLE001
            fail("exception", f"compare_databases raised {type(e).__name__}: {e}", bucket=f"exception:{kind}:{type(e).__name__}")
        jobs = []   # (label, layer, service_dict, expected, old names, new layer object)
        if result is not None:
            if list(result.get("new_diagnostic_layers", [])) or list(result.get("deleted_diagnostic_layers", [])):
                fail("layer-lists", "layers reported as new/deleted although both versions have the same layers")
            for ln in pl.layers:
                sd = result.get(ln)
                if not isinstance(sd, dict):
                    fail("classification", f"compare_databases has no entry for layer {ln}", bucket="no-layer-entry")
                    continue
                jobs.append(("db", ln, sd, pl.expected[ln], pl.old_names.get(ln), _dl(db_new, ln)))
            try:
                task.print_database_changes(result)
            except Exception as e:  # noqa: BLE001
                fail("display-exception", f"print_database_changes raised {type(e).__name__}: {e}",
                     bucket=f"display-exception:{type(e).__name__}")
            px.take("compare"); px.take("utils")
        # the same through compare_diagnostic_layers (what `-v` uses), plus self comparison
        for ln in pl.layers:
            for label, a, b, exp, oldn in (("dl", _dl(db_new, ln), _dl(db_old, ln), pl.expected[ln], pl.old_names.get(ln)),
                                          ("self", _dl(db_new, ln), _dl(db_new, ln), EMPTY, None)):
                try:
                    sd = task.compare_diagnostic_layers(a, b)
                except Exception as e:  # noqa: BLE001
                    fail("exception", f"compare_diagnostic_layers raised {type(e).__name__}: {e}",
                         bucket=f"exception:{kind}:{type(e).__name__}")
                    continue
                jobs.append((label, ln, sd, exp, oldn, a))
        for a, b, exp in pl.vv:
            try:
                sd = task.compare_diagnostic_layers(_dl(db_old, a), _dl(db_old, b))
            except Exception as e:  # noqa: BLE001
                fail("exception", f"compare_diagnostic_layers({a},{b}) raised {type(e).__name__}: {e}",
                     bucket=f"exception:vv:{type(e).__name__}")
                continue
            jobs.append(("vv", a, sd, exp, None, _dl(db_old, a)))
            pl.classes.add("variant-vs-variant")

        seen = set()
        for label, ln, sd, exp, oldn, new_layer in jobs:
            obs = _observe(sd)
            which = "identity" if label == "self" else ("add/delete between two layers" if label == "vv" else kind)
            sig = None
            if {q: sorted(v) for q, v in obs.items()} != {q: sorted(v) for q, v in exp.items()}:
                if {q: set(v) for q, v in obs.items()} == {q: set(v) for q, v in exp.items()}:
                    sig = ("duplicate-report", f"{which}: layer {ln}: a service is listed more than once: {obs}")
                else:
                    sig = ("classification", f"{which}: layer {ln}: reported {obs}, true difference {exp}")
            elif len(sd["changed_name_of_service"][1]) != len(obs["renamed"]) or \
                    len(sd["changed_parameters_of_service"][1]) != len(obs["changed"]) or \
                    len(sd["changed_parameters_of_service"][2]) != len(obs["changed"]):
                sig = ("structure", f"{which}: layer {ln}: parallel lists of the result have different lengths")
            elif oldn is not None and list(sd["changed_name_of_service"][1]) != oldn:
                sig = ("rename-old-name", f"layer {ln}: old name reported as {sd['changed_name_of_service'][1]}, was {oldn}")
            if sig is not None:
                if (sig[0], label == "vv", label == "self") not in seen:
                    seen.add((sig[0], label == "vv", label == "self"))
                    fail(sig[0], sig[1], bucket=f"{sig[0]}:{which}", observed=obs, expected=exp, via=label,
                         new_layer_services=len(new_layer.services))
                continue
            # detail rows of an attribute edit
            if label in ("db", "dl") and pl.detail is not None and exp["changed"]:
                for idx, sname in enumerate(obs["changed"]):
                    info = sd["changed_parameters_of_service"][2][idx]
                    rows = []
                    for item in info:
                        if isinstance(item, dict) and "Old Value" in item and "New Value" in item:
                            rows += list(zip(item["Old Value"], item["New Value"]))
                    if not any(_norm(o) == pl.detail[0] and _norm(n) == pl.detail[1] for o, n in rows):
                        if ("detail-values",) not in seen:
                            seen.add(("detail-values",))
                            fail("detail-values", f"layer {ln} service {sname}: no detail row old={pl.detail[0]!r} "
                                 f"new={pl.detail[1]!r}; rows (old,new)={rows!r}", observed=core.plain(rows))
            # what is printed for this layer
            if label in ("db", "vv"):
                try:
                    task.print_dl_changes(sd)
                except Exception as e:  # noqa: BLE001
                    if ("display-exception",) not in seen:
                        seen.add(("display-exception",))
                        fail("display-exception", f"print_dl_changes raised {type(e).__name__}: {e}",
                             bucket=f"display-exception:{type(e).__name__}")
                    px.take("compare"); px.take("utils")
                    continue
                tabs = _tables(px.take("compare"))
                px.take("utils")
                shown = {str(r[0]) for t in tabs for r in _rows(t) if r}
                for q in ("new", "deleted", "renamed", "changed"):
                    miss = [n for n in exp[q] if n not in shown]
                    if miss and ("display", q) not in seen:
                        seen.add(("display", q))
                        fail("display", f"layer {ln}: {q} service(s) {miss} are in the result but in no printed table "
                             f"(tables printed: {len(tabs)}, rows: {[t.row_count for t in tabs]})",
                             bucket=f"display:{q}", list=q,
                             plain_table_rows=[t.row_count for t in tabs if len(t.columns) == 3])
    return fails, pl.classes, pl.nontrivial


# ---------------------------------------------------------------------------
# layer overview over several layers of all kinds in several orders
# ---------------------------------------------------------------------------
def evaluate_metrics(case):
    """case = {"src": "metrics", "mdesc": ..., "orders": [[layer index, ...], ...]}: the overview (and the
    per-layer listing of `odxtools list`) is printed for the layers in each of the given orders; every row /
    block must show what the model computes for that layer, whatever was printed before it"""
    md, orders = case["mdesc"], case["orders"]
    if not M.m_well_formed(md) or any(len(set(o)) != len(o) or not o for o in orders):
        raise ValueError("case outside the envelope")
    names = [l["name"] for l in md["layers"]]
    eff = {l["name"]: M.m_names(md, i) for i, l in enumerate(md["layers"])}
    counts = {n: {k: len(v) for k, v in e.items()} for n, e in eff.items()}
    classes = {"src:metrics", f"layers:{len(names)}"} | {f"kind:{l['kind']}" for l in md["layers"]}
    fails = []
    emitted = set()

    def fail(clause, detail, **feat):
        feat.setdefault("bucket", clause)
        if feat["bucket"] in emitted:
            return
        emitted.add(feat["bucket"])
        feat["src"] = "metrics"
        fails.append(core.Failure(clause=clause, detail=detail, case=core.plain(case), features=feat))

    db = load_documents(M.m_emit(md))
    got = {dl.short_name: {"services": sorted(s.short_name for s in dl.services),
                           "dops": sorted(d.short_name for d in dl.diag_data_dictionary_spec.data_object_props),
                           "comparams": sorted(c.short_name for c in getattr(dl, "comparam_refs", []))}
           for dl in db.diag_layers}
    if got != {n: {k: sorted(v) for k, v in e.items()} for n, e in eff.items()}:
        raise core.Inconclusive(f"model and odxtools disagree about what applies to the layers: model={eff} odxtools={got}")

    import odxtools.cli._print_utils as PU
    import odxtools.cli.list as L
    nontrivial = False
    all_tokens = {t: (n, k) for n, e in eff.items() for k, v in e.items() for t in v}
    with _Patched() as px:
        for oi, order in enumerate(orders):
            onames = [names[i] for i in order]
            if len(order) < len(names):
                classes.add("metrics:order:subset")
            elif order == list(range(len(names)))[::-1] and len(order) > 1:
                classes.add("metrics:order:reversed")
            elif order != list(range(len(names))):
                classes.add("metrics:order:permuted")
            for col in ("services", "dops", "comparams"):
                seq = [counts[n][col] for n in onames]
                for j, v in enumerate(seq):
                    if v == 0 and any(seq[:j]):
                        classes.add(f"metrics:zero-after-nonzero:{col}")
                        nontrivial = True
                    if v > 0 and j > 0 and seq[j - 1] == 0:
                        classes.add(f"metrics:nonzero-after-zero:{col}")
            how = "list" if oi % 2 else "compare"
            classes.add(f"metrics:via:{how}")
            try:
                if how == "compare":
                    PU.print_dl_metrics([_dl(db, n) for n in onames])
                else:
                    L.print_summary(db, variants=list(onames), print_services=True, print_dops=True, print_comparams=True)
            except Exception as e:  # noqa: BLE001 - classified
                fail("metrics-exception", f"layer overview ({how}, layers {onames}) raised {type(e).__name__}: {e}",
                     bucket=f"metrics-exception:{type(e).__name__}")
                px.take("utils"); px.take("rich"); px.take("all")
                continue
            tabs = [t for t in _tables(px.take("utils")) if len(t.columns) == 5]
            px.take("rich")
            text = px.take("all")
            if len(tabs) != 1:
                fail("metrics-rows", f"layer overview ({how}) printed {len(tabs)} tables", bucket="metrics-rows")
                continue
            rows = _rows(tabs[0])
            if [r[0] for r in rows] != onames or any(len(r) < 5 for r in rows):
                fail("metrics-rows", f"layer overview ({how}) has rows {[r[0] for r in rows]} for layers {onames}",
                     bucket="metrics-rows")
                continue
            for j, r in enumerate(rows):
                for col, key in ((2, "services"), (3, "dops"), (4, "comparams")):
                    if str(r[col]).strip() != str(counts[r[0]][key]):
                        fail(f"metrics-{key}", f"overview of {onames} ({how}): row {j} ({r[0]}) says {r[col]} {key}, the layer "
                             f"has {counts[r[0]][key]} (rows above: {[x[col] for x in rows[:j]]})",
                             bucket=f"metrics-{key}", observed=str(r[col]).strip(), expected=counts[r[0]][key], row=j)
            if how == "list":
                # per-layer listing: what is printed after a layer was named and before the next one is named
                # must be exactly the services / DOPs / communication parameters applicable to that layer
                cur = None
                shown = {n: {"services": set(), "dops": set(), "comparams": set()} for n in onames}
                for args in text:
                    for a in args:
                        if not isinstance(a, str):
                            continue
                        toks = re.findall(r"[A-Za-z0-9_]+", a)
                        for t in toks:
                            if t in shown:
                                cur = t
                        for t in toks:
                            if cur is not None and (t in all_tokens or t.startswith("CP_")):
                                kind = "comparams" if t.startswith("CP_") else all_tokens[t][1]
                                shown[cur][kind].add(t)
                for n in onames:
                    for key in ("services", "dops", "comparams"):
                        if shown[n][key] != set(eff[n][key]):
                            fail(f"list-{key}", f"`list` of {onames}: the block of layer {n} shows {key} {sorted(shown[n][key])}, "
                                 f"applicable are {sorted(eff[n][key])}", bucket=f"list-{key}")
    return fails, classes, nontrivial or len(names) >= 2


def replay(case) -> list:
    case = core.unjson(case)
    if case.get("src") == "metrics":
        return evaluate_metrics(case)[0]
    fails, _c, _n = evaluate(case)
    return fails


# ---------------------------------------------------------------------------
# generators
# ---------------------------------------------------------------------------
def _strategies():
    from hypothesis import strategies as st

    def cc(name, value, bits, typ, sem):
        return {"kind": "CC", "name": name, "pos": None, "bits": bits, "value": value, "type": typ, "semantic": sem}

    def draw_extra(draw, k, role, avail, tables, prev):
        """one further parameter (or a TABLE-KEY / TABLE-STRUCT pair) of a type allowed in this kind of message"""
        ident = [d["name"] for d in avail if M._identical(d)]
        menu = ["CC", "VAL", "RES", "SYS", "LK"] + (["VALD", "PC", "PC"] if ident else []) + \
               (["TKTS", "TKTS"] if tables else []) + (["MR", "MR"] if role != "request" else []) + \
               (["NRC", "NRC", "NRC"] if role == "neg" else [])
        t = draw(st.sampled_from(menu))
        sem = draw(st.sampled_from(M.SEMANTICS))
        if t == "PC" and role == "request" and all(q["kind"] in ("CC", "PC") for q in prev):
            t = "VALD"          # a PHYS-CONST there would belong to the constant request prefix
        dop = lambda: draw(st.sampled_from([d["name"] for d in avail]))  # noqa: E731
        if t == "CC":
            b = draw(st.sampled_from([8, 8, 16]))
            return [cc(f"c{k}", draw(st.integers(0, (1 << (b - 1)) - 1)), b, draw(st.sampled_from(M.INT_TYPES)), sem)]
        if t == "NRC":
            b = draw(st.sampled_from([8, 8, 16]))
            vs = draw(st.lists(st.integers(0, 0x7F), min_size=1, max_size=3, unique=True))
            if len(vs) == 1 and draw(st.booleans()):
                vs = vs + [(vs[0] + 0x11) % 0x80]
            return [{"kind": "NRC", "name": f"n{k}", "pos": None, "bits": b, "values": vs,
                     "type": draw(st.sampled_from(M.INT_TYPES)), "semantic": sem}]
        if t == "VAL":
            return [{"kind": "VAL", "name": f"v{k}", "pos": None, "dop": dop(), "semantic": sem}]
        if t == "VALD":
            return [{"kind": "VAL", "name": f"v{k}", "pos": None, "dop": draw(st.sampled_from(ident)),
                     "default": draw(st.integers(0, 0x7F)), "semantic": sem}]
        if t == "PC":
            return [{"kind": "PC", "name": f"p{k}", "pos": None, "dop": draw(st.sampled_from(ident)),
                     "value": draw(st.integers(0, 0x7F)), "semantic": sem}]
        if t == "RES":
            return [{"kind": "RES", "name": f"r{k}", "pos": None, "bits": draw(st.sampled_from([8, 8, 16])), "semantic": sem}]
        if t == "MR":
            return [{"kind": "MR", "name": f"m{k}", "pos": None, "bits": draw(st.sampled_from([8, 8, 16])),
                     "rq_pos": draw(st.integers(0, 2)), "semantic": sem}]
        if t == "SYS":
            return [{"kind": "SYS", "name": f"y{k}", "pos": None, "dop": dop(),
                     "sysparam": draw(st.sampled_from(M.SYSPARAMS)), "semantic": sem}]
        if t == "LK":
            return [{"kind": "LK", "name": f"l{k}", "pos": None, "dop": dop(), "semantic": sem}]
        tab = draw(st.sampled_from([tb["name"] for tb in tables]))
        return [{"kind": "TK", "name": f"k{k}", "pos": None, "table": tab, "semantic": sem},
                {"kind": "TS", "name": f"t{k}", "pos": None, "key": f"k{k}", "semantic": draw(st.sampled_from(M.SEMANTICS))}]

    def draw_params(draw, head, role, avail, tables, n_extra, contiguous_head=False):
        """head: [(name, value, bits)] leading constants; returns the parameter list with a drawn layout"""
        raw = [cc(n, v, b, draw(st.sampled_from(M.INT_TYPES)), draw(st.sampled_from(M.SEMANTICS))) for n, v, b in head]
        for k in range(n_extra):
            raw += draw_extra(draw, k, role, avail, tables, raw)
        tmp = {"layers": [{"name": "x", "parent": None, "dops": avail, "services": [], "comparam_refs": [],
                           "table": None}]}
        bits = {d["name"]: d["bits"] for d in avail}
        tbits = {tb["name"]: bits[tb["key_dop"]] for tb in tables}
        cursor = 0
        for k, p in enumerate(raw):
            # the identifying constants of a request are contiguous from byte 0 in the generated base
            gap = 0 if (contiguous_head and k < len(head)) or p["kind"] == "TS" else draw(st.sampled_from([0, 0, 0, 1, 2]))
            start = cursor + gap
            p["pos"] = None if (gap == 0 and (p["kind"] == "TS" or draw(st.integers(0, 3)) == 0)) else start
            if p["kind"] in ("CC", "NRC", "RES", "MR"):
                n = p["bits"]
            elif p["kind"] == "TK":
                n = tbits[p["table"]]
            elif p["kind"] == "TS":
                n = tbits[next(q["table"] for q in raw if q["kind"] == "TK" and q["name"] == p["key"])]
            else:
                n = bits[p["dop"]]
            cursor = start + n // 8
        del tmp
        return raw

    def draw_service(draw, avail, tables, name, used_px):
        sid = draw(st.sampled_from([0x10, 0x22, 0x22, 0x2E, 0x31]))
        sub_bits = draw(st.sampled_from([8, 8, 16]))
        sub = draw(st.integers(0, 6))
        rq = {"name": f"rq_{name}",
              "params": draw_params(draw, [("sid", sid, 8), ("sub", sub, sub_bits)], "request", avail, tables,
                                    draw(st.integers(0, 3)), contiguous_head=True)}
        tmp = {"layers": [{"name": "x", "parent": None, "dops": avail, "services": [], "comparam_refs": [],
                           "table": None}]}
        # the prefix only depends on the leading constants, which need neither DOPs nor tables
        lead = {"name": "x", "params": [q for q in rq["params"][:2]]}
        while (False, M.const_prefix(tmp, 0, lead, False)) in used_px or (True, M.const_prefix(tmp, 0, lead, True)) in used_px:
            rq["params"][1]["value"] = (rq["params"][1]["value"] + 1) % (1 << (sub_bits - 1))
        # further leading constants (extras of kind CC directly behind the head) extend the prefix: keep the
        # prefix of the head unique, which makes every extension unique as well under the "cut" reading; the
        # full reading is checked by well_formed() when the case is planned
        used_px.add((False, M.const_prefix(tmp, 0, lead, False)))
        used_px.add((True, M.const_prefix(tmp, 0, lead, True)))
        pos = [{"name": f"pr_{name}_{i}",
                "params": draw_params(draw, [("sid", sid + 0x40, 8)], "pos", avail, tables, draw(st.integers(0, 3)))}
               for i in range(draw(st.integers(0, 2)))]
        neg = [{"name": f"nr_{name}_{i}",
                "params": draw_params(draw, [("sid", 0x7F, 8), ("rq", sid, 8)], "neg", avail, tables, draw(st.integers(0, 3)))}
               for i in range(draw(st.integers(0, 2)))]
        return {"name": name, "uid": name, "semantic": draw(st.sampled_from([None, "FUNCTION", "SESSION"])),
                "request": rq, "pos": pos, "neg": neg}

    @st.composite
    def cases(draw):
        nl = draw(st.integers(1, 3))
        ncp = draw(st.integers(0, 4))
        used_px = set()
        layers = []
        sc = 0
        pool = list(draw(st.permutations(SPECIAL_NAMES)))

        def pick(default, one_in):
            """an awkward short name (each at most once per description) or the plain default"""
            return pool.pop() if pool and draw(st.integers(0, one_in - 1)) == 0 else default

        def avail_of(li, parent, dops, table):
            pa = layers[0] if parent == 0 else None
            return ((pa["dops"] if pa else []) + dops,
                    ([pa["table"]] if pa and pa.get("table") else []) + ([table] if table else []))

        for li in range(nl):
            parent = None if li == 0 else draw(st.sampled_from([None, 0, 0]))
            nd = draw(st.integers(2, 4))
            dops = [{"name": pick(f"d{li}_{k}", 4), "bits": draw(st.sampled_from([8, 8, 16])),
                     "type": draw(st.sampled_from(M.INT_TYPES))} for k in range(nd)]
            dops[1]["bits"] = dops[0]["bits"]
            for d in dops[1:]:          # the first DOP of a layer stays IDENTICAL (table key, constants, defaults)
                if draw(st.integers(0, 3)) == 0:
                    d["compu"] = {"offset": draw(st.integers(-2, 2)), "factor": draw(st.sampled_from([1, 2, 3]))}
                    d["phys"] = draw(st.sampled_from([d["type"], "A_FLOAT64"]))
            table = {"name": f"tb{li}", "key_dop": dops[0]["name"]} if draw(st.integers(0, 3)) > 0 else None
            avail, tables = avail_of(li, parent, dops, table)
            ns = draw(st.integers(1, 5 if li == 0 else 3))
            services = []
            for _ in range(ns):
                services.append(draw_service(draw, avail, tables, pick(f"s{sc}", 2), used_px))
                sc += 1
            cps = [[i, str(draw(st.integers(0, 9)))] for i in range(ncp) if draw(st.booleans())]
            layers.append({"name": pick(f"L{li}", 4), "parent": parent, "dops": dops, "services": services,
                           "comparam_refs": cps, "table": table})
        desc = {"layers": layers, "n_comparams": ncp}
        if not M.well_formed(desc):
            # rare: constants drawn behind the head make two full request prefixes equal; drop those extras
            for l in layers:
                for sv in l["services"]:
                    sv["request"]["params"] = sv["request"]["params"][:2]
        kind = draw(st.sampled_from(["add", "delete", "rename", "dop_modified"] + ["attr"] * 8 + ["identity"]))
        li = draw(st.integers(0, nl - 1))
        lay = layers[li]
        edit = None
        if kind == "identity":
            edit = {"kind": "identity"}
        elif kind == "add":
            avail, tables = avail_of(li, lay["parent"], lay["dops"], lay.get("table"))
            new_svc = draw_service(draw, avail, tables, pick(f"s{sc}", 2), used_px)
            edit = {"kind": "add", "layer": li, "at": draw(st.integers(0, len(lay["services"]))), "service": new_svc}
            if not M.well_formed(M.apply_edit(desc, edit)):
                new_svc["request"]["params"] = new_svc["request"]["params"][:2]
        elif kind == "delete":
            edit = {"kind": "delete", "layer": li, "service": draw(st.integers(0, len(lay["services"]) - 1))}
        elif kind == "dop_modified":
            # prefer a DOP that is linked by some parameter (3 of 4 draws), any DOP otherwise
            every = [(a, b) for a, l in enumerate(layers) for b in range(len(l["dops"]))]
            used = [(a, b) for a, b in every if any(M.dop_users(desc, layers[a]["dops"][b]["name"]).values())]
            pool = used if (used and draw(st.integers(0, 3)) > 0) else every
            start = draw(st.integers(0, len(pool) - 1))
            for a, b in pool[start:] + pool[:start] + every:
                mods = []
                for m in M.dop_modifications(layers[a]["dops"][b]):
                    e = {"kind": "dop_modified", "layer": a, "dop": b, "new": m}
                    if M.well_formed(M.apply_edit(desc, e)):     # constants, defaults and table keys need IDENTICAL
                        mods.append(e)
                if mods:
                    edit = mods[draw(st.integers(0, len(mods) - 1))]
                    break
        elif kind == "rename":
            si = draw(st.integers(0, len(lay["services"]) - 1))
            edit = {"kind": "rename", "layer": li, "service": si, "name": "r_" + lay["services"][si]["name"],
                    "uid": "r_" + lay["services"][si]["uid"]}
        if edit is None:
            # one attribute of one parameter: first the (parameter type, attribute) combination, then the place
            combos = {}
            for a, l in enumerate(layers):
                for b, sv in enumerate(l["services"]):
                    for r in M.roles(sv):
                        for c, prm in enumerate(M._msg(sv, r)["params"]):
                            for k2 in M.ATTR_EDITS:
                                if M.edit_applies(prm, k2):
                                    combos.setdefault((prm["kind"], k2), []).append((a, b, r, c))
            keys = sorted(combos)
            first = draw(st.integers(0, len(keys) - 1))
            for key in keys[first:] + keys[:first]:
                locs = combos[key]
                start = draw(st.integers(0, len(locs) - 1))
                for loc in (locs[start:] + locs[:start])[:6]:
                    cands = M.attribute_candidates(desc, loc[0], loc[1], loc[2], loc[3], key[1])
                    if cands and key[1] == "coded_values":
                        cur = len(M._msg(layers[loc[0]]["services"][loc[1]], loc[2])["params"][loc[3]]["values"])
                        want = draw(st.sampled_from([0, 1, -1]))      # value changed / alternative added / removed
                        sel = [c for c in cands if (len(c["new"]) > cur) - (len(c["new"]) < cur) == want]
                        cands = sel or cands
                    if cands:
                        edit = cands[draw(st.integers(0, len(cands) - 1))]
                        break
                if edit is not None:
                    break
        return {"src": "gen", "desc": desc, "edit": edit, "detailed": draw(st.booleans())}

    return cases()


def _metrics_strategy():
    from hypothesis import strategies as st

    @st.composite
    def cases(draw):
        nl = draw(st.integers(2, 6))
        ncp = draw(st.integers(1, 4))
        layers = []
        for i in range(nl):
            kind = draw(st.sampled_from(M.LAYER_KINDS))
            cand = [j for j in range(i) if layers[j]["kind"] in M.ALLOWED_PARENTS[kind]]
            parent = cand[draw(st.integers(0, len(cand) - 1))] if cand and draw(st.integers(0, 2)) == 0 else None
            cps = [] if kind == "ECU-SHARED-DATA" or draw(st.booleans()) else \
                [c for c in range(ncp) if draw(st.booleans())]
            layers.append({"name": f"ML{i}", "kind": kind, "parent": parent,
                           "n_services": draw(st.sampled_from([0, 0, 1, 2, 3])),
                           "n_dops": draw(st.sampled_from([0, 0, 1, 2, 3])), "comparams": cps})
        ident = list(range(nl))
        orders = [ident, ident[::-1]]
        for _ in range(draw(st.integers(1, 3))):
            perm = draw(st.permutations(ident))
            orders.append(list(perm)[:draw(st.integers(1, nl))])
        return {"src": "metrics", "mdesc": {"n_comparams": ncp, "layers": layers}, "orders": orders}

    return cases()


def rich_description():
    """a fixed description in which every parameter kind occurs in every kind of message it may occur in"""
    def P(kind, name, pos, sem=None, **kw):
        return dict({"kind": kind, "name": name, "pos": pos, "semantic": sem}, **kw)

    def cc(name, pos, value, bits=8, typ="A_UINT32", sem=None):
        return P("CC", name, pos, sem, bits=bits, value=value, type=typ)

    d = lambda n, b, t="A_UINT32", **kw: dict({"name": n, "bits": b, "type": t}, **kw)  # noqa: E731
    s0 = {"name": "2E_write_config", "uid": "s0", "semantic": "FUNCTION",
          "request": {"name": "rq_s0", "params": [
              cc("sid", 0, 0x22, sem="SERVICE-ID"), cc("sub", 1, 1), P("VAL", "v0", 2, dop="d1"),
              P("PC", "p0", 3, dop="d0", value=5), P("RES", "r0", None, bits=8), P("SYS", "y0", 6, dop="d1", sysparam="TIMESTAMP"),
              P("LK", "l0", None, dop="d0"), P("VAL", "v1", 9, "DATA", dop="d0", default=3),
              P("TK", "k0", 11, table="tb0"), P("TS", "t0", None, key="k0")]},
          "pos": [{"name": "pr_s0_0", "params": [
              cc("sid", 0, 0x62), P("MR", "m0", 1, bits=8, rq_pos=1), P("VAL", "v0", None, dop="d0", default=7),
              P("PC", "p0", 4, dop="d1", value=9), P("RES", "r0", 5, bits=16), P("SYS", "y0", None, dop="d3", sysparam="DAY"),
              P("LK", "l0", 9, dop="d1"), P("TK", "k0", None, table="tb0"), P("TS", "t0", None, key="k0"),
              cc("c0", 14, 0x11, 16, "A_INT32")]},
              {"name": "pr_s0_1", "params": [cc("sid", 0, 0x62), P("VAL", "v0", 1, dop="d2")]}],
          "neg": [{"name": "nr_s0_0", "params": [
              cc("sid", 0, 0x7F), cc("rq", 1, 0x22), P("NRC", "n0", 2, bits=8, values=[0x10, 0x11, 0x12], type="A_UINT32"),
              P("MR", "m0", None, bits=16, rq_pos=0), P("VAL", "v0", 6, dop="d3"), P("PC", "p0", None, dop="d0", value=1),
              P("RES", "r0", 9, bits=8), P("SYS", "y0", None, dop="d0", sysparam="YEAR"), P("LK", "l0", 12, dop="d1"),
              P("TK", "k0", 14, table="tb0"), P("TS", "t0", None, key="k0")]},
              {"name": "nr_s0_1", "params": [cc("sid", 0, 0x7F), cc("rq", 1, 0x22),
                                             P("NRC", "n0", None, "DATA", bits=16, values=[0x31], type="A_INT32")]}]}
    s1 = {"name": "class", "uid": "s1", "semantic": None,
          "request": {"name": "rq_s1", "params": [cc("sid", 0, 0x22), cc("sub", 1, 2, 16), P("VAL", "v0", None, dop="d2")]},
          "pos": [{"name": "pr_s1_0", "params": [cc("sid", 0, 0x62), cc("c0", 2, 5)]}],
          "neg": [{"name": "nr_s1_0", "params": [cc("sid", 0, 0x7F), cc("rq", 1, 0x22),
                                                  P("NRC", "n0", 2, bits=8, values=[1, 2], type="A_UINT32")]}]}
    s2 = {"name": "keys", "uid": "s2", "semantic": "SESSION",
          "request": {"name": "rq_s2", "params": [cc("sid", 0, 0x31), cc("sub", 1, 1), P("VAL", "v0", 3, dop="e0"),
                                                  P("TK", "k0", 4, table="tb0"), P("TS", "t0", None, key="k0")]},
          "pos": [], "neg": [{"name": "nr_s2_0", "params": [cc("sid", 0, 0x7F), cc("rq", 1, 0x31),
                                                            P("NRC", "n0", 2, bits=8, values=[0x22], type="A_UINT32"),
                                                            P("VAL", "v0", 3, dop="d1")]}]}
    s3 = {"name": "svc", "uid": "s3", "semantic": None,
          "request": {"name": "rq_s3", "params": [cc("sid", 0, 0x31), cc("sub", 1, 2), P("VAL", "in", 2, dop="items")]},
          "pos": [{"name": "pr_s3_0", "params": [cc("sid", 0, 0x71), P("VAL", "v0", 1, dop="items")]}], "neg": []}
    s4 = {"name": "svc_2", "uid": "s4", "semantic": None,
          "request": {"name": "rq_s4", "params": [cc("sid", 0, 0x31), cc("sub", 1, 3), P("VAL", "copy", None, dop="e0")]},
          "pos": [], "neg": [{"name": "nr_s4_0", "params": [cc("sid", 0, 0x7F), cc("rq", 1, 0x31),
                                                            P("NRC", "n0", 2, bits=8, values=[0x12], type="A_UINT32")]}]}
    return {"n_comparams": 3, "layers": [
        {"name": "L0", "parent": None, "dops": [d("d0", 8), d("d1", 8), d("d2", 16), d("d3", 8, "A_INT32", compu={"offset": 1, "factor": 2}, phys="A_FLOAT64")],
         "services": [s0, s1], "comparam_refs": [[0, "5"], [1, "7"]], "table": {"name": "tb0", "key_dop": "d0"}},
        {"name": "1st_ecu", "parent": 0, "dops": [d("e0", 8), d("items", 8, "A_INT32")], "services": [s2, s3, s4],
         "comparam_refs": [[1, "9"], [2, "1"]], "table": {"name": "tb1", "key_dop": "e0"}}]}


def rich_cases():
    """every edit of the fixed description: add / delete / rename of every service, every in-place modification of
    every DOP, every attribute of every parameter with up to five new values"""
    desc = rich_description()
    if not M.well_formed(desc):
        raise RuntimeError("the fixed description is outside the envelope")
    out = [{"kind": "identity"}]
    for li, lay in enumerate(desc["layers"]):
        for si, sv in enumerate(lay["services"]):
            out.append({"kind": "delete", "layer": li, "service": si})
            out.append({"kind": "rename", "layer": li, "service": si, "name": "r_" + sv["name"], "uid": "r_" + sv["uid"]})
            for r in M.roles(sv):
                for pi in range(len(M._msg(sv, r)["params"])):
                    for k in M.ATTR_EDITS:
                        c = M.attribute_candidates(desc, li, si, r, pi, k)
                        step = max(1, len(c) // 5)
                        out += c[::step][:5] + (c[-1:] if len(c) > 5 else [])
        for di, dd in enumerate(lay["dops"]):
            for m in M.dop_modifications(dd):
                e = {"kind": "dop_modified", "layer": li, "dop": di, "new": m}
                if M.well_formed(M.apply_edit(desc, e)):
                    out.append(e)
    new_svc = {"name": "s9", "uid": "s9", "semantic": None,
               "request": {"name": "rq_s9", "params": [dict(desc["layers"][0]["services"][1]["request"]["params"][0], value=0x2E),
                                                       dict(desc["layers"][0]["services"][1]["request"]["params"][1])]},
               "pos": [], "neg": []}
    out.append({"kind": "add", "layer": 0, "at": 1, "service": new_svc})
    out.append({"kind": "add", "layer": 1, "at": 0, "service": new_svc})
    return [{"src": "gen", "desc": desc, "edit": e, "detailed": i % 2 == 0} for i, e in enumerate(out)]


def somersault_cases():
    return [{"src": "somersault", "edit": e, "detailed": (i % 2 == 0)}
            for i, e in enumerate(M.pdx_enumerate_edits(_base_pdx()))]


# ---------------------------------------------------------------------------
# runner interface
# ---------------------------------------------------------------------------
N_SOM = 8
N_RICH = 4


def shards(tier):
    nh = 8 if tier == "quick" else 16
    return [("hyp", i) for i in range(nh)] + [("som", i) for i in range(N_SOM)] + \
           [("met", i) for i in range(4 if tier == "quick" else 8)] + [("rich", i) for i in range(N_RICH)]


def _filter_known(fails, kf, res):
    from vlib import known
    new = []
    for f in fails:
        k = known.match(kf, f)
        if k is not None:
            res.known_hits[k["id"]] += 1
        else:
            new.append(f)
    return new


def run_shard(spec, seed, tier):
    from vlib import known
    res = core.ShardResult()
    kf = known.load(PROPERTY)
    if spec[0] == "som":
        cases = somersault_cases()
        mine = [c for i, c in enumerate(cases) if i % N_SOM == spec[1]]
        for c in mine:
            fails, classes, nontrivial = evaluate(c)
            res.note(c, nontrivial, classes, sample=(c["edit"]["kind"] in ("rename", "linked_dop", "dop_modified")))
            res.failures.extend(_filter_known(fails, kf, res)[:3])
        res.stages["enumeration"] = len(mine)
        res.exhaustive_subspaces.append(
            f"all {len(cases)} single edits of examples/somersault.pdx the XML-level model can express "
            "(delete/rename of every unreferenced service, one added copy per service, semantic / byte position / "
            "coded value / data type / bit length / linked DOP of every CODED-CONST and VALUE parameter, in-place "
            "modification of every DOP that is only linked directly by VALUE parameters)")
        return res

    if spec[0] == "rich":
        cases = rich_cases()
        mine = [c for i, c in enumerate(cases) if i % N_RICH == spec[1]]
        for c in mine:
            fails, classes, nontrivial = evaluate(c)
            res.note({"edit": c["edit"]}, nontrivial, classes | {"src:rich"}, sample=(c["edit"]["kind"] == "coded_values"))
            res.failures.extend(_filter_known(fails, kf, res)[:3])
        res.stages["enumeration"] = len(mine)
        res.exhaustive_subspaces.append(
            f"{len(cases)} edits of a fixed description containing every parameter kind in every kind of message: "
            "add/delete/rename of every service, every in-place DOP modification, every attribute of every parameter "
            "with up to six new values")
        return res
    if spec[0] == "met":
        n = 100 if tier == "quick" else 800

        def mbody(case):
            fails, classes, nontrivial = evaluate_metrics(case)
            res.note(case, nontrivial, classes)
            return _filter_known(fails, kf, res)

        best = core.hyp_search(_metrics_strategy(), mbody, seed, n)
        if best:
            res.failures.extend(best)
        res.stages["hypothesis"] = n
        return res

    n = 150 if tier == "quick" else 1500

    def body(case):
        fails, classes, nontrivial = evaluate(case)
        res.note({"desc": case["desc"], "edit": case["edit"]}, nontrivial, classes)
        return _filter_known(fails, kf, res)

    best = core.hyp_search(_strategies(), body, seed, n)
    if best:
        res.failures.extend(best)
    res.stages["hypothesis"] = n
    return res
