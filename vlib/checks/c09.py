"""C09 — a layer sees exactly the objects ODX value inheritance prescribes.

Domain: hierarchies of 1..5 layers of the five layer types (PARENT-REF combinations every
reading of ODX allows), objects of 17 categories named from {a,b,c} placed in any subset of
layers, NOT-INHERITED lists per parent reference.  Oracle: vlib/models/inherit.py.  Every
object carries a uid in LONG-NAME, views are compared as {short_name -> uid}.
"""
from __future__ import annotations

import itertools
import random
import warnings

from vlib import core
from vlib.models import hier_xml as hx
from vlib.models import inherit

PROPERTY = "C09"
RULE = ("layer hierarchy IR -> XML documents -> Database.refresh(); per layer and category the view "
        "{short_name->uid} is compared with the reference inheritance model, strict-mode loading must fail "
        "iff the model finds an unsettled equal-priority clash, PDUs of every service are decoded on every layer; "
        "non-trivial = >=2 layers, >=1 PARENT-REF and (a short name of one category defined in >=2 layers or a "
        "non-empty NOT-INHERITED list); distinct = digest of the hierarchy IR")
ASSUMPTIONS = [
    "inheritance priority is that of the direct parent offering the object: ECU-SHARED-DATA > ECU-VARIANT > BASE-VARIANT > FUNCTIONAL-GROUP > PROTOCOL",
    "objects are equal iff they are the same object, except UNIT-GROUPs (no ID) which are equal when all their content is equal",
    "services and single-ECU jobs share one short-name space (DIAG-COMM); the DOP-BASE kinds are checked with disjoint short names per kind (cross-kind overriding is not asserted)",
    "NOT-INHERITED-DOPS applies to every DOP-BASE kind of the data dictionary; functional classes, state charts, additional audiences and unit groups cannot be excluded",
    "a DIAG-COMM-REF makes the referenced object a local object of the referencing layer",
    "nothing is asserted about the content of views in non-strict mode (documented as undefined) nor after a failed load",
    "ECU-SHARED-DATA layers expose functional classes, state charts and additional audiences only through diag_layer_raw (no accessor on the layer); they are observed there",
]

DDD_ATTR = {"dops": "data_object_props"}
CAT_PREFIX = {"dops": "", "structures": "s_", "dtc_dops": "t_", "static_fields": "sf_", "end_of_pdu_fields": "ep_",
              "dynamic_length_fields": "dl_", "dynamic_endmarker_fields": "de_", "muxs": "m_", "env_datas": "ed_",
              "env_data_descs": "edd_"}
NI_CATS = [c for c in hx.CATEGORIES if inherit.NI_LIST[c] is not None]
NEEDS_STRUCT = ["static_fields", "end_of_pdu_fields", "dynamic_length_fields", "dynamic_endmarker_fields"]
NEEDS_DOP = ["dynamic_length_fields", "dynamic_endmarker_fields", "muxs"]

MUST_HIT = ([f"inherit:{c}" for c in hx.CATEGORIES] + [f"override:{c}" for c in hx.CATEGORIES] +
            [f"ni-effective:{c}" for c in NI_CATS] +
            [f"type:{t}" for t in hx.LAYER_TYPES] +
            ["conflict-raised", "priority-settles-clash", "same-object-twice", "local-settles-equal-clash",
             "clash-below-top-settled", "multi-parent-equal-priority", "multi-parent-diff-priority", "diamond",
             "diag-comm-ref", "job-vs-service", "twin-unit-group", "decode-visible", "decode-hidden-excluded",
             "decode-hidden-overridden", "parent-alone-compared", "docs-split", "layers:5",
             "snref-binding-compared", "snref-behaviour-compared", "snref-dop-overridden-by-child",
             "snref-struct-overridden-by-child"])


def cname(cat: str, letter: str) -> str:
    return CAT_PREFIX.get(cat, "") + letter


# ---------------------------------------------------------------------------
# observation
# ---------------------------------------------------------------------------
def observe(dl) -> dict:
    """{category -> [(short_name, long_name), ...]} through the public accessors of a layer"""
    out = {}
    out["diag_comms"] = [(x.short_name, x.long_name) for x in dl.diag_comms]
    ddd = dl.diag_data_dictionary_spec
    for c in hx.DOP_KINDS + ["tables"]:
        out[c] = [(x.short_name, x.long_name) for x in getattr(ddd, DDD_ATTR.get(c, c))]
    us = ddd.unit_spec
    out["unit_groups"] = [] if us is None else [(x.short_name, x.long_name) for x in us.unit_groups]
    out["gnrs"] = [(x.short_name, x.long_name) for x in dl.global_negative_responses]
    for c, attr in (("fcs", "functional_classes"), ("state_charts", "state_charts"), ("audiences", "additional_audiences")):
        src = dl if hasattr(dl, attr) else dl.diag_layer_raw
        out[c] = [(x.short_name, x.long_name) for x in getattr(src, attr)]
    out["_services"] = [(x.short_name, x.long_name) for x in dl.services]
    out["_diag_services"] = [(x.short_name, x.long_name) for x in dl.diag_services]
    out["_jobs"] = [(x.short_name, x.long_name) for x in dl.single_ecu_jobs]
    return out


def bindings(dl) -> list:
    """objects the short-name references inside the layer's data dictionary objects are bound to:
    [((kind, object short name, parameter), (uid of the bound object, width)), ...]"""
    out = []
    ddd = dl.diag_data_dictionary_spec
    for st in ddd.structures:
        for p in st.parameters:
            if getattr(p, "dop_snref", None) is not None:
                d = p.dop
                bl = getattr(getattr(d, "diag_coded_type", None), "bit_length", None)
                out.append((("structure", st.short_name, p.short_name), (d.long_name, bl)))
    for kind in ("static_fields", "end_of_pdu_fields"):
        for f in getattr(ddd, kind):
            if getattr(f, "structure_snref", None) is not None:
                out.append(((kind, f.short_name, "structure"), (f.structure.long_name, None)))
    return out


def behaviour(hier: dict, dl) -> list:
    """en-/decoding of the services visible in the layer whose request embeds a structure:
    [((service uid, what), result), ...]  (results are reprs / exception type names)"""
    from odxtools.exceptions import OdxError
    out = []
    by_uid = {}
    for l in hier["layers"]:
        for n, e in l.get("objs", {}).get("diag_comms", {}).items():
            if e["kind"] == "service" and e.get("struct"):
                by_uid[e["uid"]] = (l["name"], n)
    for s in dl.services:
        if s.long_name not in by_uid:
            continue
        pre = hx.service_prefix(hier, *by_uid[s.long_name])
        with warnings.catch_warnings():
            warnings.simplefilter("ignore")
            try:
                r = s.request.encode(payload={"v": 5}).hex()
            except (OdxError, KeyError, TypeError, ValueError) as e:
                r = type(e).__name__
            out.append(((s.long_name, "encode"), r))
            for tail in (b"\x07", b"\x01\x02"):
                try:
                    r = repr([mm.param_dict for mm in dl.decode(pre + tail)])
                except OdxError as e:
                    r = type(e).__name__
                out.append(((s.long_name, "decode " + tail.hex()), r))
    return out


def _load(hier):
    """-> (db | None, exception | None) in strict mode, warnings silenced"""
    import odxtools.exceptions as oe
    saved = oe.strict_mode
    oe.strict_mode = True
    try:
        with warnings.catch_warnings():
            warnings.simplefilter("ignore")
            try:
                return hx.load(hier), None
            except Exception as e:  # classified by the caller
                return None, e
    finally:
        oe.strict_mode = saved


# ---------------------------------------------------------------------------
# one evaluation
# ---------------------------------------------------------------------------
def features(hier: dict, m: inherit.Model, exp: dict) -> tuple[set, bool]:
    cls = set()
    layers = hier["layers"]
    cls.add(f"layers:{len(layers)}")
    n_refs = 0
    any_ni = False
    for l in layers:
        cls.add(f"type:{l['type']}")
        prios = [inherit.PRIORITY[m.layers[p["layer"]]["type"]] for p in l.get("parents", [])]
        n_refs += len(prios)
        if len(prios) >= 2:
            cls.add("multi-parent-equal-priority" if len(set(prios)) < len(prios) else "multi-parent-diff-priority")
            if len(set(prios)) > 1 and len(set(prios)) < len(prios):
                cls.add("multi-parent-diff-priority")
        for p in l.get("parents", []):
            if m.layers[p["layer"]]["type"] == "ECU-SHARED-DATA":
                cls.add("esd-parent")
            for k, v in p.get("ni", {}).items():
                if v:
                    any_ni = True
                    cls.add(f"ni-list:{k}")
        # diamond: some ancestor reachable through two different parents
        seen = {}
        for p in l.get("parents", []):
            for a in m.ancestors(p["layer"]) | {p["layer"]}:
                seen[a] = seen.get(a, 0) + 1
        if any(v > 1 for v in seen.values()):
            cls.add("diamond")
    if hier.get("docs") and len(hier["docs"]) > 1:
        cls.add("docs-split")
    multi_def = False
    kinds = m.kind_of_uid()
    for c in hx.CATEGORIES:
        placed = {}
        for l in layers:
            for n in m.local(l["name"], c):
                placed[n] = placed.get(n, 0) + 1
        if any(v > 1 for v in placed.values()):
            multi_def = True
        for l in layers:
            ln = l["name"]
            local = m.local(ln, c)
            cand = m.cands.get((ln, c), {})
            if any(n not in local for n in cand):
                cls.add(f"inherit:{c}")
            if m.excluded.get((ln, c)):
                cls.add(f"ni-effective:{c}")
            for n, cs in cand.items():
                uids = {x[1] for x in cs}
                if n in local:
                    if local[n] not in uids:
                        cls.add(f"override:{c}")
                        if c == "diag_comms" and any(kinds.get(u) != kinds.get(local[n]) for u in uids):
                            cls.add("job-vs-service")
                    top = max(x[0] for x in cs)
                    if len({x[1] for x in cs if x[0] == top}) > 1:
                        cls.add("local-settles-equal-clash")
                    continue
                if len(cs) > len(uids):
                    cls.add("same-object-twice")
                    if c == "unit_groups":
                        anc = m.ancestors(ln)
                        for u in uids:
                            if u.startswith("twin:") and sum(1 for a in anc if u in m.local(a, c).values()) >= 2:
                                cls.add("twin-unit-group")   # equal but distinct objects, no clash
                if len(uids) > 1:
                    top = max(x[0] for x in cs)
                    tops = {x[1] for x in cs if x[0] == top}
                    if len(tops) == 1:
                        cls.add("priority-settles-clash")
                        below = [x for x in cs if x[0] < top]
                        for pr in {x[0] for x in below}:
                            if len({x[1] for x in below if x[0] == pr}) > 1:
                                cls.add("clash-below-top-settled")
        for l in layers:
            for e in l.get("objs", {}).get("diag_comms", {}).values():
                if e["kind"] == "ref":
                    cls.add("diag-comm-ref")
                elif e["kind"] == "job":
                    cls.add("job")
    nontrivial = len(layers) >= 2 and n_refs >= 1 and (multi_def or any_ni)
    return cls, nontrivial


def snref_sites(hier: dict, m: inherit.Model) -> list:
    """short-name references inside locally defined data dictionary objects:
    [{"layer", "kind": "dop"|"struct", "name": referenced short name, "overridden_below": a descendant
      defines the referenced name locally (so that descendant sees another object under that name)}]"""
    out = []
    for l in hier["layers"]:
        desc = [o for o in hier["layers"] if l["name"] in m.ancestors(o["name"])]
        for cat, key, kind, tcat in (("structures", "dop_snref", "dop", "dops"),
                                     ("static_fields", "struct_snref", "struct", "structures"),
                                     ("end_of_pdu_fields", "struct_snref", "struct", "structures")):
            for e in l.get("objs", {}).get(cat, {}).values():
                if isinstance(e, dict) and e.get(key):
                    out.append({"layer": l["name"], "kind": kind, "name": e[key],
                                "overridden_below": any(e[key] in o.get("objs", {}).get(tcat, {}) for o in desc)})
    return out


def _fail(clause, detail, hier, bucket, **feat):
    f = {"bucket": bucket}
    f.update(feat)
    return core.Failure(clause=clause, detail=detail, case={"hier": core.plain(hier)}, features=f)


def compare_views(hier, db, m, exp, where="") -> list:
    fails = []
    kinds = m.kind_of_uid()
    for l in hier["layers"]:
        ln = l["name"]
        try:
            dl = db.diag_layers[ln]
            obs = observe(dl)
        except Exception as e:
            return [_fail("observe", f"{where}layer {ln}: {type(e).__name__}: {e}", hier, f"observe:{type(e).__name__}")]
        for c in hx.CATEGORIES:
            lst = obs[c]
            got = dict(lst)
            if len(got) != len(lst):
                fails.append(_fail("view-duplicates", f"{where}layer {ln} category {c}: duplicate short names {lst}",
                                   hier, f"dup:{c}", category=c, layer_type=l["type"]))
                continue
            if got != exp[ln][c]:
                e = exp[ln][c]
                missing = sorted(set(e) - set(got))
                extra = sorted(set(got) - set(e))
                wrong = sorted(n for n in set(e) & set(got) if e[n] != got[n])
                kind = "missing" if missing else "extra" if extra else "wrong-object"
                fails.append(_fail("view", f"{where}layer {ln} ({l['type']}) category {c}: got {got}, expected {e}",
                                   hier, f"view:{c}:{kind}", category=c, layer_type=l["type"], kind=kind,
                                   missing=missing, extra=extra, wrong=wrong))
        # services / jobs are the diag-comms of the respective kind
        dcs = exp[ln]["diag_comms"]
        exp_s = {n: u for n, u in dcs.items() if kinds[u] == "service"}
        exp_j = {n: u for n, u in dcs.items() if kinds[u] == "job"}
        for key, e in (("_services", exp_s), ("_diag_services", exp_s), ("_jobs", exp_j)):
            if dict(obs[key]) != e or len(obs[key]) != len(e):
                fails.append(_fail("services-jobs-split", f"{where}layer {ln}: {key[1:]} = {obs[key]}, expected {e}",
                                   hier, f"split:{key}", layer_type=l["type"]))
    return fails


def decode_clause(hier, db, m, exp, cls) -> list:
    """a PDU of a service decodes on a layer to that service iff the layer sees the service"""
    from odxtools.exceptions import DecodeError
    fails = []
    svc = []   # (defining layer, short name, uid, pdu)
    for l in hier["layers"]:
        for n, e in l.get("objs", {}).get("diag_comms", {}).items():
            if e["kind"] == "service" and not e.get("struct"):   # binding-dependent requests: see behaviour()
                svc.append((l["name"], n, e["uid"], hx.service_prefix(hier, l["name"], n)))
    for l in hier["layers"]:
        ln = l["name"]
        dl = db.diag_layers[ln]
        view = exp[ln]["diag_comms"]
        for (dln, n, uid, pdu) in svc:
            visible = view.get(n) == uid
            try:
                with warnings.catch_warnings():
                    warnings.simplefilter("ignore")
                    msgs = dl.decode(pdu)
                got = [(mm.service.short_name, mm.service.long_name, type(mm.coding_object).__name__) for mm in msgs]
                err = None
            except DecodeError as e:
                got, err = [], e
            except Exception as e:
                fails.append(_fail("decode-exception", f"layer {ln}.decode({pdu.hex()}) raised {type(e).__name__}: {e}",
                                   hier, f"decode-exception:{type(e).__name__}"))
                continue
            if visible:
                cls.add("decode-visible" if dln != ln else "decode-local")
                if got != [(n, uid, "Request")]:
                    fails.append(_fail("decode-inherited", f"layer {ln} sees service {uid} but decode({pdu.hex()}) gave "
                                       f"{got or repr(err)}", hier, "decode-inherited", layer_type=l["type"]))
            else:
                if dln in m.ancestors(ln):
                    offered = any(True for p in l.get("parents", []) if exp[p["layer"]]["diag_comms"].get(n) == uid)
                    if offered and any(n in p.get("ni", {}).get("diag_comms", []) for p in l.get("parents", [])):
                        cls.add("decode-hidden-excluded")
                    elif offered:
                        cls.add("decode-hidden-overridden")
                if any(g[1] == uid for g in got):
                    fails.append(_fail("decode-hidden", f"layer {ln} does not see service {uid} but decode({pdu.hex()}) "
                                       f"returned {got}", hier, "decode-hidden", layer_type=l["type"]))
    return fails


def evaluate(hier: dict, sub_check: bool = True) -> tuple[list, set, bool]:
    """-> (failures, classes, nontrivial)"""
    inherit.check_envelope(hier)
    m = inherit.Model(hier)
    exp = m.all_views()
    cls, nontrivial = features(hier, m, exp)
    db, exc = _load(hier)
    if m.conflicts:
        cls.add("conflict-expected")
        if exc is None:
            c = m.conflicts[0]
            lt = m.layers[c[0]]["type"]
            return [_fail("conflict-not-reported", f"layer {c[0]} ({lt}) category {c[1]}: unequal objects {c[3]} of equal "
                          f"top priority for short name {c[2]!r}, no local definition, but loading succeeded",
                          hier, f"conflict-not-reported:{c[1]}", category=c[1], layer_type=lt)], cls, nontrivial
        cls.add("conflict-raised")
        return [], cls, nontrivial
    if exc is not None:
        return [_fail("spurious-error", f"loading raised {type(exc).__name__}: {exc} although no unsettled clash exists",
                      hier, f"spurious-error:{type(exc).__name__}", exception=type(exc).__name__)], cls, nontrivial
    fails = compare_views(hier, db, m, exp)
    if not fails:
        fails += decode_clause(hier, db, m, exp, cls)
    # a parent's own view is never altered by its children: load the parent without them and compare the
    # visible objects, the objects the short-name references of its data dictionary are bound to, and the
    # en-/decoding of its services that embed such structures
    if sub_check and not fails and len(hier["layers"]) >= 2:
        sn = snref_sites(hier, m)
        cands = []
        for l in hier["layers"]:
            clo = m.closure(l["name"])
            if len(clo) >= len(hier["layers"]):
                continue
            ndesc = sum(1 for o in hier["layers"] if l["name"] in m.ancestors(o["name"]))
            if not ndesc:
                continue
            hot = sum(1 for x in sn if x["layer"] == l["name"] and x["overridden_below"])
            cands.append(((hot, ndesc, -len(clo)), l["name"], clo))
        cands.sort(key=lambda x: x[0], reverse=True)
        picked = cands[:1] + [c for c in cands[1:2] if c[0][0] > 0]
        for score, ln, clo in picked:
            sub = hx.restrict(hier, clo)
            db2, exc2 = _load(sub)
            cls.add("parent-alone-compared")
            if exc2 is not None:
                fails.append(_fail("spurious-error", f"loading {sorted(clo)} alone raised {type(exc2).__name__}: {exc2}",
                                   sub, f"spurious-error:{type(exc2).__name__}"))
                continue
            try:
                a = observe(db.diag_layers[ln])
                b = observe(db2.diag_layers[ln])
                a["_bindings"], b["_bindings"] = bindings(db.diag_layers[ln]), bindings(db2.diag_layers[ln])
                a["_behaviour"], b["_behaviour"] = behaviour(hier, db.diag_layers[ln]), behaviour(sub, db2.diag_layers[ln])
            except Exception as e:
                fails.append(_fail("observe", f"layer {ln} (alone vs. with children): {type(e).__name__}: {e}", hier,
                                   f"observe:{type(e).__name__}"))
                continue
            if a["_bindings"]:
                cls.add("snref-binding-compared")
            if a["_behaviour"]:
                cls.add("snref-behaviour-compared")
            if score[0]:
                for x in sn:
                    if x["layer"] == ln and x["overridden_below"]:
                        cls.add(f"snref-{x['kind']}-overridden-by-child")
            for c in a:
                if dict(a[c]) != dict(b[c]):
                    diff = sorted(k for k in set(dict(a[c])) | set(dict(b[c])) if dict(a[c]).get(k) != dict(b[c]).get(k))
                    fails.append(_fail("parent-altered", f"layer {ln} {c.lstrip('_')}: with children "
                                       f"{[(k, dict(a[c]).get(k)) for k in diff]}, alone {[(k, dict(b[c]).get(k)) for k in diff]}",
                                       hier, f"parent-altered:{c}", category=c))
    return fails, cls, nontrivial


def replay(case) -> list:
    return evaluate(case["hier"])[0]


# ---------------------------------------------------------------------------
# generation
# ---------------------------------------------------------------------------
TEMPLATES = [
    ["PROTOCOL", "FUNCTIONAL-GROUP", "FUNCTIONAL-GROUP", "BASE-VARIANT", "ECU-VARIANT"],
    ["ECU-SHARED-DATA", "PROTOCOL", "FUNCTIONAL-GROUP", "BASE-VARIANT", "ECU-VARIANT"],
    ["ECU-SHARED-DATA", "ECU-SHARED-DATA", "PROTOCOL", "BASE-VARIANT", "ECU-VARIANT"],
    ["PROTOCOL", "PROTOCOL", "FUNCTIONAL-GROUP", "BASE-VARIANT", "ECU-VARIANT"],
    ["PROTOCOL", "PROTOCOL", "PROTOCOL", "FUNCTIONAL-GROUP", "BASE-VARIANT"],
    ["ECU-SHARED-DATA", "PROTOCOL", "BASE-VARIANT", "ECU-VARIANT", "ECU-VARIANT"],
]


def add_helpers(hier: dict) -> dict:
    """field kinds / muxes refer to a local structure / DOP: add uniquely named helper objects where missing"""
    for l in hier["layers"]:
        o = l.setdefault("objs", {})
        if any(o.get(c) for c in NEEDS_STRUCT) and not o.get("structures"):
            o["structures"] = {f"zs_{l['name']}": f"{l['name']}:structures:zs"}
        if any(o.get(c) for c in NEEDS_DOP) and not o.get("dops"):
            o["dops"] = {f"zd_{l['name']}": f"{l['name']}:dops:zd"}
    return hier


PROFILES = {
    # general mix
    "mix": {"n": [1, 2, 2, 3, 3, 3, 4, 4, 4, 5, 5, 5], "ncat": [1, 1, 2, 2, 3, 4], "letters": [["a"], ["a", "b"], ["a", "b"], ["a", "b", "c"]],
            "dens": [2, 3, 4, 6], "ni_dens": [0, 1, 2, 3], "pdens": [3, 5, 7]},
    # many parents, one category, one or two names: clashes, priorities, diamonds, conflicts
    "dense": {"n": [4, 5, 5], "ncat": [1], "letters": [["a"], ["a", "b"]], "dens": [4, 6], "ni_dens": [0, 1], "pdens": [6, 7]},
    # hierarchies without value-inherited objects (C15)
    "bare": {"snref": 0, "n": [1, 2, 3, 3, 4, 4, 5], "ncat": [0], "letters": [["a"]], "dens": [0], "ni_dens": [0], "pdens": [4, 6, 7]},
}


def snref_scenario(layers: list, pname: str, field, overrides: dict) -> None:
    """layer `pname` gets (if it does not see one) the DOP "a", the structure "sr" whose parameter refers to
    "a" by DOP-SNREF, optionally a field "fr" (category `field`) referring to "sr" by BASIC-STRUCTURE-SNREF and
    the service "w" whose request embeds "sr"; `overrides` = {layer name: "dop"|"struct"|"both"}: these layers
    locally define a 16 bit DOP "a" and / or another structure "sr"."""
    m = inherit.Model({"layers": layers})
    by = {l["name"]: l for l in layers}
    P = by[pname]
    o = P.setdefault("objs", {})
    if "a" not in m.view(pname, "dops"):
        o.setdefault("dops", {})["a"] = {"uid": f"{pname}:dops:a", "bits": 8}
    o.setdefault("structures", {})["sr"] = {"uid": f"{pname}:structures:sr", "dop_snref": "a"}
    if field:
        o.setdefault(field, {})["fr"] = {"uid": f"{pname}:{field}:fr", "struct_snref": "sr"}
    o.setdefault("diag_comms", {})["w"] = {"kind": "service", "uid": f"{pname}:diag_comms:w", "struct": "sr"}
    for dn, what in overrides.items():
        d = by[dn].setdefault("objs", {})
        if what in ("dop", "both"):
            d.setdefault("dops", {})["a"] = {"uid": f"{dn}:dops:a:wide", "bits": 16}
        if what in ("struct", "both"):
            d.setdefault("structures", {})["sr"] = f"{dn}:structures:sr"


def inject_snref(draw, layers: list) -> None:
    from hypothesis import strategies as st
    m = inherit.Model({"layers": layers})
    withdesc = [l["name"] for l in layers if any(l["name"] in m.ancestors(o["name"]) for o in layers)]
    pname = draw(st.sampled_from(withdesc or [l["name"] for l in layers]))
    field = draw(st.sampled_from([None, None, "static_fields", "end_of_pdu_fields"]))
    overrides = {}
    for o in layers:
        if pname in m.ancestors(o["name"]) and draw(st.integers(0, 3)) > 0:
            overrides[o["name"]] = draw(st.sampled_from(["dop", "dop", "struct", "both"]))
    snref_scenario(layers, pname, field, overrides)


def enum_snref():
    """small systematic space around short-name references in inherited objects: parent P with the scenario
    of snref_scenario, one or two direct children or a child and a grandchild, every choice of overriding
    layers / kinds, field kind, exclusion of "a" on the child's PARENT-REF, document split and order"""
    T = hx.LAYER_TYPES
    A = inherit.ALLOWED_PARENTS
    shapes = []
    for tp in T:
        for td in T:
            if tp in A[td]:
                shapes.append([("P", tp, []), ("D", td, ["P"])])
                if td != "ECU-SHARED-DATA":
                    shapes.append([("P", tp, []), ("D", td, ["P"]), ("D2", td, ["P"])])
                for tg in T:
                    if td in A[tg]:
                        shapes.append([("P", tp, []), ("D", td, ["P"]), ("G", tg, ["D"])])
    for shape in shapes:
        kids = [n for n, _, _ in shape[1:]]
        for ov in itertools.product([None, "dop", "struct", "both"], repeat=len(kids)):
            if not any(ov):
                continue
            for field in (None, "static_fields", "end_of_pdu_fields"):
                for ni in ([], ["a"]):
                    for docs in (None, "kids-first", "parent-last-split"):
                        layers = [{"name": n, "type": t, "objs": {},
                                   "parents": [{"layer": p, "ni": ({"dops": list(ni)} if ni and n == "D" else {})} for p in ps]}
                                  for n, t, ps in shape]
                        snref_scenario(layers, "P", field, {k: o for k, o in zip(kids, ov) if o})
                        h = {"layers": layers}
                        if docs == "kids-first":
                            h["docs"] = [[k] for k in reversed(kids)] + [["P"]]
                        elif docs == "parent-last-split":
                            h["docs"] = [["P"], kids]
                        yield add_helpers(h)


def hier_strategy(profile="mix", comparams=None, cats=None):
    from hypothesis import strategies as st
    prof = PROFILES[profile]
    catpool = list(cats or hx.CATEGORIES)

    @st.composite
    def build(draw):
        n = draw(st.sampled_from(prof["n"]))
        if draw(st.booleans()):
            tpl = draw(st.sampled_from(TEMPLATES))
            idx = sorted(draw(st.lists(st.integers(0, 4), min_size=n, max_size=n, unique=True)))
            types = [tpl[i] for i in idx]
        else:
            types = [draw(st.sampled_from(hx.LAYER_TYPES)) for _ in range(n)]
        order = draw(st.permutations(list(range(n))))
        types = [types[i] for i in order]
        lnames = [f"L{i}" for i in range(n)]
        ncat = min(draw(st.sampled_from(prof["ncat"])), len(catpool))
        active = draw(st.lists(st.sampled_from(catpool), min_size=ncat, max_size=ncat, unique=True)) if ncat else []
        letters = draw(st.sampled_from(prof["letters"]))
        dens = draw(st.sampled_from(prof["dens"]))      # presence probability dens/8
        ni_dens = draw(st.sampled_from(prof["ni_dens"]))    # exclusion probability ni_dens/8
        pdens = draw(st.sampled_from(prof["pdens"]))
        layers = []
        for i in range(n):
            layers.append({"name": lnames[i], "type": types[i], "parents": [], "objs": {}})
        # objects
        for c in active:
            for lt in letters:
                nm = cname(c, lt)
                twin = c == "unit_groups" and draw(st.booleans())
                for l in layers:
                    if draw(st.integers(0, 7)) < dens:
                        uid = f"{l['name']}:{c}:{nm}"
                        if c == "diag_comms":
                            k = draw(st.sampled_from(["service", "service", "service", "job"]))
                            l["objs"].setdefault(c, {})[nm] = {"kind": k, "uid": uid}
                        else:
                            if twin and draw(st.integers(0, 3)) > 0:
                                uid = f"twin:{c}:{nm}"
                            l["objs"].setdefault(c, {})[nm] = uid
        # parents
        for i, l in enumerate(layers):
            cands = [j for j in range(n) if j != i and types[j] in inherit.ALLOWED_PARENTS[types[i]]]
            chosen = [j for j in cands if draw(st.integers(0, 7)) < pdens]
            chosen = list(draw(st.permutations(chosen)))[:3]
            if types[i] == "ECU-VARIANT":
                bvs = [j for j in chosen if types[j] == "BASE-VARIANT"]
                for j in bvs[1:]:
                    chosen.remove(j)
            for j in chosen:
                ni = {}
                for lst in ("diag_comms", "dops", "tables", "gnrs", "variables"):
                    pool = []
                    for c in active:
                        if inherit.NI_LIST[c] == lst:
                            pool += [cname(c, lt) for lt in letters]
                    if lst == "variables" or not pool:
                        pool = pool or list(letters)
                    sel = [x for x in pool if draw(st.integers(0, 7)) < ni_dens]
                    if sel:
                        ni[lst] = sel
                l["parents"].append({"layer": lnames[j], "ni": ni})
        # DIAG-COMM-REFs: replace some absent diag-comm names by references to an ancestor's / ESD's object
        if "diag_comms" in active:
            m = inherit.Model({"layers": layers})
            for l in layers:
                for lt in letters:
                    if lt in l["objs"].get("diag_comms", {}):
                        continue
                    tg = [o["name"] for o in layers if o is not l and lt in o["objs"].get("diag_comms", {})
                          and o["objs"]["diag_comms"][lt]["kind"] != "ref"
                          and (o["type"] == "ECU-SHARED-DATA" or o["name"] in m.ancestors(l["name"]))]
                    if tg and draw(st.integers(0, 7)) < 2:
                        l["objs"].setdefault("diag_comms", {})[lt] = {"kind": "ref", "layer": draw(st.sampled_from(tg)),
                                                                       "name": lt}
        if prof.get("snref", 3) and draw(st.integers(0, 7)) < prof.get("snref", 3):
            inject_snref(draw, layers)
        hier = {"layers": layers}
        mode = draw(st.sampled_from([0, 0, 1, 2]))
        if mode == 1:
            hier["docs"] = [[x] for x in draw(st.permutations(lnames))]
        elif mode == 2 and n >= 2:
            perm = list(draw(st.permutations(lnames)))
            k = draw(st.integers(1, n - 1))
            hier["docs"] = [perm[:k], perm[k:]]
        add_helpers(hier)
        if comparams is not None:
            comparams(draw, hier)
        return hier

    return build()


# ---------------------------------------------------------------------------
# exhaustive small scopes: k layers x 2 names x 1 category
# ---------------------------------------------------------------------------
def _subsets(xs):
    xs = list(xs)
    for r in range(len(xs) + 1):
        yield from itertools.combinations(xs, r)


def enum_hiers(k: int, cat: str, types_filter=None):
    """all hierarchies of exactly k layers (ordered type tuples), every set of allowed PARENT-REFs, names a,b of
    one category in every subset of layers, every NOT-INHERITED subset of {a,b} (of the list that governs the
    category) on every parent reference whose parent's view offers the excluded name (other exclusions are no-ops
    and are represented by the empty list)."""
    names = [cname(cat, "a"), cname(cat, "b")]
    lst = inherit.NI_LIST[cat]
    for types in itertools.product(hx.LAYER_TYPES, repeat=k):
        if types_filter is not None and not types_filter(types):
            continue
        pairs = [(i, j) for i in range(k) for j in range(k)
                 if i != j and types[j] in inherit.ALLOWED_PARENTS[types[i]]]
        for edges in _subsets(pairs):
            bad = False
            for i in range(k):
                if types[i] == "ECU-VARIANT" and sum(1 for (a, b) in edges if a == i and types[b] == "BASE-VARIANT") > 1:
                    bad = True
            if bad:
                continue
            for pa in _subsets(range(k)):
                for pb in _subsets(range(k)):
                    layers = []
                    for i in range(k):
                        objs = {}
                        for nm, pl in ((names[0], pa), (names[1], pb)):
                            if i in pl:
                                uid = f"L{i}:{cat}:{nm}"
                                objs.setdefault(cat, {})[nm] = {"kind": "service", "uid": uid} if cat == "diag_comms" else uid
                        layers.append({"name": f"L{i}", "type": types[i], "objs": objs,
                                       "parents": [{"layer": f"L{j}", "ni": {}} for (a, j) in edges if a == i]})
                    base = add_helpers({"layers": layers})
                    if lst is None or not edges:
                        yield base
                        continue
                    m = inherit.Model(base)
                    # exclusion options per edge: subsets of the names the parent's view offers
                    opts = []
                    for (i, j) in edges:
                        offered = [nm for nm in names if nm in m.view(f"L{j}", cat)]
                        opts.append(list(_subsets(offered)))
                    for combo in itertools.product(*opts):
                        h = {"layers": [dict(l, parents=[dict(p) for p in l["parents"]]) for l in base["layers"]]}
                        for (i, j), sel in zip(edges, combo):
                            for p in h["layers"][i]["parents"]:
                                if p["layer"] == f"L{j}":
                                    p["ni"] = {lst: list(sel)} if sel else {}
                        yield h


# NOTE: exclusions change the views of intermediate layers, so "offered" is computed on the hierarchy
# without exclusions; an exclusion of a name that an exclusion further up already removed is then a no-op,
# which is harmless (the hierarchy is still inside the domain).


def shards(tier):
    out = []
    nh = 16
    for i in range(nh):
        out.append(("hyp", i, "dense" if i % 4 == 3 else "mix"))
    for c in hx.CATEGORIES:
        out.append(("enum", 2, c, None))
    for k in range(3):
        out.append(("snref", k, 3))
    if tier == "thorough":
        for c in ["diag_comms", "dops", "tables", "gnrs", "state_charts", "unit_groups"]:
            for t0 in hx.LAYER_TYPES:
                for t1 in hx.LAYER_TYPES:
                    out.append(("enum", 3, c, [t0, t1]))
    return out


def run_shard(spec, seed, tier):
    from vlib import known
    res = core.ShardResult()
    kf = known.load(PROPERTY)

    def body(hier, sample=True, sub_check=True):
        fails, cls, nontrivial = evaluate(hier, sub_check=sub_check)
        res.note({"hier": hier}, nontrivial, cls, sample=sample)
        new = []
        for f in fails:
            k = known.match(kf, f)
            if k is not None:
                res.known_hits[k["id"]] += 1
            else:
                new.append(f)
        return new

    if spec[0] == "snref":
        n = 0
        for i, h in enumerate(enum_snref()):
            if i % spec[2] != spec[1]:
                continue
            n += 1
            new = body(h, sample=(n % 211 == 1))
            if new and len(res.failures) < 20:
                res.failures.extend(new[:2])
        res.stages["enumeration"] = n
        res.exhaustive_subspaces.append(
            "short-name references in inherited objects: parent with DOP a / structure sr (DOP-SNREF a) / optional field "
            "(BASIC-STRUCTURE-SNREF sr) / service embedding sr; one child, two children or child + grandchild of every "
            "allowed type combination; every choice of layers overriding a and / or sr; exclusion of a; 3 document layouts")
        return res
    if spec[0] == "enum":
        _, k, cat, t0 = spec
        filt = None if t0 is None else (lambda ts: list(ts[:2]) == list(t0))
        n = 0
        for h in enum_hiers(k, cat, filt):
            n += 1
            # the separate load of a parent without its children is done for k=2 only (cost); for k=3 the
            # parent's view inside the full hierarchy is still compared with the children-independent model
            new = body(h, sample=(n % 1009 == 1), sub_check=(k <= 2))
            if new and len(res.failures) < 20:
                res.failures.extend(new[:2])
        res.stages["enumeration"] = n
        res.exhaustive_subspaces.append(
            f"all hierarchies of exactly {k} layers (ordered type tuples), all allowed PARENT-REF sets, short names "
            f"a,b of category {cat} in all placements, all effective NOT-INHERITED subsets per parent reference")
        return res
    n = 600 if tier == "quick" else 3000
    prof = spec[2]
    cats = None
    if prof == "dense":   # the dense shards rotate over the categories so that each sees clashes
        k = (spec[1] // 4) % 4
        cats = [["diag_comms", "unit_groups", "tables"], ["dops", "structures", "gnrs", "muxs"],
                ["fcs", "state_charts", "audiences", "unit_groups"],
                ["dtc_dops", "static_fields", "end_of_pdu_fields", "dynamic_length_fields",
                 "dynamic_endmarker_fields", "env_datas", "env_data_descs", "diag_comms"]][k]
    found = core.hyp_search(hier_strategy(prof, cats=cats), body, seed, n)
    if found:
        res.failures.extend(found)
    res.stages["hypothesis"] = n
    return res
