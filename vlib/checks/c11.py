"""C11 — writing a database to PDX and loading it back preserves it.

Domain
  (a) the shipped examples somersault.pdx / somersault_modified.pdx;
  (b) composed perturbations (2-4 sound single-attribute perturbations at once, drawn by
      Hypothesis) of both examples, and whatever `extra_databases(tier, seed)` yields
      (hook for the generated-document emitter; returns [] today);
  (c) the single-attribute perturbation matrix: dataclass type x field x variant x (up to 3
      instances with distinct None-profiles) reachable from the loaded example
      (vlib/models/pdxperturb.py);  quick = a seed-selected 1/8 slice, thorough = all of it;
  (d) file orders and entry points: load_pdx_file / load_file / load_directory / load_files on
      permuted member orders of the shipped and of the re-written archive.

Oracle (per database db1):  p1 = write(db1); every .odx* member of p1 is well-formed XML;
  db2 = load(p1); the dataclass graphs of db2 and db1 are equal (vlib/models/dcdiff.py names the
  differing Class.field = root-cause key, failure mode dropped/altered); the .odx* members of
  write(db2) are byte-identical to those of p1; a fixed encode/decode script gives identical results
  on db1 and db2; all entry points / member orders give equal databases.
"""
from __future__ import annotations

import io
import itertools
import os
import random
import re
import shutil
import tempfile
import warnings
import zipfile
from typing import Any, Dict, List, Optional, Tuple

from vlib import core

PROPERTY = "C11"
RULE = ("a case is one database (shipped example, example with 1 or 2-4 sound single-attribute "
        "perturbations applied, or example archive with permuted member order / other entry point) "
        "pushed through write_pdx_file -> load and compared; non-trivial = the database differs from the "
        "shipped example in at least one perturbed field that survived the strict-mode validity guard "
        "(perturbation cases), or the member order / entry point differs from the archive default (order "
        "cases), or it is a shipped example itself; distinct = digest of the concrete perturbation list "
        "/ order case")
ASSUMPTIONS = [
    "a perturbed database that passes __post_init__ of the perturbed object and its ancestors plus Database.refresh() in strict mode is one the parser could have produced (perturbation values follow the soundness rules of DESIGN C11)",
    "structural equality is dataclass equality of diag_layer_containers, comparam_subsets and comparam_specs (fields with compare=True only; resolved references and caches are not compared)",
    "the order of the top-level lists (containers, comparam subsets, comparam specs) follows the member order of the archive and is not part of the loaded database: for order/entry-point cases they are compared keyed by short name",
    "ids, short names, ODXLINK/SNREF references, context-derived fields and BASE-DATA-TYPE / compu CATEGORY are not perturbed (left to generated documents)",
    "auxiliary (non-ODX) archive members are outside the property and not compared",
    "behavioural equality is judged on a fixed script: encode every request of every ECU variant with searched parameter values, decode the result, encode/decode the first positive response; results and exception type names must agree",
]
# gen:deco:variable-group(-ref) join MUST_HIT once pending_fixes/C11-variable-group-parser.diff is applied (capability-gated)
MUST_HIT = ["generated", "gen:deco:variable-group", "gen:deco:company-datas", "gen:deco:admin-data:layer", "gen:deco:admin-data:dop", "gen:deco:admin-data:request", "gen:deco:admin-data:service", "gen:deco:funct-class", "gen:deco:audience", "gen:deco:state-chart", "gen:deco:single-ecu-job", "gen:deco:library", "gen:deco:related-diag-comm", "gen:deco:dyn-defined-spec", "gen:deco:diag-variable", "gen:deco:table-diag-comm-connector", "gen:deco:sub-component", "gen:deco:unit-spec", "gen:deco:constr", "gen:deco:linked-dtc-dop", "gen:deco:empty-long-name",
            "gen:deco:pos-response-suppressable", "gen:deco:sdg:STRUCTURE", "gen:deco:sdg:PARAM", "gen:const:bytefield", "gen:mux", "gen:dlfield", "gen:table", "gen:dtc", "gen:emfield", "gen:dct:paramlen", "example", "kind:samename", "samename-entry", "text-with-tab-lf", "kind:text", "kind:raw", "kind:bool", "kind:int", "kind:enum", "kind:sub",
            "kind:sublist", "kind:xhtml", "composed", "entry:load_directory", "entry:load_files",
            "entry:load_pdx_file-permuted", "roundtrip-ok", "behaviour-encoded"]

N_MATRIX_SHARDS = 16
QUICK_SLICE = 8


def extra_databases(tier: str, seed: int) -> list:
    """HOOK for hand-made documents (DESIGN C11 domain (b)).

    Return a list of `{"name": str, "files": {member_name: bytes}}`; every entry is written to a
    temporary directory, loaded with `odxtools.load_files` in strict mode and pushed through the
    same oracle as the shipped examples (see `_eval_extra`).  Generated documents come from the
    "generated" shards below (`_eval_generated`), which use the message IR emitter of vlib/emit.py."""
    return []


SDG_TARGETS = ["STRUCTURE", "DATA-OBJECT-PROP", "REQUEST", "POS-RESPONSE", "NEG-RESPONSE", "DIAG-SERVICE", "PARAM",
               "TABLE", "TABLE-ROW", "MUX", "DTC-DOP", "STATIC-FIELD", "DYNAMIC-LENGTH-FIELD", "END-OF-PDU-FIELD",
               "DYNAMIC-ENDMARKER-FIELD", "ENV-DATA", "ENV-DATA-DESC", "DTC"]


def decorate(draw, xml: str):
    """adds elements the message IR does not know (special data groups with XML meta characters, a
    POS-RESPONSE-SUPPRESSABLE) to a generated document by text insertion; all of them are read by the parser"""
    from hypothesis import strategies as st
    feats = []
    n = [0]

    def sdgs():
        n[0] += 1
        si = draw(st.sampled_from(["plain", "a&b", "x<y", 'q"uote', "it's"]))
        txt = draw(st.sampled_from(["text", "a&b<c>", "  spaced  ", "x\ty", ""]))
        from xml.sax.saxutils import escape, quoteattr
        nested = "<SDG><SD>inner</SD></SDG>" if draw(st.booleans()) else ""
        cap = (f'<SDG-CAPTION ID="sdgcap{n[0]}"><SHORT-NAME>sdgcap{n[0]}</SHORT-NAME></SDG-CAPTION>'
               if draw(st.booleans()) else "")
        return (f'<SDGS><SDG SI={quoteattr(si)}>{cap}<SD SI={quoteattr(si)} TI={quoteattr("t" + si)}>{escape(txt)}</SD>'
                f'{nested}</SDG></SDGS>')
    for tag in SDG_TARGETS:
        if draw(st.integers(0, 9)) < 3:
            pat = re.compile(r"(<" + re.escape(tag) + r"(?: [^>]*)?>(?:<SHORT-NAME>[^<]*</SHORT-NAME>)(?:<LONG-NAME>[^<]*</LONG-NAME>)?)")
            m = pat.search(xml)
            if m:
                xml = xml[:m.end()] + sdgs() + xml[m.end():]
                feats.append("deco:sdg:" + tag)
    # descriptions with external documents (inserted directly behind LONG-NAME, i.e. in front of any SDGS)
    for tag in SDG_TARGETS:
        if draw(st.integers(0, 9)) < 2:
            pat = re.compile(r"(<" + re.escape(tag) + r"(?: [^>]*)?>(?:<SHORT-NAME>[^<]*</SHORT-NAME>)(?:<LONG-NAME>[^<]*</LONG-NAME>)?)")
            m = pat.search(xml)
            if m:
                ti = draw(st.sampled_from(["", ' TI="ti.1"', ' TI="a&amp;b"']))
                eds = draw(st.sampled_from([
                    "",
                    '<EXTERNAL-DOCS><EXTERNAL-DOC HREF="http://h/?a=1&amp;b=2">see &lt;here&gt; &amp; there</EXTERNAL-DOC></EXTERNAL-DOCS>',
                    '<EXTERNAL-DOCS><EXTERNAL-DOC HREF="plain.pdf"/><EXTERNAL-DOC HREF="x&quot;y">two</EXTERNAL-DOC></EXTERNAL-DOCS>']))
                body = draw(st.sampled_from(["<p>Hello &amp; bye</p>", "plain text", "<p>a</p>\n<p>b &lt; c</p>"]))
                xml = xml[:m.end()] + f"<DESC{ti}>{body}{eds}</DESC>" + xml[m.end():]
                feats.append("deco:desc")
                if eds:
                    feats.append("deco:external-docs")
    if draw(st.integers(0, 9)) < 4 and '<SHORT-NAME>sid</SHORT-NAME>' in xml and "</DIAG-SERVICE>" in xml:
        mask = draw(st.sampled_from(["80", "01", "0100", "FF"]))
        xml = xml.replace("</DIAG-SERVICE>", f'<POS-RESPONSE-SUPPRESSABLE><BIT-MASK>{mask}</BIT-MASK>'
                          f'<CODED-CONST-SNREF SHORT-NAME="sid"/></POS-RESPONSE-SUPPRESSABLE></DIAG-SERVICE>', 1)
        feats.append("deco:pos-response-suppressable")
    return xml, feats


def _eval_generated(case: dict, res: Optional[core.ShardResult]) -> List[core.Failure]:
    """case = {kind: generated, xml: <ODX document text>}: a document produced by the message-level
    generator (vlib/gen.py + vlib/emit.py: every parameter kind, DOP kind, diag coded type, fields,
    multiplexers, tables, DTC-DOPs, environment data ...) pushed through the same round-trip oracle"""
    from vlib import emit
    from vlib.models import pdxperturb as pp
    cm = _quiet()
    try:
        pp.set_strict(True)
        if "<CODE-FILE>" in case["xml"]:
            # PROG-CODE / LIBRARY snippets name code files: they must exist as auxiliary files of the database
            import io
            from odxtools.database import Database
            from vlib.models import odxsnippets
            db = Database()
            db.add_odx_file(io.BytesIO(case["xml"].encode("utf-8")))
            odxsnippets.add_aux_files(db)
            db.refresh()                              # a generated document odxtools rejects is a harness error
        else:
            db = emit.load(case["xml"].encode("utf-8"))   # a generated document odxtools rejects is a harness error
    finally:
        cm.__exit__(None, None, None)
    classes = {"generated"} | {"gen:" + f for f in case.get("features", [])}
    fails = evaluate(db, {"kind": "generated", "xml": case["xml"]}, classes)
    if res is not None:
        res.note({"kind": "generated", "features": case.get("features", []), "xml_len": len(case["xml"])}, True,
                 classes, dig={"xml": case["xml"]})
    return fails


# ---------------------------------------------------------------------------
# helpers around odxtools
# ---------------------------------------------------------------------------
def _odx_members(path: str) -> Dict[str, bytes]:
    out = {}
    with zipfile.ZipFile(path) as z:
        for n in z.namelist():
            if os.path.splitext(n)[1].lower().startswith(".odx"):
                out[n] = z.read(n)
    return out


def _quiet():
    cm = warnings.catch_warnings()
    cm.__enter__()
    warnings.simplefilter("ignore")
    return cm


def _close_db(db) -> None:
    """odxtools never closes the ZipFile it opens in add_pdx_file; do it for the databases the
    check loads itself so that the temp directory can be removed and no ResourceWarning is left"""
    try:
        for aux in list(db.auxiliary_files.values()):
            zf = getattr(getattr(getattr(aux, "_fileobj", None), "_close", None), "__self__", None)
            try:
                aux.close()
            except Exception:
                pass
            if isinstance(zf, zipfile.ZipFile):
                zf.close()
    except Exception:
        pass


def _xml_context(data: bytes, line: int, col: int) -> str:
    """names the attribute or element in which the XML parser stopped"""
    try:
        text = data.decode("utf-8", "replace").split("\n")[line - 1][:col]
    except Exception:
        return "?"
    m = re.search(r"""\s([A-Za-z_:][\w:.-]*)=("[^"]*|'[^']*)$""", text)
    if m:
        tag = re.findall(r"<([A-Za-z_][\w:.-]*)", text)
        return f"attr:{tag[-1] if tag else '?'}@{m.group(1)}"
    tags = re.findall(r"<([A-Za-z_][\w:.-]*)", text)
    return f"text:{tags[-1]}" if tags else "?"


def _xml_open_path(data: bytes, line: int, col: int, depth: int = 2) -> str:
    """the innermost `depth` open elements at the position where the XML parser stopped
    (e.g. `STATE-CHART/SEMANTIC`): tells apart equally named elements of different macros"""
    try:
        lines = data.decode("utf-8", "replace").split("\n")
        text = "\n".join(lines[:line - 1] + [lines[line - 1][:col]])
    except Exception:
        return "?"
    stack: List[str] = []
    for m in re.finditer(r"<(/?)([A-Za-z_][\w:.-]*)((?:\"[^\"]*\"|'[^']*'|[^<>\"'])*?)(/?)>", text):
        if m.group(1):
            if stack and stack[-1] == m.group(2):
                stack.pop()
        elif not m.group(4):
            stack.append(m.group(2))
    tail = re.search(r"<([A-Za-z_][\w:.-]*)[^<>]*$", text)      # an unfinished start tag
    if tail:
        stack.append(tail.group(1))
    return "/".join(stack[-depth:]) or "?"


def _behaviour(db) -> Tuple[list, int]:
    """fixed encode/decode script -> (records, number of successfully encoded requests)"""
    recs = []
    n_ok = 0
    cands = [0x12, 3, 1, 0, 50, 255, "7", b"\x07"]

    def val(x: Any) -> Any:
        return core.plain(x)

    for ecu in sorted(db.ecus, key=lambda e: e.short_name):
        try:
            services = [s for s in ecu.services if hasattr(s, "request")]
        except Exception as e:
            recs.append([ecu.short_name, "services", "EXC:" + type(e).__name__])
            continue
        for svc in services:
            key = [ecu.short_name, svc.short_name]
            req = None
            try:
                names = [p.short_name for p in svc.request.required_parameters]
            except Exception as e:
                recs.append(key + ["required", "EXC:" + type(e).__name__])
                continue
            last = None
            for combo in itertools.islice(itertools.product(cands, repeat=len(names)), 80):
                try:
                    req = bytes(svc.encode_request(**dict(zip(names, combo))))
                    last = ["ok", list(map(val, combo)), req.hex()]
                    break
                except Exception as e:
                    last = ["EXC:" + type(e).__name__]
            recs.append(key + ["encode_request", last])
            if req is None:
                continue
            n_ok += 1
            try:
                msgs = ecu.decode(req)
                recs.append(key + ["decode", [[m.coding_object.short_name, val(dict(m.param_dict))] for m in msgs]])
            except Exception as e:
                recs.append(key + ["decode", "EXC:" + type(e).__name__])
            try:
                prs = list(svc.positive_responses)
            except Exception:
                prs = []
            for pr in prs[:1]:
                resp = None
                try:
                    rn = [p.short_name for p in pr.required_parameters]
                except Exception as e:
                    recs.append(key + ["resp-required", "EXC:" + type(e).__name__])
                    continue
                last = None
                for combo in itertools.islice(itertools.product(cands, repeat=len(rn)), 80):
                    try:
                        resp = bytes(pr.encode(coded_request=req, **dict(zip(rn, combo))))
                        last = ["ok", list(map(val, combo)), resp.hex()]
                        break
                    except Exception as e:
                        last = ["EXC:" + type(e).__name__]
                recs.append(key + ["encode_response", last])
                if resp is not None:
                    try:
                        msgs = ecu.decode_response(resp, req)
                        recs.append(key + ["decode_response",
                                           [[m.coding_object.short_name, val(dict(m.param_dict))] for m in msgs]])
                    except Exception as e:
                        recs.append(key + ["decode_response", "EXC:" + type(e).__name__])
    return recs, n_ok


def _ws_signature(a: Any, b: Any) -> Optional[str]:
    """how two strings differ if they differ in white space only: `reindented` = blanks inserted
    after line breaks (jinja indent() applied to a multi-line text), `attr-normalized` = additionally
    TAB / LF turned into blanks (XML attribute value normalization), else None"""
    if not (isinstance(a, str) and isinstance(b, str)) or a == b or not re.search(r"[\t\n]", a):
        return None
    if re.sub(r"\n[ ]+", "\n", b) == a:
        return "reindented"
    if re.sub(r" +", " ", b) == re.sub(r"[ \t\n]+", " ", a):
        return "attr-normalized"
    return None


def _struct_failures(db1, db2, case: dict, keyed: bool = False, clause: str = "structural",
                     limit: int = 12) -> List[core.Failure]:
    from vlib.models import dcdiff
    fails = []
    for attr in ("diag_layer_containers", "comparam_subsets", "comparam_specs"):
        a, b = list(getattr(db1, attr)), list(getattr(db2, attr))
        if keyed:
            a = sorted(a, key=lambda x: x.short_name)
            b = sorted(b, key=lambda x: x.short_name)
        if len(a) != len(b) or [x.short_name for x in a] != [x.short_name for x in b]:
            mode = "dropped" if len(b) < len(a) else "altered"
            fails.append(core.Failure(clause, f"Database.{attr}: {[x.short_name for x in a]} -> "
                                      f"{[x.short_name for x in b]}", case,
                                      {"bucket": f"Database.{attr}|{mode}", "key": f"Database.{attr}", "mode": mode}))
            continue
        for x, y in zip(a, b):
            diffs = dcdiff.all_diffs(x, y, limit=limit)
            if (x == y) != (not diffs):
                raise AssertionError(f"differ and dataclass equality disagree on {attr}/{x.short_name}: "
                                     f"=={x == y}, differ={[d.describe() for d in diffs[:3]]}")
            seen = set()
            for d in diffs:
                if (d.key, d.mode) in seen:
                    continue
                seen.add((d.key, d.mode))
                fails.append(core.Failure(clause, d.describe(), case,
                                          {"bucket": f"{d.key}|{d.mode}", "key": d.key, "mode": d.mode,
                                           "path": "/".join(f"{c}.{f}" for c, f, _ in d.path),
                                           "a": dcdiff.short(d.a), "b": dcdiff.short(d.b),
                                           "ws": _ws_signature(d.a, d.b)}))
    return fails


def evaluate(db1, case: dict, classes: set, perturbed: Optional[List[str]] = None) -> List[core.Failure]:
    """the round-trip oracle for one database"""
    import odxtools
    from xml.etree import ElementTree
    from odxtools.writepdxfile import write_pdx_file
    from vlib.models import pdxperturb as pp

    pkey = "+".join(sorted(set(perturbed))) if perturbed else "unperturbed"
    fails: List[core.Failure] = []
    tmp = tempfile.mkdtemp(prefix="c11_")
    cm = _quiet()
    db2 = None
    try:
        pp.set_strict(True)
        p1 = os.path.join(tmp, "w1.pdx")
        # 1. write
        try:
            write_pdx_file(p1, db1)
        except Exception as e:
            return [core.Failure("write", f"write_pdx_file raised {type(e).__name__}: {str(e)[:200]}", case,
                                 {"bucket": f"{pkey}|write-raises:{type(e).__name__}", "key": pkey,
                                  "mode": "write-raises", "exc": type(e).__name__})]
        # 2. well-formedness of every ODX member
        m1 = _odx_members(p1)
        for name, data in m1.items():
            try:
                ElementTree.fromstring(data)
            except ElementTree.ParseError as e:
                line, col = e.position
                where = _xml_context(data, line, col)
                return [core.Failure("well-formed", f"member {os.path.splitext(name)[1]} is not well-formed XML: {e} "
                                     f"({where})", case,
                                     # root cause = the template position that emitted the broken text
                                     {"bucket": f"{where}|not-well-formed", "key": pkey, "mode": "not-well-formed",
                                      "where": where, "where2": _xml_open_path(data, line, col)})]
        # 3. load
        try:
            db2 = odxtools.load_pdx_file(p1)
        except Exception as e:
            return [core.Failure("reload", f"load_pdx_file of the written archive raised {type(e).__name__}: "
                                 f"{str(e)[:200]}", case,
                                 {"bucket": f"{pkey}|reload-raises:{type(e).__name__}", "key": pkey,
                                  "mode": "reload-raises", "exc": type(e).__name__})]
        # 4. structure
        sf = _struct_failures(db1, db2, case)
        for f in sf:
            f.features["perturbed"] = pkey
        fails += sf
        if db2.short_name != db1.short_name:
            fails.append(core.Failure("structural", f"Database.short_name {db1.short_name!r} -> {db2.short_name!r}",
                                      case, {"bucket": "Database.short_name|altered", "key": "Database.short_name",
                                             "mode": "altered"}))
        # 5. idempotence of write o load o write on the ODX members
        p2 = os.path.join(tmp, "w2.pdx")
        try:
            write_pdx_file(p2, db2)
            m2 = _odx_members(p2)
            if m1 != m2:
                names = sorted(set(m1) | set(m2))
                bad = [n for n in names if m1.get(n) != m2.get(n)]
                n0 = bad[0]
                l1 = (m1.get(n0) or b"").decode("utf-8", "replace").split("\n")
                l2 = (m2.get(n0) or b"").decode("utf-8", "replace").split("\n")
                ln = next((i for i, (x, y) in enumerate(zip(l1, l2)) if x != y), min(len(l1), len(l2)))
                x = l1[ln].strip() if ln < len(l1) else "<eof>"
                y = l2[ln].strip() if ln < len(l2) else "<eof>"
                tag = (re.findall(r"<([A-Za-z_][\w:.-]*)", x + " " + y)
                       or re.findall(r"([A-Za-z_][\w:.-]*)=", x + " " + y) or ["?"])[0]
                sk = "+".join(sorted({f.features["bucket"] for f in sf})) or "structure-equal"
                fails.append(core.Failure("idempotence", f"second write differs in {os.path.splitext(n0)[1]} line "
                                          f"{ln + 1}: {x[:80]!r} -> {y[:80]!r}", case,
                                          {"bucket": f"{tag}|{sk}", "key": tag, "mode": "not-idempotent",
                                           "with": sk,
                                           "with_ws": sorted({str(f.features.get("ws")) for f in sf})}))
        except Exception as e:
            fails.append(core.Failure("idempotence", f"second write raised {type(e).__name__}: {str(e)[:200]}", case,
                                      {"bucket": f"{pkey}|rewrite-raises:{type(e).__name__}", "key": pkey,
                                       "mode": "rewrite-raises"}))
        # 6. behaviour (only meaningful when the structure is the same)
        if not sf:
            classes.add("roundtrip-ok")
            b1, n1 = _behaviour(db1)
            b2, _ = _behaviour(db2)
            if n1 > 0:
                classes.add("behaviour-encoded")
            if b1 != b2:
                i = next((i for i, (x, y) in enumerate(zip(b1, b2)) if x != y), min(len(b1), len(b2)))
                x = b1[i] if i < len(b1) else None
                y = b2[i] if i < len(b2) else None
                what = (x or y)[2] if (x or y) else "?"
                fails.append(core.Failure("behaviour", f"{core.canon(x)[:200]} -> {core.canon(y)[:200]}", case,
                                          {"bucket": f"{pkey}|{what}", "key": pkey, "mode": "behaviour"}))
        return fails
    finally:
        if db2 is not None:
            _close_db(db2)
        _close_db(db1)
        cm.__exit__(None, None, None)
        shutil.rmtree(tmp, ignore_errors=True)


# ---------------------------------------------------------------------------
# cases
# ---------------------------------------------------------------------------
def _run_perturb_case(db_name: str, prep, res: Optional[core.ShardResult], extra_classes=()) -> List[core.Failure]:
    case = core.plain({"kind": "perturb", "db": db_name, "perts": prep.applied})
    classes = set(extra_classes)
    for sp in prep.applied:
        classes.add(f"kind:{sp['kind']}")
        v = sp.get("value")
        if isinstance(v, str) and "\t" in v and "\n" in v:
            classes.add("text-with-tab-lf")
    if res is not None:
        res.rejected += len(prep.discarded)
        res.accepted += len(prep.applied)
        for d in prep.discarded:
            res.classes["discarded-by-validity-guard"] += 1
    if not prep.applied:
        return []
    perturbed = [f"{sp['cls']}.{sp['field']}" for sp in prep.applied]
    fails = evaluate(prep.db, case, classes, perturbed)
    if res is not None:
        res.note(case, True, classes)
    return fails


def _eval_example(name: str, res: Optional[core.ShardResult]) -> List[core.Failure]:
    from vlib.models import pdxperturb as pp
    db = pp.load_example(name)
    case = {"kind": "example", "db": name}
    classes = {"example"}
    fails = evaluate(db, case, classes)
    if res is not None:
        res.note(case, True, classes)
    return fails


def _eval_extra(entry: dict, res: Optional[core.ShardResult]) -> List[core.Failure]:
    import odxtools
    from vlib.models import pdxperturb as pp
    tmp = tempfile.mkdtemp(prefix="c11x_")
    cm = _quiet()
    try:
        paths = []
        for n, data in entry["files"].items():
            p = os.path.join(tmp, n)
            with open(p, "wb") as f:
                f.write(data)
            paths.append(p)
        pp.set_strict(True)
        db = odxtools.load_files(*paths)       # a generated document odxtools rejects is a harness error
    finally:
        cm.__exit__(None, None, None)
        shutil.rmtree(tmp, ignore_errors=True)
    case = {"kind": "extra", "name": entry["name"]}
    classes = {"extra"}
    fails = evaluate(db, case, classes)
    if res is not None:
        res.note(case, True, classes)
    return fails


ENTRIES = ["load_pdx_file-permuted", "load_files", "load_directory", "load_file"]


def _eval_order(case: dict, res: Optional[core.ShardResult]) -> List[core.Failure]:
    """case = {kind: order, db, source: shipped|written, entry, perm: [member indices]}"""
    import odxtools
    from odxtools.writepdxfile import write_pdx_file
    from vlib.models import pdxperturb as pp
    tmp = tempfile.mkdtemp(prefix="c11o_")
    cm = _quiet()
    fails: List[core.Failure] = []
    classes = {f"entry:{case['entry']}", f"source:{case['source']}"}
    try:
        pp.set_strict(True)
        src = pp.example_path(case["db"])
        db0 = None
        if case.get("perts"):
            # a perturbed database (two documents sharing their short name): the reference is the
            # database in memory, every entry point must give it back from the written archive
            prep = pp.apply_concrete(case["db"], case["perts"])
            if prep.discarded:
                return []
            db0 = prep.db
            classes.add("samename-entry")
        elif case["source"] == "written":
            db0 = odxtools.load_pdx_file(src)
        if db0 is not None:
            src = os.path.join(tmp, "written.pdx")
            write_pdx_file(src, db0)
        if case.get("perts"):
            ref = db0
        else:
            ref = odxtools.load_pdx_file(src)
            if db0 is not None:
                _close_db(db0)
        with zipfile.ZipFile(src) as z:
            names = z.namelist()
            blobs = {n: z.read(n) for n in names}
        odx = [n for n in names if os.path.splitext(n)[1].lower().startswith(".odx")]
        perm = [odx[i % len(odx)] for i in case["perm"]]
        perm = list(dict.fromkeys(perm)) + [n for n in odx if n not in perm]
        others = [n for n in names if n not in odx]
        order = others + perm if case.get("odx_last", True) else perm + others
        nontrivial = perm != odx or case["entry"] != "load_pdx_file-permuted"
        entry = case["entry"]
        try:
            if entry in ("load_pdx_file-permuted", "load_file"):
                p = os.path.join(tmp, "perm.pdx")
                with zipfile.ZipFile(p, "w", zipfile.ZIP_DEFLATED) as z:
                    for n in order:
                        z.writestr(n, blobs[n])
                got = odxtools.load_pdx_file(p) if entry == "load_pdx_file-permuted" else odxtools.load_file(p)
            else:
                d = os.path.join(tmp, "x")
                os.mkdir(d)
                for n in order:
                    with open(os.path.join(d, os.path.basename(n)), "wb") as f:
                        f.write(blobs[n])
                if entry == "load_directory":
                    got = odxtools.load_directory(d)
                else:
                    got = odxtools.load_files(*[os.path.join(d, os.path.basename(n)) for n in order])
        except Exception as e:
            fails.append(core.Failure("entry-point", f"{entry} raised {type(e).__name__}: {str(e)[:200]}", case,
                                      {"bucket": f"{entry}|raises:{type(e).__name__}", "mode": "raises",
                                       "entry": entry}))
            got = None
        if got is not None:
            for f in _struct_failures(ref, got, case, keyed=True, clause="entry-point"):
                f.features["entry"] = entry
                f.features["bucket"] = f"{entry}|" + f.features["bucket"]
                fails.append(f)
            if got.short_name != ref.short_name:
                fails.append(core.Failure("entry-point", f"Database.short_name is {ref.short_name!r} via "
                                          f"load_pdx_file but {got.short_name!r} via {entry}", case,
                                          {"bucket": f"{entry}|Database.short_name", "mode": "altered",
                                           "entry": entry, "key": "Database.short_name"}))
            if got.model_version != ref.model_version:
                fails.append(core.Failure("entry-point", f"Database.model_version {ref.model_version} vs "
                                          f"{got.model_version} via {entry}", case,
                                          {"bucket": f"{entry}|Database.model_version", "mode": "altered",
                                           "entry": entry, "key": "Database.model_version"}))
            _close_db(got)
        _close_db(ref)
        if res is not None:
            res.note(case, nontrivial, classes)
        return fails
    finally:
        cm.__exit__(None, None, None)
        shutil.rmtree(tmp, ignore_errors=True)


def _samename_specs(db_name: str) -> List[dict]:
    """concrete rename operations: a COMPARAM-SPEC / DIAG-LAYER-CONTAINER takes the short name of a
    document of another category"""
    from vlib.models import pdxperturb as pp
    idx = pp.Index(pp.load_example(db_name))
    out = []
    for pt in pp.samename_points(db_name, idx):
        node = idx.get(pt["cls"], pt["inst"])
        for op in pp.samename_ops(idx, node)[pt["variant"]]:
            out.append({"cls": pt["cls"], "field": "short_name", "inst": pt["inst"], "kind": "samename", **op})
    _close_db(idx.db)
    return out


def replay(case) -> list:
    from vlib.models import pdxperturb as pp
    warnings.filterwarnings("ignore", category=ResourceWarning)   # zip handles odxtools leaves open
    case = core.unjson(case)
    kind = case["kind"]
    if kind == "example":
        return _eval_example(case["db"], None)
    if kind == "perturb":
        prep = pp.apply_concrete(case["db"], case["perts"])
        if prep.discarded:
            # the recorded perturbation is no longer accepted by odxtools itself: nothing to judge
            return []
        return _run_perturb_case(case["db"], prep, None)
    if kind == "order":
        return _eval_order(case, None)
    if kind == "generated":
        return _eval_generated(case, None)
    raise AssertionError(f"unknown case kind {kind}")


# ---------------------------------------------------------------------------
# shards
# ---------------------------------------------------------------------------
def shards(tier):
    out = []
    for i in range(4 if tier == "quick" else 12):      # the longest shards first
        out.append(("generated", i))
    for i in range(N_MATRIX_SHARDS):
        out.append(("matrix", i))
    n_comp = 8 if tier == "quick" else 16
    for i in range(n_comp):
        out.append(("composed", i))
    n_ord = 4 if tier == "quick" else 8
    for i in range(n_ord):
        out.append(("order", i))
    out.append(("examples", 0))
    return out


def _filter_known(fails: List[core.Failure], kf, res: core.ShardResult) -> List[core.Failure]:
    from vlib import known
    out = []
    for f in fails:
        k = known.match(kf, f)
        if k is not None:
            res.known_hits[k["id"]] += 1
        else:
            out.append(f)
    return out


def _all_points(per_field_instances: int = 3) -> List[dict]:
    from vlib.models import pdxperturb as pp
    pts: List[dict] = []
    seen = set()
    for name in ("somersault", "somersault_modified"):
        idx = pp.Index(pp.load_example(name))
        p, _ = pp.matrix(name, idx, per_field_instances)
        for pt in p:
            k = (pt["cls"], pt["field"], pt["variant"], pt["inst"])
            if name != "somersault" and (pt["cls"], pt["field"]) in seen:
                continue
            pts.append(pt)
        seen |= {(pt["cls"], pt["field"]) for pt in p}
    return pts


def run_shard(spec, seed, tier):
    from vlib import known
    from vlib.models import pdxperturb as pp
    res = core.ShardResult()
    kf = known.load(PROPERTY)
    what, i = spec
    warnings.filterwarnings("ignore", category=ResourceWarning)   # zip handles odxtools leaves open

    if what == "examples":
        n = 0
        for name in pp.EXAMPLES:
            res.failures += _filter_known(_eval_example(name, res), kf, res)
            n += 1
        for entry in extra_databases(tier, seed):
            res.failures += _filter_known(_eval_extra(entry, res), kf, res)
            n += 1
        # two documents of different category with the same short name, through every entry point,
        # members in archive order and reversed (quick: one seed-chosen rename, thorough: all)
        specs = _samename_specs("somersault")
        if tier == "quick":
            specs = [specs[random.Random(seed).randrange(len(specs))]]
        for sp in specs:
            for entry in ENTRIES:
                for perm in ([0, 1, 2, 3, 4, 5, 6], [6, 5, 4, 3, 2, 1, 0]):
                    c = {"kind": "order", "db": "somersault", "source": "written", "entry": entry, "perm": perm,
                         "odx_last": True, "perts": [sp]}
                    res.failures += _filter_known(_eval_order(core.plain(c), res), kf, res)
                    n += 1
        res.stages["examples"] = n
        return res

    if what == "generated":
        from hypothesis import strategies as st
        from vlib import emit, gen

        @st.composite
        def docs(draw):
            c = draw(gen.message_case())
            xml = emit.message_doc([c["msg"]]).decode("utf-8")
            feats = list(c["features"])
            xml, deco = decorate(draw, xml)
            from vlib.models import odxsnippets
            xml, deco2 = odxsnippets.decorate_more(draw, xml)
            return {"kind": "generated", "xml": xml, "features": feats + deco + deco2}

        def body(case):
            return _filter_known(_eval_generated(case, res), kf, res)
        n = 32 if tier == "quick" else 250
        found = core.hyp_search(docs(), body, seed, n, shrink_budget_s=40)
        if found:
            res.failures.extend(found)
        res.stages["generated"] = n
        return res

    if what == "matrix":
        pts = _all_points()
        if tier == "quick":
            # a VERIF_SEED-selected 1/8 slice, the same in every shard, stratified by perturbation kind
            gseed = os.environ.get("VERIF_SEED", "1")
            sel: List[dict] = []
            for kind in sorted({p["kind"] for p in pts}):
                kp = [p for p in pts if p["kind"] == kind]
                k = (len(kp) + QUICK_SLICE - 1) // QUICK_SLICE
                rnd = random.Random(f"{gseed}|C11|{kind}")
                sel += [kp[j] for j in sorted(rnd.sample(range(len(kp)), k))]
            pts = sel
        else:
            res.exhaustive_subspaces.append(
                f"single-attribute perturbation matrix of the shipped examples: {len(pts)} points "
                "(class x field x variant x up to 3 instances with distinct None-profiles)")
        mine = [p for j, p in enumerate(pts) if j % N_MATRIX_SHARDS == i]
        for pt in mine:
            prep = pp.apply_points(pt["db"], [pt])
            res.failures += _filter_known(_run_perturb_case(pt["db"], prep, res), kf, res)
        res.stages["enumeration"] = len(mine)
        return res

    if what == "composed":
        from hypothesis import strategies as st
        pts_by_db: Dict[str, List[dict]] = {}
        for name in pp.EXAMPLES:
            idx = pp.Index(pp.load_example(name))
            pts_by_db[name], _ = pp.matrix(name, idx, 2)
        n = 4 if tier == "quick" else 30

        @st.composite
        def strat(draw):
            name = draw(st.sampled_from(sorted(pts_by_db)))
            pts = pts_by_db[name]
            k = draw(st.integers(2, 4))
            ids = draw(st.lists(st.integers(0, len(pts) - 1), min_size=k, max_size=k, unique=True))
            return name, sorted(ids)

        def body(c):
            name, ids = c
            pts = pts_by_db[name]
            chosen, seen = [], set()
            for j in ids:       # at most one perturbation per object x field
                key = (pts[j]["cls"], pts[j]["field"], pts[j]["inst"])
                if key not in seen:
                    seen.add(key)
                    chosen.append(pts[j])
            prep = pp.apply_points(name, chosen)
            fails = _run_perturb_case(name, prep, res, extra_classes=("composed",) if len(prep.applied) >= 2 else ())
            if not fails or len(prep.applied) < 2:
                return _filter_known(fails, kf, res)
            # attribute the failures to the single perturbations: what a member reproduces alone is
            # that member's finding (usually a recorded one); only what no member reproduces alone is
            # a finding of the combination
            singles: List[core.Failure] = []
            for sp in prep.applied:
                p1 = pp.apply_concrete(name, [sp])
                if p1.applied:
                    singles += _run_perturb_case(name, p1, None)
            sb = {(f.clause, f.features["bucket"]) for f in singles}
            sm = {(f.clause, f.features.get("mode")) for f in singles}
            out = _filter_known(singles, kf, res)
            for f in fails:
                whole_db = f.features.get("mode") in ("write-raises", "not-well-formed", "reload-raises",
                                                     "rewrite-raises", "not-idempotent", "behaviour")
                explained = ((f.clause, f.features.get("mode")) in sm) if whole_db \
                    else ((f.clause, f.features["bucket"]) in sb)
                if not explained:
                    f.features["bucket"] = "composed:" + f.features["bucket"]
                    out += _filter_known([f], kf, res)
            return out

        f = core.hyp_search(strat(), body, seed, n, shrink_budget_s=30.0)
        if f:
            res.failures += f
        res.stages["hypothesis"] = n
        return res

    if what == "order":
        from hypothesis import strategies as st
        n = 8 if tier == "quick" else 60
        sn = _samename_specs("somersault")
        strat = st.fixed_dictionaries({
            "kind": st.just("order"),
            "db": st.sampled_from(sorted(pp.EXAMPLES)),
            "source": st.sampled_from(["shipped", "written"]),
            "entry": st.sampled_from(ENTRIES),
            "perm": st.permutations(list(range(7))),
            "odx_last": st.booleans(),
            "perts": st.one_of(st.none(), st.none(), st.sampled_from(sn).map(lambda x: [x])),
        })

        def body(c):
            return _filter_known(_eval_order(core.plain(c), res), kf, res)

        f = core.hyp_search(strat, body, seed, n, shrink_budget_s=30.0)
        if f:
            res.failures += f
        res.stages["hypothesis"] = n
        return res

    raise AssertionError(f"unknown shard {spec}")
