"""C15 — communication parameters resolve to the most specific definition.

Domain: C09-style layer hierarchies (without value-inherited objects) + a generated COMPARAM-SUBSET
(simple parameters with defaults, the complex parameter CP_UniqueRespIdTable with 2..3 sub-parameters
with defaults; the names the typed accessors look for) + COMPARAM-SPEC (optionally with PROT-STACK);
COMPARAM-REFs with/without PROTOCOL-SNREF, VALUE / SIMPLE-VALUE / COMPLEX-VALUE with explicit or
empty (= omitted) values on any subset of layers.  Oracle: vlib/models/comparam.py.
"""
from __future__ import annotations

import warnings

from vlib import core
from vlib.checks import c09
from vlib.models import comparam as cpm
from vlib.models import hier_xml as hx
from vlib.models import inherit

PROPERTY = "C15"
RULE = ("hierarchy IR with COMPARAM-REFs -> XML -> Database.refresh(); per layer: comparam_refs against the "
        "reference effective set keyed (parameter, protocol); get_comparam(name, protocol) for protocol in "
        "{None, each protocol name, Protocol object}; get_value/get_subvalue of every effective instance; all "
        "typed accessors; non-trivial = some looked-up parameter is defined on >=2 layers of the layer's "
        "ancestry or effective with >=2 qualifiers, or its content relies on a specification default; "
        "history stage: 1..3 generated edits (add / remove / change value of a COMPARAM-REF instance on any layer) are "
        "applied to the loaded object tree, Database.refresh() is called and everything is read again and compared "
        "with the model of the edited hierarchy (an edit that changes a resolved value of a layer makes the case "
        "non-trivial as well); distinct = digest of hierarchy IR + edits")
ASSUMPTIONS = [
    "effective set keyed by (parameter, protocol qualifier), parents applied in increasing inheritance priority, local COMPARAM-REFs last (docstring of _compute_available_commmunication_parameters)",
    "two parents of equal priority that offer different instances for one key: either instance is accepted",
    "an empty VALUE / SIMPLE-VALUE element (also inside COMPLEX-VALUE) means 'omitted': the content is the PHYSICAL-DEFAULT-VALUE of the (sub-)parameter",
    "get_comparam(name, protocol=None) may return any effective instance of that name",
    "COMPLEX-VALUEs always list one entry per sub-parameter; one COMPARAM-REF per (parameter, qualifier) and layer",
    "get_can_fd_baudrate is asserted only when there is no CAN receive id (None expected) or when the content of CP_CANFDTxMaxDataLength contains 'CANFD'; contents of CP_CANFDTxMaxDataLength have the form 'TX_DL=<n>...'",
    "ECU-SHARED-DATA layers have no communication parameters and are not queried",
    "PROT-STACK-SNREF of a COMPARAM-REF does not take part in the override key (statement: overridden per parameter and protocol)",
    "COMPLEX-VALUE entries map positionally to the sub-parameters in document order, a nested COMPLEX-COMPARAM occupies one slot; only simple sub-parameters are looked up with get_subvalue (nested ones: sub-parameter order and raw value are compared)",
    "Database.refresh() is the way to make edits of hierarchy_element_raw.comparam_refs effective (as examples/mksomersaultmodifiedpdx.py does for other raw-layer edits); in-memory instances use the parser's representation (empty value = '')",
]
MUST_HIT = ["nested-complex-before-simple", "nested-inner-omitted", "override-prot-stack-differs",
            "override-prot-stack-one-sided", "refresh-after-edit:value-changed", "refresh-after-edit:descendant-changed",
            "refresh-after-edit:other-instance-wins", "edit:add", "edit:remove", "edit:set", "override-by-child", "qualified-and-generic", "generic-listed-before-specific", "default-simple", "default-sub",
            "parents-different-priority", "ambiguous-equal-priority", "absent-param", "sub-param-absent",
            "protocol-object-arg", "form:VALUE", "form:SIMPLE", "form:COMPLEX", "inherited-only",
            "acc:get_max_can_payload_size", "acc:get_can_fd_baudrate"] + [f"acc:{a}" for a in cpm.ACCESSORS]

DL_VALUES = ["TX_DL=8", "TX_DL = 64 CANFD", "TX_DL=12, CANFD enabled", "TX_DL = 48 [CANFD]", "TX_DL=8 classic"]


def _fail(clause, detail, hier, bucket, **feat):
    f = {"bucket": bucket}
    f.update(feat)
    return core.Failure(clause=clause, detail=detail, case={"hier": core.plain(hier)}, features=f)


EMUL_OF_ID = {"C15-generic-before-specific": "generic-first", "C15-accessor-ignores-default": "raw-value",
              "C15-empty-subvalue-no-default": "empty-subvalue"}


_ACTIVE = None


def _active_emulations():
    """emulations of the recorded defects that are still listed as known (labels failures, accepts nothing)"""
    global _ACTIVE
    if _ACTIVE is None:
        from vlib import known
        _ACTIVE = [EMUL_OF_ID[e["id"]] for e in known.load(PROPERTY) if e.get("id") in EMUL_OF_ID]
    return _ACTIVE


def _uid(cp):
    d = cp.description
    return None if d is None else d.text_identifier


def read_all(hier: dict, db, cls: set) -> tuple[list, bool]:
    """everything the check reads from a loaded (and possibly edited + refreshed) database, compared with the
    reference model of `hier` -> (failures, nontrivial)"""
    m = cpm.CPModel(hier)
    im = inherit.Model(hier)
    nontrivial = False
    fails: list = []
    active = _active_emulations()
    protos = [l["name"] for l in hier["layers"] if l["type"] == "PROTOCOL"]
    sub = hier["subset"]
    csubs = sub["complex"][cpm.COMPLEX_NAME]
    subnames = cpm.sub_names(csubs)
    if not all(n in subnames for n in cpm.SUB_NAMES):
        cls.add("sub-param-absent")
    nested_at = [i for i, e in enumerate(csubs) if isinstance(e, dict)]
    for l in hier["layers"]:
        for cp in l.get("comparams", []):
            cls.add(f"form:{cp['form']}")
    import odxtools.exceptions as oe
    saved = oe.strict_mode
    oe.strict_mode = True
    try:
        with warnings.catch_warnings():
            warnings.simplefilter("ignore")
            for l in hier["layers"]:
                if l["type"] == "ECU-SHARED-DATA":
                    continue
                ln = l["name"]
                dl = db.diag_layers[ln]
                eff = m.effective(ln)
                anc = im.ancestors(ln) | {ln}
                # ---- (1) effective set --------------------------------------------------------
                try:
                    obs = [(cp.short_name, cp.protocol_snref, _uid(cp)) for cp in dl.comparam_refs]
                except Exception as e:
                    fails.append(_fail("comparam-refs", f"layer {ln}: {type(e).__name__}: {e}", hier, "comparam-refs:exc"))
                    continue
                okeys = [(a, b) for a, b, _ in obs]
                if sorted(okeys, key=repr) != sorted(eff, key=repr):
                    fails.append(_fail("effective-set", f"layer {ln}: comparam_refs has keys {sorted(okeys, key=repr)}, "
                                       f"expected {sorted(eff, key=repr)}", hier, "effective-set:keys", layer_type=l["type"]))
                    continue
                for a, b, u in obs:
                    acc = [i["uid"] for i in eff[(a, b)]]
                    if len(acc) > 1:
                        cls.add("ambiguous-equal-priority")
                    if u not in acc:
                        fails.append(_fail("effective-set", f"layer {ln}: ({a},{b}) resolves to {u}, expected one of {acc}",
                                           hier, "effective-set:instance", layer_type=l["type"],
                                           local=any(cp["param"] == a and cp.get("protocol") == b for cp in l.get("comparams", []))))
                if eff and not l.get("comparams"):
                    cls.add("inherited-only")
                # a local COMPARAM-REF overrides an inherited one whose PROT-STACK-SNREF differs
                for cp in l.get("comparams", []):
                    key = (cp["param"], cp.get("protocol"))
                    for p in l.get("parents", []):
                        for i in (m.effective(p["layer"]).get(key, []) if im.layers[p["layer"]]["type"] != "ECU-SHARED-DATA" else []):
                            if i.get("prot_stack") != cp.get("prot_stack"):
                                cls.add("override-prot-stack-differs")
                                if (i.get("prot_stack") is None) != (cp.get("prot_stack") is None):
                                    cls.add("override-prot-stack-one-sided")
                prios = {inherit.PRIORITY[im.layers[p["layer"]]["type"]] for p in l.get("parents", [])
                         if im.layers[p["layer"]]["type"] != "ECU-SHARED-DATA" and m.effective(p["layer"])}
                if len(prios) > 1:
                    cls.add("parents-different-priority")
                # ---- (2) content of every effective instance -------------------------------------
                for cp in dl.comparam_refs:
                    key = (cp.short_name, cp.protocol_snref)
                    inst = next((i for i in eff[key] if i["uid"] == _uid(cp)), None)
                    if inst is None:
                        continue
                    if inst.get("prot_stack") != cp.prot_stack_snref:
                        fails.append(_fail("instance-content", f"layer {ln}: {inst['uid']}.prot_stack_snref = "
                                           f"{cp.prot_stack_snref!r}, expected {inst.get('prot_stack')!r}", hier, "prot-stack"))
                    if inst["param"] == cpm.COMPLEX_NAME:
                        # positional mapping in document order: sub-parameter list of the spec and the raw value
                        got_names = [sp.short_name for sp in cp.spec.subparams]
                        if got_names != subnames:
                            fails.append(_fail("subparam-order", f"layer {ln}: sub-parameters of {cpm.COMPLEX_NAME} are "
                                               f"{got_names}, document order is {subnames}", hier, "subparam-order",
                                               nested_at=nested_at))
                        if cp.value != _mem_value(inst):
                            fails.append(_fail("raw-value", f"layer {ln}: {inst['uid']}.value = {cp.value!r}, expected "
                                               f"{_mem_value(inst)!r}", hier, "raw-value", nested_at=nested_at))
                        if nested_at:
                            if nested_at[0] < len(csubs) - 1:
                                cls.add("nested-complex-before-simple")
                            if any(v is None for i in nested_at for v in inst["value"][i]):
                                cls.add("nested-inner-omitted")
                        for sn in cpm.SUB_NAMES:
                            e = m.subvalue(inst, sn)
                            dflt = m.relies_on_default(inst, sn)
                            if dflt:
                                cls.add("default-sub")
                                nontrivial = True
                            try:
                                g = cp.get_subvalue(sn)
                            except Exception as ex:
                                fails.append(_fail("subvalue", f"layer {ln}: {inst['uid']}.get_subvalue({sn}) raised "
                                                   f"{type(ex).__name__}: {ex}; expected {e!r}", hier,
                                                   f"subvalue:exc:{'default' if dflt else 'explicit'}", default=dflt))
                                continue
                            if g != e:
                                fails.append(_fail("subvalue", f"layer {ln}: {inst['uid']}.get_subvalue({sn}) = {g!r}, expected "
                                                   f"{e!r} (value list {inst['value']})", hier,
                                                   f"subvalue:{'default' if dflt else 'explicit'}", default=dflt, got=g,
                                                   explained_by=(["empty-subvalue"] if "empty-subvalue" in active and g == m.subvalue(inst, sn, ("empty-subvalue",)) else None)))
                    else:
                        e = m.value(inst)
                        dflt = m.relies_on_default(inst)
                        if dflt:
                            cls.add("default-simple")
                            nontrivial = True
                        try:
                            g = cp.get_value()
                        except Exception as ex:
                            fails.append(_fail("value", f"layer {ln}: {inst['uid']}.get_value() raised {type(ex).__name__}: {ex}",
                                               hier, f"value:exc:{'default' if dflt else 'explicit'}", default=dflt))
                            continue
                        if g != e:
                            fails.append(_fail("value", f"layer {ln}: {inst['uid']}.get_value() = {g!r}, expected {e!r}", hier,
                                               f"value:{'default' if dflt else 'explicit'}", default=dflt))
                # ---- (3) lookup by name and protocol, typed accessors ------------------------------
                pargs = [(None, None)] + [(p, p) for p in protos]
                if protos:
                    pargs.append((db.protocols[protos[0]], protos[0]))
                params = sorted({cp["param"] for o in hier["layers"] for cp in o.get("comparams", [])})
                absent = [p for p in cpm.SIMPLE_NAMES + [cpm.COMPLEX_NAME] if p not in params][:1]
                for parg, pname in pargs:
                    if parg is not None and not isinstance(parg, str):
                        cls.add("protocol-object-arg")
                    for param in params + absent:
                        acc = m.lookup(ln, param, pname)
                        quals = [q for (p, q) in eff if p == param]
                        ndef = sum(1 for o in hier["layers"] if o["name"] in anc
                                   and any(cp["param"] == param for cp in o.get("comparams", [])))
                        if ndef >= 2:
                            nontrivial = True
                            if any(cp["param"] == param for cp in l.get("comparams", [])):
                                cls.add("override-by-child")
                        if len(quals) >= 2:
                            nontrivial = True
                        both = pname is not None and pname in quals and None in quals
                        if both:
                            cls.add("qualified-and-generic")
                            order = [b for a, b, _ in obs if a == param and b in (None, pname)]
                            if order and order[0] is None:
                                cls.add("generic-listed-before-specific")
                        if not acc:
                            cls.add("absent-param")
                        try:
                            g = dl.get_comparam(param, protocol=parg)
                        except Exception as ex:
                            fails.append(_fail("get-comparam", f"layer {ln}: get_comparam({param}, {pname}) raised "
                                               f"{type(ex).__name__}: {ex}", hier, "get-comparam:exc"))
                            continue
                        gu = None if g is None else _uid(g)
                        eu = [i["uid"] for i in acc]
                        if (g is None) != (not acc) or (g is not None and gu not in eu):
                            fails.append(_fail("get-comparam", f"layer {ln}: get_comparam({param}, protocol={pname}) = {gu} "
                                               f"(qualifier {None if g is None else g.protocol_snref}), expected "
                                               f"{'one of ' + str(eu) if eu else None}", hier,
                                               "get-comparam:" + ("generic-first" if both and g is not None
                                                                  and gu in [i["uid"] for i in m.lookup(ln, param, pname, ("generic-first",))]
                                                                  else "other"),
                                               explained_by=(["generic-first"] if "generic-first" in active and both and g is not None and
                                                             gu in [i["uid"] for i in m.lookup(ln, param, pname, ("generic-first",))]
                                                             else None),
                                               got_qualifier=None if g is None else g.protocol_snref))
                    # typed accessors
                    for a in list(cpm.ACCESSORS) + ["get_max_can_payload_size", "get_can_fd_baudrate"]:
                        accept = m.accessor(ln, a, pname)
                        if accept is None:
                            continue
                        if accept != [("ok", None)]:
                            cls.add(f"acc:{a}")
                        try:
                            o = ("ok", getattr(dl, a)(protocol=parg))
                        except Exception as ex:
                            o = ("exc", type(ex).__name__)
                            odetail = f"raised {type(ex).__name__}: {ex}"
                        else:
                            odetail = f"= {o[1]!r}"
                        if any(o[0] == x[0] and o[1] == x[1] and type(o[1]) is type(x[1]) for x in accept):
                            continue
                        why = m.explain(ln, a, pname, o, active)
                        fails.append(_fail("accessor", f"layer {ln}: {a}(protocol={pname}) {odetail}, expected {accept}"
                                           + (f" [outcome reproduced by emulating recorded defect(s) {why}]" if why else ""),
                                           hier, f"accessor:{a}:{'+'.join(why) if why else o[0]}", accessor=a,
                                           explained_by=why, outcome=list(o) if o[0] == "exc" else [o[0], repr(o[1])]))
    finally:
        oe.strict_mode = saved
    # one failure per bucket is enough for a case
    seen = set()
    uniq = []
    for f in fails:
        if f.bucket() not in seen:
            seen.add(f.bucket())
            uniq.append(f)
    return uniq, nontrivial


# ---------------------------------------------------------------------------
# edits of the loaded object tree (history stage)
# ---------------------------------------------------------------------------
def apply_edit_ir(hier: dict, edit: dict) -> dict:
    """the hierarchy IR after the edit (deep copy of the touched layer only)"""
    h = dict(hier)
    h["layers"] = []
    for l in hier["layers"]:
        if l["name"] != edit["layer"]:
            h["layers"].append(l)
            continue
        l2 = dict(l)
        cps = [dict(c) for c in l.get("comparams", [])]
        if edit["op"] == "add":
            if any(c["param"] == edit["cp"]["param"] and c.get("protocol") == edit["cp"].get("protocol") for c in cps):
                raise ValueError("edit adds a second COMPARAM-REF for one (parameter, qualifier) of a layer")
            cps.insert(min(edit.get("pos", len(cps)), len(cps)), dict(edit["cp"]))
        elif edit["op"] == "remove":
            assert any(c["uid"] == edit["uid"] for c in cps)
            cps = [c for c in cps if c["uid"] != edit["uid"]]
        elif edit["op"] == "set":
            for c in cps:
                if c["uid"] == edit["uid"]:
                    c["value"] = edit["value"]
        else:
            raise ValueError(edit["op"])
        l2["comparams"] = cps
        h["layers"].append(l2)
    return h


def _mem_value(cp: dict):
    """the in-memory representation the parser produces for the value of a COMPARAM-REF"""
    def cv(vals):
        return [cv(v) if isinstance(v, list) else ("" if v is None else v) for v in vals]
    if cp["form"] == "COMPLEX":
        return cv(cp["value"])
    return "" if cp["value"] is None else cp["value"]


def apply_edit_db(hier: dict, db, edit: dict) -> None:
    """the same edit on the loaded object tree (hierarchy_element_raw.comparam_refs of the layer)"""
    from odxtools.comparaminstance import ComparamInstance
    from odxtools.description import Description
    from odxtools.odxlink import DocType, OdxDocFragment, OdxLinkRef
    raw = db.diag_layers[edit["layer"]].hierarchy_element_raw
    lst = raw.comparam_refs
    if edit["op"] == "add":
        cp = edit["cp"]
        sub = hier["subset"]["name"]
        inst = ComparamInstance(
            value=_mem_value(cp),
            description=Description(text="<p>d</p>", external_docs=[], text_identifier=cp["uid"]),
            protocol_snref=cp.get("protocol"), prot_stack_snref=cp.get("prot_stack"),
            spec_ref=OdxLinkRef(f"{sub}.{cp['param']}", [OdxDocFragment(sub, DocType.COMPARAM_SUBSET)]))
        lst.insert(min(edit.get("pos", len(lst)), len(lst)), inst)
        return
    idx = [i for i, c in enumerate(lst) if _uid(c) == edit["uid"]]
    assert len(idx) == 1, "edit refers to an unknown COMPARAM-REF"
    if edit["op"] == "remove":
        del lst[idx[0]]
    else:
        ir = next(c for l in hier["layers"] if l["name"] == edit["layer"] for c in l["comparams"] if c["uid"] == edit["uid"])
        lst[idx[0]].value = _mem_value(dict(ir, value=edit["value"]))


def resolved_snapshot(hier: dict) -> dict:
    """{layer -> {(param, qualifier) -> [(uid, content...)]}} according to the model: what an edit may change"""
    m = cpm.CPModel(hier)
    out = {}
    for l in hier["layers"]:
        if l["type"] == "ECU-SHARED-DATA":
            continue
        d = {}
        for key, insts in m.effective(l["name"]).items():
            d[key] = [(i["uid"], tuple(m.subvalue(i, sn) for sn in cpm.SUB_NAMES) if i["param"] == cpm.COMPLEX_NAME
                       else m.value(i)) for i in insts]
        out[l["name"]] = d
    return out


def evaluate(hier: dict, edits=None) -> tuple[list, set, bool]:
    """stage A: load `hier`, read everything; stage B (if edits): apply the edits to the loaded objects,
    Database.refresh(), read everything again and compare with the model of the edited hierarchy"""
    inherit.check_envelope(hier)
    cls: set = set()
    db, exc = c09._load(hier)
    if exc is not None:
        return [_fail("load", f"loading raised {type(exc).__name__}: {exc}", hier, f"load:{type(exc).__name__}")], cls, False
    fails, nontrivial = read_all(hier, db, cls)
    if fails or not edits:
        return fails, cls, nontrivial
    cur = hier
    for e in edits:
        nxt = apply_edit_ir(cur, e)
        apply_edit_db(cur, db, e)
        cls.add(f"edit:{e['op']}")
        cur = nxt
    changed = resolved_snapshot(hier) != resolved_snapshot(cur)
    if changed:
        cls.add("refresh-after-edit:value-changed")
        before, after = resolved_snapshot(hier), resolved_snapshot(cur)
        edited = {e["layer"] for e in edits}
        if any(before[ln] != after[ln] for ln in before if ln not in edited):
            cls.add("refresh-after-edit:descendant-changed")
        for ln in before:
            for key in set(before[ln]) | set(after[ln]):
                b, a = before[ln].get(key), after[ln].get(key)
                if b and a and {x[0] for x in b} != {x[0] for x in a}:
                    cls.add("refresh-after-edit:other-instance-wins")
    import odxtools.exceptions as oe
    saved = oe.strict_mode
    oe.strict_mode = True
    try:
        with warnings.catch_warnings():
            warnings.simplefilter("ignore")
            try:
                db.refresh()
            except Exception as ex:
                f = _fail("refresh", f"Database.refresh() after the edits raised {type(ex).__name__}: {ex}", hier,
                          f"refresh:{type(ex).__name__}")
                f.case = {"hier": core.plain(hier), "edits": core.plain(edits)}
                return [f], cls, nontrivial
    finally:
        oe.strict_mode = saved
    cls2: set = set()
    fails2, _ = read_all(cur, db, cls2)
    cls |= {c for c in cls2 if c.startswith("acc:") or c.startswith("default") or c.startswith("form:")}
    for f in fails2:
        f.detail = "after edit + refresh: " + f.detail
        f.case = {"hier": core.plain(hier), "edits": core.plain(edits)}
        f.features["stage"] = "after-refresh"
        f.features["bucket"] = "after-refresh:" + str(f.features.get("bucket"))
        f.features["edit_ops"] = sorted({e["op"] for e in edits})
    return fails2, cls, (nontrivial or changed)


def replay(case) -> list:
    return evaluate(case["hier"], case.get("edits"))[0]


# ---------------------------------------------------------------------------
# generation
# ---------------------------------------------------------------------------
def add_comparams(draw, hier):
    from hypothesis import strategies as st
    num = st.integers(0, 0x7FF).map(str)
    nsub = draw(st.sampled_from([2, 3, 3]))
    csubs = [[sn, draw(num)] for sn in cpm.SUB_NAMES[:nsub]]
    if draw(st.integers(0, 7)) < 5:      # a nested complex sub-parameter at any position (document order matters)
        csubs.insert(draw(st.integers(0, nsub)),
                     {"name": "CP_Nested", "subs": [["CP_N1", draw(num)], ["CP_N2", draw(num)]][:draw(st.sampled_from([1, 2, 2]))]})
    simple = {}
    for n in cpm.SIMPLE_NAMES:
        simple[n] = draw(st.sampled_from(DL_VALUES)) if n == "CP_CANFDTxMaxDataLength" else draw(num)
    hier["subset"] = {"name": "SUB", "simple": simple,
                      "complex": {cpm.COMPLEX_NAME: csubs}}
    hier["spec"] = {"name": "cs"}
    if draw(st.booleans()):
        hier["spec"]["prot_stack"] = "ps"
    psd = draw(st.sampled_from([0, 0, 3, 5]))      # probability psd/8 that a COMPARAM-REF carries a PROT-STACK-SNREF
    if psd:
        hier["spec"]["prot_stacks"] = ["ps", "ps2"]
    protos = [l["name"] for l in hier["layers"] if l["type"] == "PROTOCOL"][:2]
    nfocus = draw(st.sampled_from([1, 1, 2, 3, 4]))
    pool = cpm.SIMPLE_NAMES + [cpm.COMPLEX_NAME] * 4
    focus = []
    for _ in range(nfocus):
        f = draw(st.sampled_from(pool))
        if f not in focus:
            focus.append(f)
    if "CP_CANFDBaudrate" in focus or "CP_CANFDTxMaxDataLength" in focus:
        for f in ("CP_CANFDBaudrate", "CP_CANFDTxMaxDataLength", cpm.COMPLEX_NAME):
            if f not in focus:
                focus.append(f)
    dens = draw(st.sampled_from([2, 4, 6]))
    empt = draw(st.sampled_from([1, 3, 5]))
    k = 0
    for l in hier["layers"]:
        if l["type"] == "ECU-SHARED-DATA":
            continue
        cps = []
        for param in focus:
            for q in [None] + protos:
                if draw(st.integers(0, 7)) >= dens:
                    continue
                k += 1
                uid = f"{l['name']}:{param}:{q}:{k}"
                if param == cpm.COMPLEX_NAME:
                    val = draw_complex_value(draw, csubs, empt, num)
                    cps.append({"param": param, "protocol": q, "form": "COMPLEX", "value": val, "uid": uid})
                else:
                    if draw(st.integers(0, 7)) < empt:
                        val = None
                    elif param == "CP_CANFDTxMaxDataLength":
                        val = draw(st.sampled_from(DL_VALUES))
                    else:
                        val = draw(num)
                    cps.append({"param": param, "protocol": q, "form": draw(st.sampled_from(["SIMPLE", "SIMPLE", "VALUE"])),
                                "value": val, "uid": uid})
        for cp in cps:
            if psd and draw(st.integers(0, 7)) < psd:
                cp["prot_stack"] = draw(st.sampled_from(["ps", "ps", "ps2"]))
        if cps:
            l["comparams"] = list(draw(st.permutations(cps)))


def draw_complex_value(draw, csubs, empt, num):
    """one entry per sub-parameter in document order; a nested complex sub-parameter gets a nested list"""
    from hypothesis import strategies as st
    out = []
    for e in csubs:
        if isinstance(e, dict):
            out.append([None if draw(st.integers(0, 7)) < empt else draw(num) for _ in e["subs"]])
        else:
            out.append(None if draw(st.integers(0, 7)) < empt else draw(num))
    return out


def history_strategy():
    """(hierarchy with placement A, 1..3 edits of COMPARAM-REF instances)"""
    from hypothesis import strategies as st
    num = st.integers(0, 0x7FF).map(str)

    @st.composite
    def build(draw):
        hier = draw(c09.hier_strategy("bare", comparams=add_comparams))
        layers = [l["name"] for l in hier["layers"] if l["type"] != "ECU-SHARED-DATA"]
        if not layers:
            return {"hier": hier, "edits": []}
        protos = [l["name"] for l in hier["layers"] if l["type"] == "PROTOCOL"][:2]
        csubs = hier["subset"]["complex"][cpm.COMPLEX_NAME]
        stacks = hier["spec"].get("prot_stacks") or []
        used = sorted({c["param"] for l in hier["layers"] for c in l.get("comparams", [])})

        def new_value(param):
            if draw(st.integers(0, 7)) < 2:
                return draw_complex_value(draw, csubs, 8, num) if param == cpm.COMPLEX_NAME else None
            if param == cpm.COMPLEX_NAME:
                return draw_complex_value(draw, csubs, 2, num)
            if param == "CP_CANFDTxMaxDataLength":
                return draw(st.sampled_from(DL_VALUES))
            return draw(num)

        cur = hier
        edits = []
        for k in range(draw(st.sampled_from([1, 1, 2, 3]))):
            ln = draw(st.sampled_from(layers))
            layer = next(l for l in cur["layers"] if l["name"] == ln)
            have = layer.get("comparams", [])
            op = draw(st.sampled_from(["add", "add", "remove", "set"]))
            if op != "add" and not have:
                op = "add"
            if op == "add":
                param = draw(st.sampled_from(used + used + [cpm.COMPLEX_NAME, "CP_Baudrate"]))
                q = draw(st.sampled_from([None] + protos))
                clash = next((c for c in have if c["param"] == param and c.get("protocol") == q), None)
                if clash is not None:
                    e = {"op": "set", "layer": ln, "uid": clash["uid"], "value": new_value(param)}
                else:
                    form = "COMPLEX" if param == cpm.COMPLEX_NAME else draw(st.sampled_from(["SIMPLE", "VALUE"]))
                    e = {"op": "add", "layer": ln, "pos": draw(st.integers(0, len(have))),
                         "cp": {"param": param, "protocol": q, "form": form, "value": new_value(param),
                                "uid": f"{ln}:{param}:{q}:edit{k}"}}
                    if stacks and draw(st.integers(0, 7)) < 3:
                        e["cp"]["prot_stack"] = draw(st.sampled_from(stacks))
            elif op == "remove":
                e = {"op": "remove", "layer": ln, "uid": draw(st.sampled_from([c["uid"] for c in have]))}
            else:
                c = draw(st.sampled_from(have))
                e = {"op": "set", "layer": ln, "uid": c["uid"], "value": new_value(c["param"])}
            edits.append(e)
            cur = apply_edit_ir(cur, e)
        return {"hier": hier, "edits": edits}

    return build()


def shards(tier):
    return [("hyp", i) for i in range(16)]


def run_shard(spec, seed, tier):
    from vlib import known
    res = core.ShardResult()
    kf = known.load(PROPERTY)

    def body(case):
        fails, cls, nontrivial = evaluate(case["hier"], case.get("edits"))
        res.note(case, nontrivial, cls)
        new = []
        for f in fails:
            k = known.match(kf, f)
            if k is not None:
                res.known_hits[k["id"]] += 1
            else:
                new.append(f)
        return new

    n = 320 if tier == "quick" else 3000
    found = core.hyp_search(history_strategy(), body, seed, n)
    if found:
        res.failures.extend(found)
    res.stages["hypothesis"] = n
    return res
