"""C10 — every reference resolves to the object it names, or loading fails.

Domain: generated document sets of 1..3 DIAG-LAYER-CONTAINER documents x 1..3 layers (plus
0..2 COMPARAM-SPEC documents) whose ODX ids are unique per document but deliberately re-used
across documents; references with and without DOCREF/DOCTYPE, ID-REF and SNREF forms,
IMPORT-REFs, PARENT-REFs (SNREFs must see inherited objects), and negative cases (dangling
ids drawn from ids that exist elsewhere, dangling / ambiguous short names).

Oracle: vlib/models/odxlink.py computes, independently of odxtools, the set of objects every
reference may be bound to.  Every object carries `uid:<n>` in its LONG-NAME, so after loading
the XML through the public path the check reads the uid of what each reference was bound to.
"""
from __future__ import annotations

import io
import random
import warnings

from vlib import core
from vlib.models import odxlink as M

PROPERTY = "C10"
RULE = ("one generated document set (1..3 containers x 1..3 layers, colliding local ids) loaded through "
        "Database.add_odx_file/refresh in strict mode; every reference site compared with the model's expected "
        "uid; negative sets must raise; then retarget_snrefs to one layer and compare again; then a generated history of "
        "edits of the loaded tree (remove / restore / change id / replace by copy), each followed by refresh() and "
        "compared with the model of the edited configuration.  non-trivial = "
        ">=2 documents (or two sibling layers of one container) carry a local id that is referenced, or a DOCREF / IMPORT-REF / inherited SNREF is "
        "present, or the set is negative; distinct = digest of the document-set IR")
ASSUMPTIONS = [
    "ODX ids are unique within one layer fragment and, except in the class 'sibling-id-reuse', within one XML document; document and layer short names are unique in the set",
    "class sibling-id-reuse: sibling layers of one container re-use local ids for layer-local objects; a reference without DOCREF inside a layer names that layer's own object (innermost fragment first); what such an id names from a sibling that does not carry it or through a DOCREF to the container fragment is not asserted",
    "a reference without DOCREF inside a layer may name an object of the layer, of a layer it imports, or of the enclosing container document; ",
    "an id the referring layer does not carry itself but exactly one ECU-SHARED-DATA it imports does names the imported object even if a sibling layer of the container carries the same id (imported objects behave as if the importing layer defined them, the layer fragment is searched first); collision with the container element's own id or between two imports is not asserted",
    "IMPORT-REFs extend the importing layer only and are not transitive; an id that a DOCREF'ed layer merely imports is not carried by that layer's fragment",
    "short-name references of an object are resolved in the view (local objects override inherited ones) of the layer that owns the object; after retarget_snrefs(db, X) those owned by X and its transitive parents follow X's view",
    "whether objects visible only through IMPORT-REF can be named by SNREF is not asserted; inheritance conflicts between parents, NOT-INHERITED lists and cross-kind name shadowing are left to C09 (not generated)",
    "TABLE-ROW-SNREF on TABLE-KEY, ENV-DATA-DESC references, PROT-STACK-SNREF, COMPARAM-REF, FUNCT-CLASS/STATE references, DIAG-COMM-SNREF of table connectors and DYNAMIC-LENGTH-FIELD / END-OF-PDU-FIELD are not generated",
    "any exception raised by add_odx_file/refresh counts as 'loading fails'",
    "history stage: the loaded tree is edited with plain list operations on the raw layer (pop/append on the NamedItemLists of the DIAG-DATA-DICTIONARY-SPEC, requests, responses, insert/pop on diag_comms_raw), assignment of odx_id, a deepcopy of a DATA-OBJECT-PROP; DiagDataDictionarySpec.__post_init__() is re-run after editing its lists (the concatenated DOP list is built there); after Database.refresh() the model of the edited configuration is the oracle; a refresh() that raised does not prevent a later successful refresh()",
    "short-name references of a table row / service included into another layer by TABLE-ROW-REF / DIAG-COMM-REF are resolved in the layer that defines the row / service; PROTOCOL-SNREF names one of the PROTOCOL layers among the defining layer and its transitive parents",
]
MUST_HIT = [
    "rk:PARENT-REF", "rk:IMPORT-REF", "rk:COMPARAM-SPEC-REF", "rk:DIAG-COMM-REF", "rk:REQUEST-REF", "rk:POS-RESPONSE-REF",
    "rk:NEG-RESPONSE-REF", "rk:DOP-REF", "rk:DOP-SNREF", "rk:TABLE-REF", "rk:TABLE-SNREF", "rk:TABLE-ROW-REF",
    "rk:TABLE-KEY-REF", "rk:TABLE-KEY-SNREF", "rk:LENGTH-KEY-REF", "rk:BASIC-STRUCTURE-REF", "rk:BASIC-STRUCTURE-SNREF",
    "rk:DYN-END-DOP-REF", "rk:SWITCH-KEY/DATA-OBJECT-PROP-REF", "rk:CASE/STRUCTURE-REF", "rk:CASE/STRUCTURE-SNREF",
    "rk:DEFAULT-CASE/STRUCTURE-REF", "rk:DEFAULT-CASE/STRUCTURE-SNREF", "rk:KEY-DOP-REF", "rk:TABLE-ROW/STRUCTURE-REF",
    "rk:TABLE-ROW/STRUCTURE-SNREF", "rk:TABLE-ROW/DATA-OBJECT-PROP-REF", "rk:TABLE-ROW/DATA-OBJECT-PROP-SNREF",
    "rk:COMPANY-DATA-REF", "rk:TEAM-MEMBER-REF", "rk:DOC-REVISION/TEAM-MEMBER-REF", "via:import-over-sibling",
    "sibling-id-reuse:own-company-data-without-docref",
    "rk:TABLE/TABLE-ROW-REF", "rk:PROTOCOL-SNREF", "included-row-snref-shadowed", "included-service-protocol-snref",
    "bad:protocol-not-applicable",
    "history", "history:remove", "history:restore", "history:rename", "history:replace", "history:refresh-raised",
    "history:resolves-again", "history:rebinds",
    "doc:none", "doc:LAYER", "doc:CONTAINER", "via:import", "via:container", "id-collision-referenced",
    "snref-inherited", "sibling-id-reuse", "sibling-id-reuse:own-object-without-docref",
    "sibling-id-reuse:docref-to-layer", "positive-loaded", "negative", "retarget", "retarget-rebinds", "retarget-rebinds-grandparent",
    "bad:id-not-visible", "bad:id-not-in-docref-fragment", "bad:unknown-docref-fragment", "bad:name-not-visible",
    "bad:ambiguous-local-name", "bad:ambiguous-parameter-name", "bad:name-not-in-parameter-list",
    "tag:other-document", "tag:sibling-import", "tag:docref-to-importer", "tag:wrong-docref", "tag:dropped-docref",
]


# ---------------------------------------------------------------------------
# loading and reading back
# ---------------------------------------------------------------------------
def _load(case):
    """-> (db, None) or (None, exception)"""
    from odxtools import exceptions
    from odxtools.database import Database
    docs = M.emit(case)
    old = exceptions.strict_mode
    exceptions.strict_mode = True
    try:
        with warnings.catch_warnings():
            warnings.simplefilter("ignore")
            try:
                db = Database()
                for _, xml in docs:
                    db.add_odx_file(io.BytesIO(xml))
                db.refresh()
            except Exception as e:   # noqa: BLE001 - any exception is "loading fails"
                return None, e
        return db, None
    finally:
        exceptions.strict_mode = old


def _refresh(db):
    """db.refresh() in strict mode -> None or the exception"""
    from odxtools import exceptions
    old = exceptions.strict_mode
    exceptions.strict_mode = True
    try:
        with warnings.catch_warnings():
            warnings.simplefilter("ignore")
            try:
                db.refresh()
            except Exception as e:   # noqa: BLE001 - any exception is "refresh fails"
                return e
        return None
    finally:
        exceptions.strict_mode = old


def _tree_list(db, layer_sn, lk):
    raw = db.diag_layers[layer_sn].diag_layer_raw
    if lk == "svcs":
        return raw.diag_comms_raw, None
    if lk in ("reqs", "poss", "negs"):
        return {"reqs": raw.requests, "poss": raw.positive_responses, "negs": raw.negative_responses}[lk], None
    dd = raw.diag_data_dictionary_spec
    return {"dops": dd.data_object_props, "structs": dd.structures, "tables": dd.tables, "sfields": dd.static_fields,
            "demfs": dd.dynamic_endmarker_fields, "muxs": dd.muxs}[lk], dd


def _edit_tree(db, op, stash, ir_after):
    """the same history step on the loaded odxtools object tree (plain list operations on the
    raw layer's lists, assignment of odx_id)"""
    import copy
    from odxtools.odxlink import OdxLinkId
    lst, dd = _tree_list(db, op["layer"], op["lk"])
    if op["op"] == "remove":
        stash["obj"] = lst.pop(op["i"])
    elif op["op"] == "restore":
        if op["lk"] == "svcs":
            # services are kept in front of the DIAG-COMM-REFs (that is how the sites are indexed)
            l = [x for _, x in M.iter_layers(ir_after) if x["sn"] == op["layer"]][0]
            lst.insert(len(l["svcs"]) - 1, stash["obj"])
        else:
            lst.append(stash["obj"])
    elif op["op"] == "rename":
        o = lst[op["i"]]
        o.odx_id = OdxLinkId(op["id"], o.odx_id.doc_fragments)
    elif op["op"] == "replace":
        o = lst.pop(op["i"])
        n = copy.deepcopy(o)
        n.long_name = f"uid:{op['uid']}"
        lst.append(n)
    if dd is not None:
        dd.__post_init__()     # rebuilds the concatenated list of all DOP kinds of the raw dictionary


class Unbound(Exception):
    pass


def _uid_of(obj):
    ln = getattr(obj, "long_name", None)
    if isinstance(ln, str) and ln.startswith("uid:"):
        return int(ln[4:])
    return None


def _bound(db, layer_ir, site):
    """the odxtools object the reference of the site is bound to (Unbound if there is none)"""
    path = site["path"]
    dl = db.diag_layers[layer_ir["sn"]]
    raw = dl.diag_layer_raw
    try:
        h = path[0]
        if "admin" in path[:3] and (h == "admin" or path[2] == "admin"):
            if h == "admin":
                ad, rest = raw.admin_data, path[1:]
            else:
                holder = {"reqs": lambda: raw.requests[path[1]], "svcs": lambda: raw.diag_comms[path[1]],
                          "dops": lambda: raw.diag_data_dictionary_spec.data_object_props[path[1]]}[h]()
                ad, rest = holder.admin_data, path[3:]
            if rest[0] == "cdi":
                cdi = ad.company_doc_infos[rest[1]]
                return cdi.company_data if rest[2] == "cd" else cdi.team_member
            return ad.doc_revisions[rest[1]].team_member
        if h == "parent":
            return raw.parent_refs[path[1]].layer
        if h == "import":
            # import references are not kept as resolved attributes; observed indirectly
            raise Unbound("not-observable")
        if h == "cpspec":
            return raw.comparam_spec
        if h == "commref":
            return raw.diag_comms[len(layer_ir.get("svcs", [])) + path[1]]
        if h == "svc":
            svc = raw.diag_comms[path[1]]
            if path[2] == "request":
                return svc.request
            if path[2] == "prot":
                return svc.protocols[path[3]]
            return (svc.positive_responses if path[2] == "pos" else svc.negative_responses)[path[3]]
        dd = raw.diag_data_dictionary_spec
        if h in ("reqs", "poss", "negs", "structs"):
            lst = {"reqs": lambda: raw.requests, "poss": lambda: raw.positive_responses,
                   "negs": lambda: raw.negative_responses, "structs": lambda: dd.structures}[h]()
            p = lst[path[1]].parameters[path[3]]
            a = path[4]
            if a == "dop":
                return p.dop
            if a == "table":
                return p.table
            if a == "row":
                return p.table_row
            if a == "key":
                return p.table_key
        if h == "dops":
            return dd.data_object_props[path[1]].diag_coded_type.length_key
        if h == "sfields":
            return dd.static_fields[path[1]].structure
        if h == "demfs":
            f = dd.dynamic_endmarker_fields[path[1]]
            return f.structure if path[2] == "struct" else f.dyn_end_dop
        if h == "muxs":
            mx = dd.muxs[path[1]]
            if path[2] == "key":
                return mx.switch_key.dop
            if path[2] == "default":
                return mx.default_case.structure
            return mx.cases[path[3]].structure
        if h == "tables":
            t = dd.tables[path[1]]
            if path[2] == "keydop":
                return t.key_dop
            if path[2] == "rowref":
                return t.table_rows[path[3]]
            row = t.table_rows_raw[path[3]]
            return row.structure if layer_ir["tables"][path[1]]["rows"][path[3]]["tkind"] == "struct" else row.dop
    except Unbound:
        raise
    except Exception as e:   # noqa: BLE001 - reading an attribute that was never bound
        raise Unbound(f"{type(e).__name__}: {e}")
    raise AssertionError(f"unknown site path {path}")


def _bound_param(db, layer_ir, site):
    path = site["path"]
    raw = db.diag_layers[layer_ir["sn"]].diag_layer_raw
    lst = {"reqs": lambda: raw.requests, "poss": lambda: raw.positive_responses,
           "negs": lambda: raw.negative_responses,
           "structs": lambda: raw.diag_data_dictionary_spec.structures}[path[0]]()
    return lst[path[1]].parameters[path[3]]


def _bound_uid(db, layer_ir, site):
    try:
        o = _bound(db, layer_ir, site)
    except Unbound as e:
        return None, str(e)
    if o is None:
        return None, "None"
    u = _uid_of(o)
    return u, (type(o).__name__ if u is None else "")


# ---------------------------------------------------------------------------
# oracle
# ---------------------------------------------------------------------------
def _leak_explains(m: M.Model, site, uid) -> bool:
    """True when a wrongly accepted reference was bound to an object that is visible only to
    ANOTHER layer through that layer's IMPORT-REF, looked up in a fragment of that other layer
    (its layer fragment or its container fragment).  Used by the known-finding predicate only."""
    if site["form"] != "id":
        return False
    if uid is None and site["path"][0] == "import":
        # what an IMPORT-REF was bound to is not observable: try every object carrying the id
        return any(_leak_explains(m, site, u) for u, o in m.obj.items() if o["id"] == site.get("ref_id"))
    if uid not in m.obj:
        return False
    o = m.obj[uid]
    if o["id"] != site.get("ref_id") or o["layer"] is None:
        return False
    ref = _site_ref(m.case, site)
    if ref.get("doc") is not None:
        frs = [tuple(ref["doc"])]
    else:
        frs = [(site["layer"], "LAYER"), (m.layer_cont[site["layer"]], "CONTAINER")]
    for sn, imps in m._imports.items():
        if sn == site["layer"] or o["layer"] not in imps:
            continue
        if (sn, "LAYER") in frs or (m.layer_cont[sn], "CONTAINER") in frs:
            return True
    return False


def _site_ref(case, site):
    for _, l in M.iter_layers(case):
        if l["sn"] == site["layer"]:
            for path, _, holder, key in M.iter_sites(l):
                if list(path) == site["path"]:
                    return holder[key]
    raise AssertionError("site not found")


def _included_classes(m: M.Model, classes, feats):
    """objects included by reference into another layer whose short-name references must stay in
    the context of the DEFINING layer"""
    by_path = {(s["layer"], tuple(s["path"])): s for s in m.sites}
    for s in m.sites:
        if s["status"] != "ok":
            continue
        if s["rk"] == "TABLE/TABLE-ROW-REF":
            row = m.obj[s["allowed"][0]]
            if row["layer"] == s["layer"]:
                continue
            # the row's own SNREF site (owned by the defining layer)
            for t in m.sites:
                if t["layer"] == row["layer"] and t["form"] == "sn" and t["status"] == "ok" and \
                        t["rk"].startswith("TABLE-ROW/") and _row_uid(m, t) == s["allowed"][0]:
                    here = sorted(m.view(s["layer"], t["cat"]).get(t["name"], ()))
                    if here != t["allowed"]:
                        # the including layer sees another (or no) object under that short name
                        classes.add("included-row-snref-shadowed")
                        feats.add("included-row")
        elif s["rk"] == "DIAG-COMM-REF":
            svc = m.obj[s["allowed"][0]]
            if svc["layer"] == s["layer"]:
                continue
            for t in m.sites:
                if t["layer"] == svc["layer"] and t["rk"] == "PROTOCOL-SNREF" and t["status"] == "ok" and \
                        _svc_uid(m, t) == s["allowed"][0] and t["name"] not in m.protocols(s["layer"]):
                    classes.add("included-service-protocol-snref")
                    feats.add("included-service")


def _row_uid(m, site):
    l = m.layer[site["layer"]]
    return l["tables"][site["path"][1]]["rows"][site["path"][3]].get("uid")


def _svc_uid(m, site):
    return m.layer[site["layer"]]["svcs"][site["path"][1]]["uid"]


def evaluate(case):
    """-> (failures, classes, nontrivial)"""
    m = M.Model(case)
    su = m.summary()
    layers = {l["sn"]: l for _, l in M.iter_layers(case)}
    classes = set()
    feats = set()
    for s in m.sites:
        classes.add("rk:" + s["rk"])
        if s["form"] == "id":
            classes.add("doc:" + s["doc"])
            if s["doc"] != "none":
                feats.add("docref")
            if s["status"] == "ok":
                classes.add("via:" + str(s["via"]))
                if s.get("sibling_reuse") and s["doc"] == "none" and s["via"] == "own":
                    # R2b: no DOCREF, the id is carried by the referring layer AND by a sibling layer
                    classes.add("sibling-id-reuse:own-object-without-docref")
                    if s["rk"] in ("COMPANY-DATA-REF", "TEAM-MEMBER-REF", "DOC-REVISION/TEAM-MEMBER-REF"):
                        classes.add("sibling-id-reuse:own-company-data-without-docref")
                    feats.add("sibling-reuse")
                elif s.get("sibling_reuse") and s["doc"] == "LAYER":
                    classes.add("sibling-id-reuse:docref-to-layer")
        elif s.get("inherited"):
            classes.add("snref-inherited")
            feats.add("inherited-snref")
        if s["status"] == "bad":
            classes.add("bad:" + s["why"])
        if s["status"] == "loose":
            classes.add("loose:" + s["why"])
        if s.get("tag"):
            classes.add("tag:" + s["tag"])
        if s["rk"] == "IMPORT-REF":
            feats.add("import")
    _included_classes(m, classes, feats)
    if su["sibling_reuse"]:
        classes.add("sibling-id-reuse")
    if su["collide"]:
        classes.add("id-collision-referenced")
        feats.add("collision")
    negative = bool(su["bad"])
    loose = bool(su["loose"]) or bool(su["conflicts"])
    if su["conflicts"]:
        classes.add("inheritance-conflict-skipped")
    if negative:
        classes.add("negative")
    nontrivial = negative or bool(feats)

    def fail(clause, detail, bucket, **features):
        features["bucket"] = bucket
        return core.Failure(clause=clause, detail=detail, case=core.plain(case), features=features)

    db, exc = _load(case)
    fails = []
    if db is None:
        if negative:
            classes.add("negative-raised")
            return [], classes, nontrivial
        if loose:
            classes.add("loose-raised")
            return [], classes, nontrivial
        return [fail("must-load", f"document set without bad references was rejected: {type(exc).__name__}: {exc}"[:600],
                     f"must-load:{type(exc).__name__}", exc_type=type(exc).__name__, exc_msg=str(exc)[:300])], classes, nontrivial

    # the set was accepted ---------------------------------------------------
    if negative:
        bad = su["bad"]
        if any(s["path"][0] in ("parent", "import") for s in bad):
            # an unresolvable PARENT-/IMPORT-REF changes what every other reference of the layer
            # can see: report the structural references only, the rest may be consequences
            bad = [s for s in bad if s["path"][0] in ("parent", "import")]
        for s in bad:
            if s["path"][0] == "import":
                got, note = None, "import reference accepted"
            else:
                got, note = _bound_uid(db, layers[s["layer"]], s)
            what = f"uid:{got} ({m.obj[got]['kind']} {m.obj[got]['sn']!r} of layer {m.obj[got]['layer']})" \
                if got in m.obj else f"nothing observable ({note})"
            fails.append(fail(
                "must-raise",
                f"{s['rk']} at {s['layer']}/{'/'.join(map(str, s['path']))} is unresolvable ({s['why']}, "
                f"ref={_site_ref(case, s)}) but the set loaded in strict mode; bound to {what}",
                f"must-raise:{s['why']}:{s['rk']}", why=s["why"], rk=s["rk"], tag=s.get("tag"),
                layer_type=layers[s["layer"]]["type"], bound=got, candidates=list(s["allowed"]), note=note,
                leak=_leak_explains(m, s, got), site_layer=s["layer"], site_path=s["path"]))
        return fails, classes, nontrivial

    classes.add("positive-loaded" if not loose else "loose-loaded")
    for s in m.sites:
        if s["status"] != "ok" or s["path"][0] == "import":
            continue
        got, note = _bound_uid(db, layers[s["layer"]], s)
        if got not in s["allowed"]:
            what = f"uid:{got} ({m.obj[got]['kind']} {m.obj[got]['sn']!r} of layer {m.obj[got]['layer']})" \
                if got in m.obj else f"no identifiable object ({note})"
            fails.append(fail(
                "wrong-target",
                f"{s['rk']} at {s['layer']}/{'/'.join(map(str, s['path']))} (ref={_site_ref(case, s)}) must name "
                f"uid {s['allowed']} but is bound to {what}",
                f"wrong-target:{s['rk']}:{s.get('doc')}:{s.get('via')}", rk=s["rk"], doc=s.get("doc"), via=s.get("via"),
                expected=s["allowed"], bound=got, leak=_leak_explains(m, s, got), site_path=s["path"], note=note))
        if s["rk"] == "TABLE-ROW-REF" and got in s["allowed"]:
            # TABLE-KEY given by TABLE-ROW-REF: its table is the table carrying that row
            try:
                tu = _uid_of(db.diag_layers[s["layer"]] and _bound_param(db, layers[s["layer"]], s).table)
            except Exception as e:   # noqa: BLE001
                tu = None
            if tu != m.obj[got]["table"]:
                fails.append(fail("wrong-target", f"TABLE-KEY at {s['layer']}/{'/'.join(map(str, s['path']))} names row uid:{got} "
                                  f"of table uid:{m.obj[got]['table']} but its table is uid:{tu}",
                                  "wrong-target:table-of-row", rk="TABLE-ROW-REF/table"))
    if fails or loose:
        return fails, classes, nontrivial

    # retargeting ----------------------------------------------------------------
    tgt = case.get("retarget")
    if tgt is not None and tgt in layers:
        ok, exp = m.retarget_expect(tgt)
        if ok:
            from odxtools.utils import retarget_snrefs
            classes.add("retarget")
            try:
                with warnings.catch_warnings():
                    warnings.simplefilter("ignore")
                    retarget_snrefs(db, db.diag_layers[tgt])
            except Exception as e:   # noqa: BLE001
                return [fail("retarget-raises", f"retarget_snrefs(db, {tgt}) raised {type(e).__name__}: {e}"[:500],
                             f"retarget-raises:{type(e).__name__}")], classes, nontrivial
            for i, s in enumerate(m.sites):
                if s["status"] != "ok" or i not in exp:
                    continue
                want = exp[i]
                if want != s["allowed"]:
                    classes.add("retarget-rebinds")
                    if (m.depth_above(tgt, s["layer"]) or 0) >= 2:
                        classes.add("retarget-rebinds-grandparent")
                got, note = _bound_uid(db, layers[s["layer"]], s)
                if got not in want:
                    fails.append(fail(
                        "retarget",
                        f"after retarget_snrefs(db, {tgt}): {s['rk']} at {s['layer']}/{'/'.join(map(str, s['path']))} "
                        f"must name uid {want} (before: {s['allowed']}) but is bound to uid:{got} {note}",
                        f"retarget:{s['rk']}:{'moved' if want != s['allowed'] else 'kept'}", rk=s["rk"]))
    if not fails and case.get("history"):
        fails = _history(case, db, m, classes, fail)
        nontrivial = True
    return fails, classes, nontrivial


def _history(case, db, m0, classes, fail):
    """edit the loaded tree step by step; after every refresh() the model of the edited
    configuration is the oracle (R6)"""
    fails = []
    cur = {k: v for k, v in case.items() if k != "history"}
    stash_ir, stash_tree = {}, {}
    prev_m, prev_raised = m0, False
    for step, op in enumerate(case.get("history") or []):
        cur = M.apply_edit(cur, op, stash_ir)
        _edit_tree(db, op, stash_tree, cur)
        m = M.Model(cur)
        su = m.summary()
        layers = {l["sn"]: l for _, l in M.iter_layers(cur)}
        classes.add("history")
        classes.add("history:" + op["op"])
        exc = _refresh(db)
        where = f"history step {step} ({op['op']} {op['layer']}/{op['lk']}" + (f"[{op['i']}]" if "i" in op else "") + ")"
        if su["bad"]:
            if exc is None:
                bad = su["bad"]
                if any(s["path"][0] in ("parent", "import") for s in bad):
                    bad = [s for s in bad if s["path"][0] in ("parent", "import")]
                for s in bad:
                    got, note = (None, "import") if s["path"][0] == "import" else _bound_uid(db, layers[s["layer"]], s)
                    stale = got is not None and got not in m.obj
                    fails.append(fail(
                        "history-must-raise",
                        f"{where}: {s['rk']} at {s['layer']}/{'/'.join(map(str, s['path']))} has become unresolvable "
                        f"({s['why']}, ref={_site_ref(cur, s)}) but refresh() succeeded in strict mode; bound to uid:{got}"
                        + (" which is no longer part of the database" if stale else f" {note}"),
                        f"history-must-raise:{op['op']}:{s['why']}:{s['rk']}", op=op["op"], why=s["why"], rk=s["rk"], stale=stale,
                        site_path=s["path"], bound=got, note=note))
                return fails
            classes.add("history:refresh-raised")
            prev_m, prev_raised = m, True
            continue
        if su["loose"] or su["conflicts"]:
            classes.add("history:loose-step")
            prev_m, prev_raised = m, exc is not None
            continue
        if exc is not None:
            return [fail("history-must-load", f"{where}: the edited configuration has no bad reference but refresh() raised "
                         f"{type(exc).__name__}: {exc}"[:600], f"history-must-load:{op['op']}:{type(exc).__name__}", op=op["op"])]
        if prev_raised:
            classes.add("history:resolves-again")
        prev_by_path = {(s["layer"], tuple(s["path"])): s for s in prev_m.sites}
        for s in m.sites:
            if s["status"] != "ok" or s["path"][0] == "import":
                continue
            p = prev_by_path.get((s["layer"], tuple(s["path"])))
            if op["op"] in ("remove", "replace") and p is not None and p["status"] == "ok" and p["allowed"] != s["allowed"]:
                classes.add("history:rebinds")
            got, note = _bound_uid(db, layers[s["layer"]], s)
            if got not in s["allowed"]:
                stale = got is not None and got not in m.obj
                fails.append(fail(
                    "history-wrong-target",
                    f"{where}: {s['rk']} at {s['layer']}/{'/'.join(map(str, s['path']))} (ref={_site_ref(cur, s)}) must name "
                    f"uid {s['allowed']} but is bound to uid:{got} {note}" + (" (object no longer in the database)" if stale else ""),
                    f"history-wrong-target:{op['op']}:{s['rk']}", op=op["op"], rk=s["rk"], stale=stale,
                    site_path=s["path"], bound=got, note=note))
        if fails:
            return fails
        prev_m, prev_raised = m, False
    return fails


def replay(case):
    fails, _, _ = evaluate(case)
    return fails


# ---------------------------------------------------------------------------
# shards
# ---------------------------------------------------------------------------
def shards(tier):
    n = 12 if tier == "quick" else 16
    return [("hyp", i) for i in range(n)]


def run_shard(spec, seed, tier):
    from hypothesis import strategies as st
    from vlib import known
    res = core.ShardResult()
    kf = known.load(PROPERTY)
    _, idx = spec
    # every third shard generates negative sets only, one positive only, the rest mixed
    mode = {0: True, 1: False}.get(idx % 4, None)
    n = 220 if tier == "quick" else 2000

    # the positive-only shards always use the class "sibling-id-reuse" (sibling layers of one
    # container re-use local ids), the others in 35 % of the sets
    reuse = True if idx % 4 == 1 else None
    strat = st.randoms(use_true_random=False).map(
        lambda r: M.gen_case(r, negative=mode, big=(tier != "quick"), reuse=reuse))

    def body(case):
        fails, classes, nontrivial = evaluate(case)
        res.note(case, nontrivial, classes, sample=len(core.canon(case)) < 3500)
        if any(c.startswith("positive-loaded") for c in classes):
            res.accepted += 1
        elif "negative-raised" in classes:
            res.rejected += 1
        new = []
        for f in fails:
            k = known.match(kf, f)
            if k is not None:
                res.known_hits[k["id"]] += 1
            else:
                new.append(f)
        return new

    out = core.hyp_search(strat, body, seed, n)
    if out:
        res.failures.extend(out)
    res.stages["hypothesis"] = n
    return res
