"""Shared plumbing of the checks: failure records, shard results, Hypothesis drivers."""
from __future__ import annotations

import hashlib
import json
import os
import time
from collections import Counter
from dataclasses import dataclass, field
from fractions import Fraction
from typing import Any, Callable, Iterable


class Inconclusive(Exception):
    """Raised by a shard when it cannot decide anything (exit 2, never a violation)."""


def jdefault(o: Any) -> Any:
    if isinstance(o, (bytes, bytearray)):
        return {"__bytes__": bytes(o).hex()}
    if isinstance(o, Fraction):
        return {"__frac__": [o.numerator, o.denominator]}
    if isinstance(o, (set, frozenset)):
        return sorted(o, key=repr)
    if isinstance(o, tuple):
        return list(o)
    if isinstance(o, float):
        return o
    if hasattr(o, "to_json"):
        return o.to_json()
    return repr(o)


def canon(o: Any) -> str:
    return json.dumps(o, sort_keys=True, default=jdefault, separators=(",", ":"))


def digest(o: Any) -> bytes:
    return hashlib.sha1(canon(o).encode()).digest()[:8]


def unjson(o: Any) -> Any:
    """inverse of jdefault for bytes / fractions (used by replay)."""
    if isinstance(o, dict):
        if set(o) == {"__bytes__"}:
            return bytes.fromhex(o["__bytes__"])
        if set(o) == {"__frac__"}:
            return Fraction(o["__frac__"][0], o["__frac__"][1])
        return {k: unjson(v) for k, v in o.items()}
    if isinstance(o, list):
        return [unjson(v) for v in o]
    return o


def plain(o: Any) -> Any:
    """round-trip through JSON so that a case is exactly what a replay file would hold."""
    return json.loads(json.dumps(o, default=jdefault))


@dataclass
class Failure:
    clause: str                      # oracle clause that failed
    detail: str                      # human readable: observed vs expected
    case: Any                        # JSON-able case reproducing it
    features: dict = field(default_factory=dict)   # structural features for bucketing / known predicates
    origin: str = ""

    def bucket(self) -> str:
        fk = self.features.get("bucket")
        if fk is None:
            fk = canon({k: v for k, v in self.features.items() if k != "note"})
        return f"{self.clause}|{fk}"


@dataclass
class ShardResult:
    evaluations: int = 0
    digests: set = field(default_factory=set)
    classes: Counter = field(default_factory=Counter)
    samples: list = field(default_factory=list)
    failures: list = field(default_factory=list)
    known_hits: Counter = field(default_factory=Counter)
    accepted: int = 0
    rejected: int = 0
    stages: dict = field(default_factory=dict)
    exhaustive_subspaces: list = field(default_factory=list)
    wall_s: float = 0.0

    def merge(self, o: "ShardResult") -> None:
        self.evaluations += o.evaluations
        self.digests |= o.digests
        self.classes.update(o.classes)
        # keep a spread of samples: a few from every shard
        for s in o.samples[:3]:
            if len(self.samples) < 24:
                self.samples.append(s)
        self.failures.extend(o.failures)
        self.accepted += o.accepted
        self.rejected += o.rejected
        for k, v in o.stages.items():
            if isinstance(v, (int, float)) and isinstance(self.stages.get(k, 0), (int, float)):
                self.stages[k] = self.stages.get(k, 0) + v
            else:
                self.stages[k] = v
        self.exhaustive_subspaces.extend(o.exhaustive_subspaces)

    # ---- recording helpers used by check bodies -------------------------
    def note(self, case: Any, nontrivial: bool, classes: Iterable[str] = (), sample: bool = True,
             n: int = 1, dig: Any = None) -> None:
        self.evaluations += n
        for c in classes:
            self.classes[c] += 1
        if nontrivial:
            self.digests.add(digest(case if dig is None else dig))
            self.classes["nontrivial"] += 1
            if sample and len(self.samples) < 6:
                s = plain(case)
                if len(canon(s)) < 4000:
                    self.samples.append(s)


def hyp_settings(max_examples: int, shrink: bool = True, **kw):
    from hypothesis import HealthCheck, Phase, Verbosity, settings
    phases = [Phase.generate, Phase.target] + ([Phase.shrink] if shrink else [])
    return settings(max_examples=max_examples, database=None, deadline=None, derandomize=False,
                    report_multiple_bugs=False, phases=phases, verbosity=Verbosity.quiet,
                    print_blob=False,
                    suppress_health_check=[HealthCheck.too_slow, HealthCheck.data_too_large,
                                           HealthCheck.large_base_example], **kw)


class _Viol(Exception):
    pass


def hyp_search(strategy, body: Callable[[Any], list], seed: int, max_examples: int,
               shrink_budget_s: float = 45.0, shrink: bool = True) -> list | None:
    """Run `body(case) -> list[Failure]` (already filtered for known findings) over
    `strategy`.  Returns the failures of the minimal failing case or None.

    Shrinking is bounded: once `shrink_budget_s` has passed since the first
    failure only the best case found so far is still treated as failing, so
    Hypothesis converges on it immediately (DESIGN 1.4)."""
    import hypothesis
    from hypothesis import given
    from hypothesis.errors import Flaky, FlakyFailure  # type: ignore

    # development knob (kill matrices only need the verdict, not a minimal case)
    shrink_budget_s = float(os.environ.get("VERIF_SHRINK_BUDGET", shrink_budget_s))
    if shrink_budget_s <= 0:
        shrink = False
    st = {"best": None, "bestkey": None, "bestinput": None, "t0": None}

    @hypothesis.seed(seed)
    @hyp_settings(max_examples, shrink=shrink)
    @given(strategy)
    def t(case):
        if st["t0"] is not None and time.monotonic() - st["t0"] > shrink_budget_s:
            # budget used up: only the best case found so far still fails, and nothing else is evaluated any
            # more, so the shrinker runs out of candidates quickly
            try:
                same = canon(case) == st["bestinput"]
            except Exception:
                same = False
            if same:
                raise _Viol()
            return
        fails = body(case)
        if not fails:
            return
        now = time.monotonic()
        if st["t0"] is None:
            st["t0"] = now
        key = canon(fails[0].case)
        if now - st["t0"] > shrink_budget_s and key != st["bestkey"]:
            return
        st["best"] = fails
        st["bestkey"] = key
        try:
            st["bestinput"] = canon(case)
        except Exception:
            st["bestinput"] = None
        raise _Viol()

    try:
        t()
    except _Viol:
        return st["best"]
    except (Flaky, FlakyFailure):
        if st["best"] is not None:
            return st["best"]
        raise
    except BaseException as e:  # exception groups from hypothesis
        if st["best"] is not None and ("_Viol" in repr(e) or isinstance(e, BaseExceptionGroup)):
            return st["best"]
        raise
    return None
