"""Known-finding predicates of C11 (PDX write -> load round trip); auto-imported by vlib.known.load()."""
from __future__ import annotations

from vlib.known import predicate


# ---------------------------------------------------------------------------
# C11 — PDX write -> load round trip.  One predicate per root cause (= per pending fix).
# A failure carries: clause, features.bucket ("<Class.field>|<mode>"), key, mode, where (XML
# context of a parse error), path (Class.field chain of a structural difference), perturbed.
# ---------------------------------------------------------------------------
_C11_PARAM_CLASSES = ("CodedConstParameter", "DynamicParameter", "LengthKeyParameter",
                      "MatchingRequestParameter", "NrcConstParameter", "PhysicalConstantParameter",
                      "ReservedParameter", "SystemParameter", "TableEntryParameter", "TableKeyParameter",
                      "TableStructParameter", "ValueParameter")
_C11_LAYER_RAWS = ("ProtocolRaw", "FunctionalGroupRaw", "BaseVariantRaw", "EcuVariantRaw", "EcuSharedDataRaw")
# attributes that the templates emit through make_xml_attrib (verified against templates/macros)
_C11_ATTRIB_KEYS = frozenset(
    [f"{c}.oid" for c in (
        "AdditionalAudience", "CompanyData", "Comparam", "ComparamSpec", "ComparamSubset", "ComplexComparam",
        "DataObjectProperty", "DiagLayerContainer", "DiagService", "FunctionalClass", "PhysicalDimension",
        "ProtStack", "Request", "Response", "SingleEcuJob", "Structure", "Table", "TableRow", "TeamMember",
        "Unit", "UnitGroup") + _C11_PARAM_CLASSES + _C11_LAYER_RAWS]
    + [f"{c}.semantic" for c in ("DiagService", "SingleEcuJob", "Table", "TableRow") + _C11_PARAM_CLASSES]
    + ["Description.text_identifier", "ComparamSubset.category"])


def _c11(f, clause, mode=None):
    return f.clause == clause and (mode is None or f.features.get("mode") == mode)


def _c11_bucket_in(f, clause, buckets):
    return f.clause == clause and f.features.get("bucket") in buckets


@predicate("c11_xml_attrib_unescaped")
def c11_xml_attrib_unescaped(f):
    import re
    return (_c11(f, "well-formed", "not-well-formed") and f.features.get("key") in _C11_ATTRIB_KEYS
            and re.fullmatch(r"attr:[\w?:.-]+@(OID|SEMANTIC|TI|CATEGORY)", f.features.get("where", "")) is not None)


@predicate("c11_comparam_param_class_unescaped")
def c11_comparam_param_class_unescaped(f):
    return (_c11(f, "well-formed", "not-well-formed")
            and f.features.get("key") in ("Comparam.param_class", "ComplexComparam.param_class")
            and f.features.get("where", "").endswith("@PARAM-CLASS"))


@predicate("c11_comparam_cpusage_none")
def c11_comparam_cpusage_none(f):
    return (_c11(f, "reload", "reload-raises") and f.features.get("exc") == "OdxError"
            and f.features.get("key") in ("Comparam.cpusage", "ComplexComparam.cpusage")
            and "unknown CPUSAGE ''" in f.detail)


@predicate("c11_comparam_display_level")
def c11_comparam_display_level(f):
    b = ("Comparam.display_level|dropped", "ComplexComparam.display_level|dropped")
    if _c11_bucket_in(f, "structural", b):
        return True
    # the first write has DISPLAY-LEVEL, the reloaded database lost it, so the second write differs
    return (f.clause == "idempotence" and f.features.get("key") == "DISPLAY-LEVEL"
            and any(x in f.features.get("with", "") for x in b))


@predicate("c11_progcode_text")
def c11_progcode_text(f):
    if (_c11(f, "well-formed", "not-well-formed") and f.features.get("where", "").startswith("text:")
            and f.features.get("key") in ("ProgCode.code_file", "ProgCode.encryption", "ProgCode.syntax",
                                          "ProgCode.revision", "ProgCode.entrypoint")):
        return True
    return (_c11_bucket_in(f, "structural", ("ProgCode.entrypoint|altered",))
            and f.features.get("a") == "None" and f.features.get("b") == "'None'")


@predicate("c11_compu_v_unescaped")
def c11_compu_v_unescaped(f):
    return (_c11(f, "well-formed", "not-well-formed") and f.features.get("where") == "text:V"
            and f.features.get("key") in ("CompuConst.v", "CompuInverseValue.v", "CompuDefaultValue.v"))


@predicate("c11_protstack_text_unescaped")
def c11_protstack_text_unescaped(f):
    return (_c11(f, "well-formed", "not-well-formed")
            and (f.features.get("key"), f.features.get("where")) in (
                ("ProtStack.pdu_protocol_type", "text:PDU-PROTOCOL-TYPE"),
                ("ProtStack.physical_link_type", "text:PHYSICAL-LINK-TYPE")))


@predicate("c11_unit_display_name_unescaped")
def c11_unit_display_name_unescaped(f):
    return (_c11(f, "well-formed", "not-well-formed") and f.features.get("key") == "Unit.display_name"
            and f.features.get("where") == "text:DISPLAY-NAME")


@predicate("c11_description_text_unescaped")
def c11_description_text_unescaped(f):
    return (_c11(f, "well-formed", "not-well-formed") and f.features.get("key") == "Description.text"
            and f.features.get("where") == "text:DESC")


@predicate("c11_diaglayer_oid_dropped")
def c11_diaglayer_oid_dropped(f):
    return _c11_bucket_in(f, "structural", tuple(f"{c}.oid|dropped" for c in _C11_LAYER_RAWS))


@predicate("c11_diaglayer_company_datas")
def c11_diaglayer_company_datas(f):
    return (_c11(f, "write", "write-raises") and f.features.get("exc") == "UndefinedError"
            and f.features.get("key") in tuple(f"{c}.company_datas" for c in _C11_LAYER_RAWS)
            and "'pcd' is undefined" in f.detail)


@predicate("c11_param_oid_dropped")
def c11_param_oid_dropped(f):
    return _c11_bucket_in(f, "structural", tuple(f"{c}.oid|dropped" for c in _C11_PARAM_CLASSES
                                                 if c != "TableKeyParameter"))


@predicate("c11_matching_request_bit_position")
def c11_matching_request_bit_position(f):
    return _c11_bucket_in(f, "structural", ("MatchingRequestParameter.bit_position|dropped",))


@predicate("c11_physical_type_precision_dropped")
def c11_physical_type_precision_dropped(f):
    return _c11_bucket_in(f, "structural", ("PhysicalType.precision|dropped",))


@predicate("c11_is_condensed_dropped")
def c11_is_condensed_dropped(f):
    return _c11_bucket_in(f, "structural", ("StandardLengthType.is_condensed_raw|dropped",))


@predicate("c11_dop_physical_constr")
def c11_dop_physical_constr(f):
    if (_c11(f, "write", "write-raises") and f.features.get("exc") == "UndefinedError"
            and f.features.get("key") == "DataObjectProperty.physical_constr"
            and "has no attribute 'lower_limit'" in f.detail):
        return True
    # PHYS-CONSTR is written from internal_constr: any difference below DataObjectProperty.physical_constr
    return f.clause == "structural" and "DataObjectProperty.physical_constr/" in f.features.get("path", "") + "/"


@predicate("c11_table_subelements_dropped")
def c11_table_subelements_dropped(f):
    return _c11_bucket_in(f, "structural", ("Table.key_label|dropped", "Table.struct_label|dropped",
                                            "Table.admin_data|dropped"))


@predicate("c11_tablerow_flags_dropped")
def c11_tablerow_flags_dropped(f):
    return _c11_bucket_in(f, "structural", ("TableRow.is_executable_raw|dropped", "TableRow.is_mandatory_raw|dropped",
                                            "TableRow.is_final_raw|dropped"))


@predicate("c11_request_response_admin_data_dropped")
def c11_request_response_admin_data_dropped(f):
    return _c11_bucket_in(f, "structural", ("Request.admin_data|dropped", "Response.admin_data|dropped"))


@predicate("c11_structure_admin_data_dropped")
def c11_structure_admin_data_dropped(f):
    return _c11_bucket_in(f, "structural", ("Structure.admin_data|dropped",))


@predicate("c11_ddds_admin_data_dropped")
def c11_ddds_admin_data_dropped(f):
    return _c11_bucket_in(f, "structural", ("DiagDataDictionarySpec.admin_data|dropped",))


@predicate("c11_loadfile_entry_points")
def c11_loadfile_entry_points(f):
    if f.clause != "entry-point":
        return False
    b = f.features.get("bucket")
    if b == "load_files|raises:OdxError":
        return "Reference to auxiliary file" in f.detail
    return b in ("load_files|Database.short_name", "load_directory|Database.short_name")


@predicate("c11_text_whitespace_not_preserved")
def c11_text_whitespace_not_preserved(f):
    """the templates' |e filter leaves TAB / LF literal: (a) jinja's indent() then re-indents the
    continuation lines of a multi-line element text on every write, (b) in attributes written as
    ATTR="{{ x|e }}" (PARAM-CLASS) XML attribute value normalization turns them into blanks"""
    ws = f.features.get("ws")
    if f.clause == "structural" and f.features.get("mode") == "altered":
        if ws == "reindented":
            return True
        return ws == "attr-normalized" and f.features.get("key") in ("Comparam.param_class",
                                                                     "ComplexComparam.param_class")
    if f.clause == "idempotence":
        # the reloaded text has the inserted blanks, the second write indents it once more
        return bool(f.features.get("with_ws")) and set(f.features["with_ws"]) <= {"reindented", "attr-normalized"}
    return False


# ---------------------------------------------------------------------------
# generated documents with the snippets of vlib/models/odxsnippets.py (element kinds the shipped
# examples do not contain).  features.where2 = the two innermost open elements at the XML error.
# ---------------------------------------------------------------------------
def _c11_gen_xml(f) -> str:
    c = f.case if isinstance(f.case, dict) else {}
    return c.get("xml", "") if c.get("kind") == "generated" else ""


@predicate("c11_state_chart_semantic_unescaped")
def c11_state_chart_semantic_unescaped(f):
    return _c11(f, "well-formed", "not-well-formed") and f.features.get("where2") == "STATE-CHART/SEMANTIC"


@predicate("c11_external_access_method_dropped")
def c11_external_access_method_dropped(f):
    return _c11_bucket_in(f, "structural", ("StateTransition.external_access_method|dropped",))


@predicate("c11_output_param_duplicate_oid")
def c11_output_param_duplicate_oid(f):
    return (_c11(f, "well-formed", "not-well-formed") and f.features.get("where2") == "OUTPUT-PARAMS/OUTPUT-PARAM"
            and "duplicate attribute" in f.detail)


@predicate("c11_library_text_unescaped")
def c11_library_text_unescaped(f):
    return (_c11(f, "well-formed", "not-well-formed")
            and f.features.get("where2") in tuple("LIBRARY/" + t for t in ("CODE-FILE", "ENCRYPTION", "SYNTAX",
                                                                            "REVISION", "ENTRYPOINT")))


@predicate("c11_related_diag_comm_relation_type_unescaped")
def c11_related_diag_comm_relation_type_unescaped(f):
    return (_c11(f, "well-formed", "not-well-formed")
            and f.features.get("where2") == "RELATED-DIAG-COMM-REF/RELATION-TYPE")


@predicate("c11_dyn_defined_spec_writer")
def c11_dyn_defined_spec_writer(f):
    return (_c11(f, "write", "write-raises") and f.features.get("exc") == "UndefinedError"
            and "'pdynspec' is undefined" in f.detail and "<DYN-DEFINED-SPEC>" in _c11_gen_xml(f))


@predicate("c11_diag_variable_writer")
def c11_diag_variable_writer(f):
    x = _c11_gen_xml(f)
    return (_c11(f, "write", "write-raises") and f.features.get("exc") == "UndefinedError"
            and "'pdv' is undefined" in f.detail and ("<DIAG-VARIABLES>" in x or "<VARIABLE-GROUPS>" in x))


@predicate("c11_table_diag_comm_connectors_dropped")
def c11_table_diag_comm_connectors_dropped(f):
    return _c11_bucket_in(f, "structural", ("Table.table_diag_comm_connectors|dropped",))


@predicate("c11_dtc_connector_snref_tag")
def c11_dtc_connector_snref_tag(f):
    # the DTC-SNREF of a DTC-CONNECTOR is written as DOP-SNREF: the parser's odxrequire() raises a bare OdxError
    return (_c11(f, "reload", "reload-raises") and f.features.get("exc") == "OdxError"
            and f.detail.rstrip().endswith("raised OdxError:") and "<DTC-CONNECTOR>" in _c11_gen_xml(f))


@predicate("c11_empty_long_name_dropped")
def c11_empty_long_name_dropped(f):
    return (_c11(f, "structural", "altered") and f.features.get("key", "").endswith(".long_name")
            and f.features.get("key") != "TableRow.long_name"
            and f.features.get("a") == "''" and f.features.get("b") == "None")
