"""Known-finding predicates of C10 (see known_findings.json)."""
from vlib.known import predicate

_ADMIN_RKS = ("COMPANY-DATA-REF", "TEAM-MEMBER-REF", "DOC-REVISION/TEAM-MEMBER-REF")


@predicate("c10_dop_admin_data_unresolved")
def c10_dop_admin_data_unresolved(f) -> bool:
    """a COMPANY-DATA-REF / TEAM-MEMBER-REF inside the ADMIN-DATA of a DATA-OBJECT-PROP was never
    resolved: the resolved attribute does not exist after loading (AttributeError), whether the
    reference is valid (wrong-target) or dangling (must-raise); same after refresh() in the history"""
    ft = f.features
    p = ft.get("site_path") or []
    return f.clause in ("wrong-target", "must-raise", "history-wrong-target", "history-must-raise") and \
        ft.get("rk") in _ADMIN_RKS and len(p) >= 3 and p[0] == "dops" and p[2] == "admin" and \
        ft.get("bound") is None and "AttributeError" in str(ft.get("note"))
