"""One module per builder/property; every module here is imported by vlib.known so that predicates
live in separate files (several builders edit concurrently)."""
