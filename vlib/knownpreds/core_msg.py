"""known-finding predicates of the message-level checks (C01-C05, C08, C17)"""
from vlib.known import predicate


def _strip_key(o, key, repl=None, drop=False):
    if isinstance(o, dict):
        out = {}
        for k, v in o.items():
            if k == key:
                if drop:
                    continue
                out[k] = repl
            else:
                out[k] = _strip_key(v, key, repl, drop)
        return out
    if isinstance(o, list):
        return [_strip_key(v, key, repl, drop) for v in o]
    return o


@predicate("c08_condensed_mask_static_length")
def c08_condensed_mask_static_length(f) -> bool:
    """standardlengthtype.py: get_static_bit_length() of a condensed BIT-MASK is the number of set mask bits,
    the encoder/decoder use BIT-LENGTH bits on the wire (both behaviours are pinned by tests/test_encoding.py::
    test_condensed_bit_mask).  Counterfactual predicate: the static-length failure must disappear when
    IS-CONDENSED is removed from the case."""
    if f.clause not in ("message-static-length", "object-static-length", "structure-static-length"):
        return False
    from vlib import core
    if '"cond":true' not in core.canon(f.case):
        return False
    from vlib.checks import c08
    return not c08.eval_case(_strip_key(core.plain(f.case), "cond", False))


@predicate("c04_bitmask_truncates")
def c04_bitmask_truncates(f) -> bool:
    """standardlengthtype.py: a value with bits outside BIT-MASK is silently masked before the range check
    (pinned by tests/test_encoding.py::test_bit_mask which encodes 0x4568 through mask 0xf00f).
    Counterfactual predicate: the failure must disappear when the BIT-MASKs are removed from the case."""
    if f.clause != "silent-misrepresentation":
        return False
    from vlib import core
    if '"mask":' not in core.canon(f.case):
        return False
    from vlib.checks import c04
    return not c04.eval_case(_strip_key(core.plain(f.case), "mask", drop=True))


@predicate("c03_nrc_const_not_reencodable")
def c03_nrc_const_not_reencodable(f) -> bool:
    """nrcconstparameter.py: decode reports the value found at an NRC-CONST parameter, encode rejects any
    value for it ("cannot be set directly"), so a decoded negative response cannot be re-encoded as is."""
    return (f.clause in ("reencode-raises", "service-reencode-raises")
            and "NRC-CONST parameters cannot be set directly" in f.detail
            and "nrc" in (f.features.get("features") or []))
