"""Reference model of ISO 15765-2 (ISO-TP over CAN / CAN-FD, normal addressing).

Nothing in here imports odxtools.  Three parts:

* a *segmenter* (`segment`): telegram -> list of CAN frame payloads, the way a
  conforming sender produces them (single frame, CAN-FD single frame with the
  length escape, first frame with 12 bit length, consecutive frames with
  sequence numbers 1..15,0,1,..., optional/mandatory padding);
* *renderers* for the three candump text formats that
  `IsoTpStateMachine.read_telegrams` accepts (`render_line`);
* a *justification acceptor* (`Justifier`) for property C13: given the frames
  received so far on one CAN id, is a reported telegram explained by them?
  The acceptor is deliberately permissive (it admits both recovery policies
  "ignore the bad frame" and "abort the transfer"), see the class docstring.
"""
from __future__ import annotations

from typing import Iterable, Optional, Sequence

# payload sizes a CAN-FD frame can have (DLC 0..15)
FD_FRAME_SIZES = (0, 1, 2, 3, 4, 5, 6, 7, 8, 12, 16, 20, 24, 32, 48, 64)
# TX_DL values of ISO 15765-2:2016 (8 = classic CAN or FD restricted to 8 bytes)
TX_DLS = (8, 12, 16, 20, 24, 32, 48, 64)
FD_DEFAULT_PAD = 0xCC

SF, FF, CF, FC = 0, 1, 2, 3


def next_frame_size(n: int) -> int:
    for s in FD_FRAME_SIZES:
        if s >= n:
            return s
    raise ValueError(f"no CAN-FD frame holds {n} bytes")


# ---------------------------------------------------------------------------
# payload specifications (JSON-able, compact for long telegrams)
# ---------------------------------------------------------------------------
def payload_from_spec(spec) -> bytes:
    """["hex", "<hex string>"]  or  ["pat", n, a, s, "<tail hex>"]:
    n bytes (a + i*s) mod 256 whose last len(tail) bytes are replaced by tail."""
    if spec[0] == "hex":
        return bytes.fromhex(spec[1])
    if spec[0] == "pat":
        _, n, a, s, tail = spec
        body = bytearray((a + i * s) & 0xFF for i in range(n))
        t = bytes.fromhex(tail)[:n]
        if t:
            body[n - len(t):] = t
        return bytes(body)
    raise ValueError(f"bad payload spec {spec!r}")


# ---------------------------------------------------------------------------
# segmenter
# ---------------------------------------------------------------------------
def _pad(frame: bytes, size: int, value: int) -> bytes:
    return frame + bytes([value]) * (size - len(frame)) if len(frame) < size else frame


def sf_capacity(tx_dl: int) -> int:
    """longest telegram that is sent as a single frame (normal addressing)"""
    return 7 if tx_dl == 8 else tx_dl - 2


def segment(payload: bytes, tx_dl: int = 8, pad: Optional[int] = None, full: bool = False) -> list:
    """ISO 15765-2 segmentation of one telegram of 1..4095 bytes.

    tx_dl  8 (classic CAN) or one of the CAN-FD sizes.
    pad    None: classic frames are sent with their natural length, CAN-FD frames longer than 8
           bytes are padded to the next valid frame size with 0xCC (padding is mandatory there);
           int: padding byte, classic frames are padded to 8 bytes.
    full   pad short CAN-FD frames (> 8 bytes) up to tx_dl instead of the next valid size.
    """
    n = len(payload)
    if not 1 <= n <= 4095:
        raise ValueError("telegram length outside 1..4095")
    if tx_dl not in TX_DLS:
        raise ValueError("bad tx_dl")
    fdpad = FD_DEFAULT_PAD if pad is None else pad

    def finish(frame: bytes) -> bytes:
        if len(frame) <= 8:
            return _pad(frame, 8, pad) if pad is not None else frame
        return _pad(frame, tx_dl if full else next_frame_size(len(frame)), fdpad)

    if n <= 7:
        return [finish(bytes([n]) + payload)]
    if tx_dl > 8 and n <= tx_dl - 2:
        # CAN-FD single frame: low nibble 0, length in the second byte (frame is > 8 bytes long)
        return [finish(bytes([0x00, n]) + payload)]
    frames = [bytes([0x10 | (n >> 8), n & 0xFF]) + payload[:tx_dl - 2]]
    pos = tx_dl - 2
    sn = 1
    while pos < n:
        chunk = payload[pos:pos + tx_dl - 1]
        pos += len(chunk)
        fr = bytes([0x20 | sn]) + chunk
        frames.append(finish(fr) if pos >= n else fr)
        sn = (sn + 1) % 16
    return frames


def frame_kind(data: bytes) -> Optional[int]:
    """PCI type nibble of a frame, None for an empty frame"""
    if len(data) == 0:
        return None
    return data[0] >> 4


def is_fd_escape_sf(data: bytes) -> bool:
    return len(data) > 8 and data[0] == 0x00


def n_frames(n: int, tx_dl: int = 8) -> int:
    if n <= sf_capacity(tx_dl):
        return 1
    rest = n - (tx_dl - 2)
    return 1 + -(-rest // (tx_dl - 1))


def flow_control(flag: int = 0, bs: int = 0, stmin: int = 0, pad: Optional[int] = None) -> bytes:
    fr = bytes([0x30 | flag, bs, stmin])
    return _pad(fr, 8, pad) if pad is not None else fr


# ---------------------------------------------------------------------------
# candump text renderers
# ---------------------------------------------------------------------------
FORMATS = ("candump", "log", "fdlog")


def admissible_format(fmt: str, data: bytes) -> str:
    """classic log lines (id#data) carry at most 8 bytes; longer frames are written as id##<flags>data.
    Empty frames stay in whatever format was asked for (none of the accepted formats can express them)."""
    if fmt == "log" and len(data) > 8:
        return "fdlog"
    return fmt


def render_line(fmt: str, can_id: int, data: bytes, iface: str = "vcan0", ts: str = "1700000000.000000",
                upper: bool = True, gap: int = 2, flags: int = 1, ext: Optional[bool] = None) -> str:
    """one line of candump output (without newline)

    candump  `  vcan0  7E0   [8]  02 10 03 AA AA AA AA AA`      (candump <iface>)
    log      `(1700000000.000000) vcan0 7E0#021003AAAAAAAAAA`     (candump -l / -L, classic frame)
    fdlog    `(1700000000.000000) vcan0 7E0##1021003...`          (candump -l / -L, CAN-FD frame)
    """
    if ext is None:
        ext = can_id > 0x7FF
    ids = f"{can_id:08X}" if ext else f"{can_id:03X}"
    hx = data.hex().upper()
    if not upper:
        ids, hx = ids.lower(), hx.lower()
    if fmt == "candump":
        sp = " " * gap
        cells = " ".join(hx[i:i + 2] for i in range(0, len(hx), 2))
        ln = f"[{len(data):02d}]" if len(data) > 8 else f"[{len(data)}]"
        return f"{sp}{iface}{sp}{ids}{sp} {ln}{sp}{cells}"
    if fmt == "log":
        return f"({ts}) {iface} {ids}#{hx}"
    if fmt == "fdlog":
        return f"({ts}) {iface} {ids}##{flags:X}{hx}"
    raise ValueError(fmt)


def line_is_parseable(data: bytes) -> bool:
    """every accepted format needs at least one data byte; a zero-length frame has no accepted rendering"""
    return len(data) > 0


# ---------------------------------------------------------------------------
# C13: justification acceptor
# ---------------------------------------------------------------------------
class Justifier:
    """Frames received so far on ONE CAN id; decides whether a telegram reported while
    processing the most recent frame is *justified* (property C13 clause b).

    A telegram T reported at frame j is justified iff one of

    SF   frame j is a single frame and T is its payload.  Admitted payloads: classic reading
         `d[1:1+(d[0]&15)]` (if the frame is shorter than announced: whatever is there), and the
         CAN-FD reading `d[2:2+d[1]]` when the low nibble is 0.
    FF   frame j is a first frame whose own data already covers the announced length and T is
         that prefix (no consecutive frame needed).
    CF   frame j is a consecutive frame; F is the most recent well-formed first frame before j on
         this id (a new first frame always supersedes an older transfer); there is a subsequence
         of the consecutive frames after F that ends with frame j and carries the sequence numbers
         1,2,..,15,0,1,.. ; T is the first `announced` bytes of F's data followed by the data of
         these frames, and there are at least `announced` such bytes.  Frames in between that are
         not part of the subsequence are the ones a receiver may have ignored (policy "ignore
         the bad frame"); a receiver that aborts instead reports fewer telegrams, which the
         acceptor never objects to.  For a first frame with 12-bit length 0 and >= 6 bytes the
         32-bit length reading of CAN-FD (`d[2:6]`, data from byte 6) is admitted as well.

    Each first frame justifies at most one telegram (`used`).
    """

    def __init__(self) -> None:
        self.frames: list = []
        self.last_ff: Optional[int] = None    # index of the most recent well-formed first frame
        self.used = False                     # has it already justified a telegram?
        self.completed_once = False           # any telegram justified by a first frame so far
        self.seen_ff = False

    def feed(self, data: bytes) -> None:
        data = bytes(data)
        self.frames.append(data)
        if frame_kind(data) == FF and len(data) >= 2:
            self.last_ff = len(self.frames) - 1
            self.used = False
            self.seen_ff = True

    # -- readings ---------------------------------------------------------
    @staticmethod
    def sf_payloads(d: bytes) -> list:
        out = []
        n = d[0] & 0x0F
        out.append(d[1:1 + n])
        if n == 0 and len(d) >= 2:
            out.append(d[2:2 + d[1]])
        return out

    @staticmethod
    def ff_readings(d: bytes) -> list:
        """[(announced_len, first frame data)]"""
        n = ((d[0] & 0x0F) << 8) | d[1]
        out = [(n, d[2:])]
        if n == 0 and len(d) >= 6:
            out.append((int.from_bytes(d[2:6], "big"), d[6:]))
        return out

    def _cf_justified(self, t: bytes) -> bool:
        i, j = self.last_ff, len(self.frames) - 1
        assert i is not None
        for n, ffdata in self.ff_readings(self.frames[i]):
            if len(t) != n:
                continue
            if t[:len(ffdata)] != ffdata[:n]:
                continue
            states = {(1, min(n, len(ffdata)))}
            for k in range(i + 1, j + 1):
                d = self.frames[k]
                if frame_kind(d) != CF:
                    continue
                sn, chunk = d[0] & 0x0F, d[1:]
                new = set()
                for (s, off) in states:
                    if s != sn:
                        continue
                    if t[off:off + len(chunk)] == chunk[:n - off]:
                        new.add(((s + 1) % 16, min(n, off + len(chunk))))
                if k == j:
                    return any(off >= n for (_, off) in new)
                states |= new
        return False

    def judge(self, t: bytes) -> str:
        """'ok' | 'ok-ff' (justified by the first frame, now used) | 'twice' | 'unjustified'"""
        t = bytes(t)
        d = self.frames[-1]
        k = frame_kind(d)
        if k == SF:
            return "ok" if t in self.sf_payloads(d) else "unjustified"
        if k == FF and len(d) >= 2 and self.last_ff == len(self.frames) - 1:
            for n, ffdata in self.ff_readings(d):
                if len(ffdata) >= n and t == ffdata[:n]:
                    if self.used:
                        return "twice"
                    self.used = True
                    self.completed_once = True
                    return "ok-ff"
            return "unjustified"
        if k == CF and self.last_ff is not None:
            if self._cf_justified(t):
                if self.used:
                    return "twice"
                self.used = True
                self.completed_once = True
                return "ok-ff"
        return "unjustified"
