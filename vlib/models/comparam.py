"""Reference model of communication-parameter resolution (C15).  No odxtools import.

IR (inside the hierarchy IR of hier_xml.py):

    hier["subset"] = {"name": "SUB", "simple": {short_name: default},
                      "complex": {short_name: [[sub_short_name, default] | {"name":..., "subs": [[sn, default],...]}, ...]}}
    layer["comparams"] = [ {"param": short_name, "protocol": None | protocol layer name,
                            "form": "VALUE" | "SIMPLE" | "COMPLEX",
                            "value": str | None | [str | None, ...], "uid": str}, ... ]

Semantics modelled (property statement + the docstring of
HierarchyElement._compute_available_commmunication_parameters):

* the effective set of a layer is keyed by (parameter, protocol qualifier); it is filled from the
  parents in order of increasing inheritance priority and finally from the layer's own COMPARAM-REFs,
  so closer layers and higher-priority parents override per key;
* two parents of *equal* priority offering different instances for one key are ambiguous: either is
  accepted;
* a PROT-STACK-SNREF of a COMPARAM-REF ("prot_stack") does not take part in the override key
  ("overridden per parameter and protocol");
* the entries of a COMPLEX-VALUE map positionally to the sub-parameters in document order, a nested
  COMPLEX-COMPARAM occupying one slot (its value is a nested list);
* ECU-SHARED-DATA layers carry no communication parameters;
* lookup by name and protocol P: the instance qualified with P if one is effective, else the
  unqualified one, else none; lookup without protocol ("don't care"): any effective instance of that name;
* content of a simple instance: its value, or the PHYSICAL-DEFAULT-VALUE of the parameter when the value
  is empty; content of a sub-value: the sub-value, or the default of the sub-parameter when empty.
"""
from __future__ import annotations

import re

from vlib.models.inherit import PRIORITY

# accessor -> (parameter short name, sub-parameter | None, conversion)
ACCESSORS = {
    "get_can_receive_id": ("CP_UniqueRespIdTable", "CP_CanPhysReqId", "int"),
    "get_can_send_id": ("CP_UniqueRespIdTable", "CP_CanRespUSDTId", "int"),
    "get_doip_logical_ecu_address": ("CP_UniqueRespIdTable", "CP_DoIPLogicalEcuAddress", "int"),
    "get_can_func_req_id": ("CP_CanFuncReqId", None, "int"),
    "get_can_baudrate": ("CP_Baudrate", None, "int"),
    "get_doip_logical_gateway_address": ("CP_DoIPLogicalGatewayAddress", None, "int"),
    "get_doip_logical_tester_address": ("CP_DoIPLogicalTesterAddress", None, "int"),
    "get_doip_logical_functional_address": ("CP_DoIPLogicalFunctionalAddress", None, "int"),
    "get_doip_routing_activation_timeout": ("CP_DoIPRoutingActivationTimeout", None, "us"),
    "get_doip_routing_activation_type": ("CP_DoIPRoutingActivationType", None, "int"),
    "get_tester_present_time": ("CP_TesterPresentTime", None, "us"),
}
SIMPLE_NAMES = sorted({v[0] for v in ACCESSORS.values() if v[1] is None} | {"CP_CANFDTxMaxDataLength", "CP_CANFDBaudrate"})
COMPLEX_NAME = "CP_UniqueRespIdTable"
SUB_NAMES = ["CP_CanPhysReqId", "CP_CanRespUSDTId", "CP_DoIPLogicalEcuAddress"]


# Recorded defects that can be emulated so that a failure can be attributed to exactly one root cause
# (used only to *label* failures for the known-finding predicates, never to accept them):
#   generic-first   get_comparam(name, protocol=P) returns whichever of the P-qualified and the unqualified
#                   instance comes first in comparam_refs
#   raw-value       get_can_baudrate / get_can_fd_baudrate / get_max_can_payload_size / uses_can_fd read
#                   ComparamInstance.value instead of get_value(): an empty value is not replaced by the default
#   empty-subvalue  an empty SIMPLE-VALUE inside COMPLEX-VALUE is returned as "" instead of the sub-parameter default
EMULATIONS = ["generic-first", "raw-value", "empty-subvalue"]
RAW_ACCESSORS = ("get_can_baudrate", "get_can_fd_baudrate", "get_max_can_payload_size")


def sub_names(subs: list) -> list:
    """short names of the sub-parameters of a complex parameter in document order; an entry is
    [short_name, default] (simple) or {"name": ..., "subs": [[short_name, default], ...]} (nested complex)"""
    return [e["name"] if isinstance(e, dict) else e[0] for e in subs]


def _conv(content, conv):
    """outcome of int()/float()/1e6 on the content: ("ok", number) or ("exc", "ValueError")"""
    if content is None:
        return ("ok", None)
    try:
        return ("ok", int(content) if conv == "int" else float(content) / 1e6)
    except ValueError:
        return ("exc", "ValueError")


class CPModel:

    def __init__(self, hier: dict):
        self.hier = hier
        self.layers = {l["name"]: l for l in hier["layers"]}
        self.subset = hier["subset"]
        self._eff: dict = {}

    # ---- effective set ---------------------------------------------------------------
    def effective(self, lname: str) -> dict:
        """{(param, protocol) -> [acceptable instances]} (instances are the IR dicts)"""
        if lname in self._eff:
            return self._eff[lname]
        layer = self.layers[lname]
        res: dict = {}
        if layer["type"] != "ECU-SHARED-DATA":
            by_prio: dict = {}
            for p in layer.get("parents", []):
                pl = self.layers[p["layer"]]
                by_prio.setdefault(PRIORITY[pl["type"]], []).append(pl["name"])
            for prio in sorted(by_prio):
                group: dict = {}
                for pn in by_prio[prio]:
                    for key, insts in self.effective(pn).items():
                        g = group.setdefault(key, [])
                        for i in insts:
                            if all(i["uid"] != o["uid"] for o in g):
                                g.append(i)
                res.update(group)
            for cp in layer.get("comparams", []):
                res[(cp["param"], cp.get("protocol"))] = [cp]
        self._eff[lname] = res
        return res

    # ---- lookup ------------------------------------------------------------------------
    def lookup(self, lname: str, param: str, protocol, emul=()) -> list:
        """acceptable instances for get_comparam(param, protocol=protocol); [] = None expected"""
        eff = self.effective(lname)
        if protocol is not None:
            gen = eff.get((param, None), [])
            if (param, protocol) in eff:
                return eff[(param, protocol)] + (gen if "generic-first" in emul else [])
            return gen
        out = []
        for (p, _q), insts in eff.items():
            if p == param:
                out += insts
        return out

    # ---- content -------------------------------------------------------------------------
    def value(self, inst: dict, raw: bool = False) -> str:
        v = inst["value"]
        if v is None or v == "":
            return "" if raw else self.subset["simple"][inst["param"]]
        return v

    def subvalue(self, inst: dict, sub: str, emul=()):
        """content of a sub-value, None when the parameter has no such sub-parameter"""
        subs = self.subset["complex"][inst["param"]]
        names = sub_names(subs)
        if sub not in names:
            return None
        idx = names.index(sub)     # positional mapping in document order (nested complex entries count as one slot)
        assert not isinstance(subs[idx], dict), "only simple sub-parameters are looked up"
        v = inst["value"][idx]
        if v is None or v == "":
            return "" if "empty-subvalue" in emul else subs[idx][1]
        return v

    def relies_on_default(self, inst: dict, sub=None) -> bool:
        if sub is None:
            return inst["value"] in (None, "")
        names = sub_names(self.subset["complex"][inst["param"]])
        return sub in names and inst["value"][names.index(sub)] in (None, "")

    # ---- typed accessors: sets of acceptable outcomes ("ok", value) | ("exc", type name) ----------
    def accessor(self, lname: str, acc: str, protocol, emul=()) -> list:
        if acc == "get_max_can_payload_size":
            return self._max_can_payload_size(lname, protocol, emul)
        if acc == "get_can_fd_baudrate":
            return self._can_fd_baudrate(lname, protocol, emul)
        param, sub, conv = ACCESSORS[acc]
        insts = self.lookup(lname, param, protocol, emul)
        if not insts:
            return [("ok", None)]
        raw = "raw-value" in emul and acc in RAW_ACCESSORS
        out = []
        for i in insts:
            c = self.value(i, raw) if sub is None else self.subvalue(i, sub, emul)
            r = _conv(c, conv)
            if r not in out:
                out.append(r)
        return out

    def _max_can_payload_size(self, lname: str, protocol, emul=()) -> list:
        insts = self.lookup(lname, "CP_CANFDTxMaxDataLength", protocol, emul)
        if not insts:
            out = []
            for r in self.accessor(lname, "get_can_receive_id", protocol, emul):
                r2 = r if r[0] == "exc" else ("ok", None if r[1] is None else 8)
                if r2 not in out:
                    out.append(r2)
            return out
        out = []
        for i in insts:
            mm = re.search(r"TX_DL *= *([0-9]+)", self.value(i, "raw-value" in emul))
            r = ("ok", int(mm.group(1)) if mm else 8)    # 8 only reachable under raw-value emulation
            assert mm or "raw-value" in emul, "generator only produces TX_DL=<n> contents"
            if r not in out:
                out.append(r)
        return out

    def _can_fd_baudrate(self, lname: str, protocol, emul=()):
        """acceptable outcomes, or None when nothing is asserted.  Asserted are only: no CAN receive id
        -> None (documented: "not using CAN-FD -> None", CAN-FD implies CAN); receive id present and the
        content of CP_CANFDTxMaxDataLength says CANFD -> numeric content of CP_CANFDBaudrate (None if absent)"""
        raw = "raw-value" in emul
        rx = self.accessor(lname, "get_can_receive_id", protocol, emul)
        if rx == [("ok", None)]:
            return [("ok", None)]
        if any(r[0] == "exc" for r in rx):
            return sorted(set(r for r in rx if r[0] == "exc")) if emul else None
        if ("ok", None) in rx:
            return None
        dl = self.lookup(lname, "CP_CANFDTxMaxDataLength", protocol, emul)
        if not dl:
            return None
        flags = ["CANFD" in self.value(i, raw) for i in dl]
        if not emul and not all(flags):
            return None
        out = []
        if emul and not all(flags):
            out.append(("ok", None))       # emulated implementation: "not CAN-FD" -> None
            if not any(flags):
                return out
        insts = self.lookup(lname, "CP_CANFDBaudrate", protocol, emul)
        if not insts:
            return out + [("ok", None)] if ("ok", None) not in out else out
        for i in insts:
            r = _conv(self.value(i, raw), "int")
            if r not in out:
                out.append(r)
        return out

    def explain(self, lname: str, acc: str, protocol, outcome, active=None):
        """union of all smallest sets of emulated recorded defects under which `outcome` is produced
        (sorted list of emulation ids), or None when no emulation reproduces it; only the emulations in
        `active` (those whose finding is still recorded in known_findings.json) are considered"""
        import itertools
        ems = [e for e in EMULATIONS if active is None or e in active]
        for k in range(1, len(ems) + 1):
            found = set()
            for combo in itertools.combinations(ems, k):
                acc_out = self.accessor(lname, acc, protocol, combo)
                if acc_out is not None and outcome in acc_out:
                    found |= set(combo)
            if found:
                return sorted(found)
        return None
