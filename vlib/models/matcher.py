"""C14 — reference model of ECU / base variant identification.

Everything here is independent of odxtools (no import of it):

* a small JSON-able description IR ("cfg"): response layouts made of one-byte
  coded constants, typed leaves, structures and fields; identification services
  (constant request bytes, positive / negative responses); a common layer and
  the candidate variants with their patterns and matching parameters;
* `to_xml(cfg)`: the ODX document for that description (loaded by the check with
  `Database().add_odx_file(io.BytesIO(xml))`);
* a reference wire codec for the layouts (`encode_layout` / `decode_layout`);
* the simulated ECU: a total function request bytes -> response bytes (`ecu_answer`);
* the reference matcher `ref_match`: first candidate in list order having a
  pattern all of whose matching parameters' expected values equal the value decoded
  from the ECU's answer at the referenced path (any item for fields).

Value model (kept where equality is unambiguous):

  leaf type  wire                         decoded value   EXPECTED-VALUE that equals it
  u8 / u16   1 / 2 bytes big endian       int             canonical decimal ("34")
  str        2 bytes ISO-8859-1           str             the same string, case-sensitive, blanks significant
  bytes      2 bytes                      bytes           its hex digits, either case ("12AB", "12ab")
  f32        IEEE-754 single, big endian  float           a decimal numeral of the same number ("1.5", "1.50")
  dtc        2 bytes big endian, DTC-DOP  trouble code    "0x" + hex digits of the code, either case
  lstr       length byte + ISO-8859-1     str (may be "") the same string (EXPECTED-VALUE may be empty)
  lbytes     length byte + bytes          bytes (may be b"") its hex digits (EXPECTED-VALUE may be empty)

Every numeric alphabet contains the falsy value (0, 0.0) and the variable-length types the
empty value, so that "value is falsy" and "parameter is absent" can be told apart.

The name of a leaf fixes its type (NAME_TYPE), so the type of the value at a
path is the same in every layout in which the path resolves.
"""
from __future__ import annotations

import re
import struct

# ---------------------------------------------------------------------------
# vocabulary
# ---------------------------------------------------------------------------
LEAF_SIZE = {"u8": 1, "u16": 2, "str": 2, "bytes": 2, "f32": 4, "dtc": 2, "lstr": None, "lbytes": None}
# "lstr" / "lbytes": LEADING-LENGTH-INFO-TYPE (8 bit byte count, then the content); they make the empty
# string and the empty byte field (falsy decoded values) expressible.  Not allowed inside field items.
NAME_TYPE = {
    "id": "u8", "ver": "u8", "nrc": "u8", "gnrc": "u8", "rsid": "u8",
    "num": "u16",
    "name": "str", "type": "str",
    "raw": "bytes",
    "val": "f32",
    "dtc": "dtc",
    "txt": "lstr",
    "blob": "lbytes",
}
STRUCT_NAMES = ["info", "blk", "sub"]
FIELD_NAMES = ["items", "arr", "lst", "tail"]

VALUES = {
    "u8": [5, 34, 200, 0],
    "u16": [5, 34, 4660, 0],
    "str": ["AB", "CD", "ab", "A ", " B"],
    "bytes": [b"\x12\xab", b"\x00\xff", b"\x34\x00"],
    "f32": [0.5, 1.5, -2.0, 0.0],
    "dtc": [0x1234, 0xABCD, 0x10],
    "lstr": ["", "AB", "xyz", "A B", "AB ", " "],
    "lbytes": [b"", b"\x12\xab", b"\x00"],
}
# expected values (XML text) per leaf type; every entry either denotes exactly one
# alphabet value or none ("7", "EF", "ZZ", ...)
EXPECTED = {
    "u8": ["5", "34", "200", "0", "7", "ZZ"],
    "u16": ["5", "34", "4660", "0", "7", "ZZ"],
    "str": ["AB", "CD", "ab", "A ", " B", "A", "B ", "EF", "ZZ"],
    "bytes": ["12AB", "12ab", "00FF", "00ff", "3400", "ABCD", "ZZ"],
    "f32": ["0.5", "1.5", "-2.0", "-2", "1.50", "0.0", "0", "0.75"],
    "dtc": ["0x1234", "0xABCD", "0xabcd", "0x10", "0X1234", "0x77", "ZZ"],
    "lstr": ["", "AB", "xyz", "A B", "AB ", " ", " AB", "ZZ"],
    "lbytes": ["", "12AB", "12ab", "00", "ZZ"],
}
DTC_TABLE = {0x1234: "dA", 0xABCD: "dB", 0x10: "dC"}


class ModelError(Exception):
    """the description or the case is outside the modelled envelope (generator bug)"""


def is_leaf(n):
    return n["t"] in LEAF_SIZE


# ---------------------------------------------------------------------------
# expected value <-> decoded value
# ---------------------------------------------------------------------------
_INT = re.compile(r"-?(0|[1-9][0-9]*)\Z")
_HEX = re.compile(r"([0-9A-Fa-f]{2})*\Z")
_DTC = re.compile(r"0[xX]([1-9A-Fa-f][0-9A-Fa-f]*)\Z")
_FLT = re.compile(r"-?[0-9]+(\.[0-9]+)?\Z")


def parse_expected(t: str, exp: str):
    """the value an EXPECTED-VALUE text denotes for leaf type t, or None (denotes no value)"""
    if t in ("u8", "u16"):
        return int(exp) if _INT.match(exp) else None
    if t in ("str", "lstr"):
        return exp
    if t in ("bytes", "lbytes"):
        return bytes.fromhex(exp) if _HEX.match(exp) else None
    if t == "f32":
        if not _FLT.match(exp):
            raise ModelError(f"expected value {exp!r} for a float leaf is outside the envelope")
        return float(exp)
    if t == "dtc":
        m = _DTC.match(exp)
        return int(m.group(1), 16) if m else None
    raise ModelError(t)


def value_equals(t: str, exp: str, v) -> bool:
    want = parse_expected(t, exp)
    if want is None:
        return False
    if t == "f32":
        return v == v and want == v          # NaN never equals
    if t in ("bytes", "lbytes"):
        return bytes(v) == want
    return want == v


# ---------------------------------------------------------------------------
# reference wire codec of the layouts
# ---------------------------------------------------------------------------
def _enc_leaf(t, v) -> bytes:
    if t == "u8":
        return bytes([v])
    if t in ("u16", "dtc"):
        return int(v).to_bytes(2, "big")
    if t == "str":
        b = v.encode("iso-8859-1")
        if len(b) != 2:
            raise ModelError("strings are two characters")
        return b
    if t == "bytes":
        if len(v) != 2:
            raise ModelError("byte fields are two bytes")
        return bytes(v)
    if t == "f32":
        return struct.pack(">f", v)
    if t == "lstr":
        b = v.encode("iso-8859-1")
        return bytes([len(b)]) + b
    if t == "lbytes":
        return bytes([len(v)]) + bytes(v)
    raise ModelError(t)


def _dec_leaf(t, b: bytes):
    if t == "u8":
        return b[0]
    if t in ("u16", "dtc"):
        return int.from_bytes(b, "big")
    if t == "str":
        return b.decode("iso-8859-1")
    if t == "bytes":
        return bytes(b)
    if t == "f32":
        return struct.unpack(">f", b)[0]
    raise ModelError(t)


def static_size(nodes) -> int:
    n = 0
    for p in nodes:
        t = p["t"]
        if t == "const":
            n += 1
        elif t in LEAF_SIZE:
            if LEAF_SIZE[t] is None:
                raise ModelError(f"{t} has no static size")
            n += LEAF_SIZE[t]
        elif t == "struct":
            n += static_size(p["ps"])
        elif t == "sfield":
            n += p["count"] * static_size(p["ps"])
        else:
            raise ModelError(f"{t} has no static size")
    return n


def encode_nodes(nodes, values) -> bytes:
    out = b""
    for p in nodes:
        t = p["t"]
        if t == "const":
            out += bytes([p["v"]])
        elif t in LEAF_SIZE:
            out += _enc_leaf(t, values[p["n"]])
        elif t == "struct":
            out += encode_nodes(p["ps"], values[p["n"]])
        elif t == "sfield":
            items = values[p["n"]]
            if len(items) != p["count"]:
                raise ModelError("static field item count")
            for it in items:
                out += encode_nodes(p["ps"], it)
        elif t == "dlfield":
            items = values[p["n"]]
            out += bytes([len(items)])
            for it in items:
                out += encode_nodes(p["ps"], it)
        elif t == "eopf":
            for it in values[p["n"]]:
                out += encode_nodes(p["ps"], it)
        else:
            raise ModelError(t)
    return out


class _No(Exception):
    pass


class _Amb(Exception):
    pass


def _dec_nodes(nodes, data: bytes, pos: int, lenient: bool):
    res = {}
    for p in nodes:
        t = p["t"]
        if t == "const":
            if pos + 1 > len(data):
                raise _No("short")
            if data[pos] != p["v"] and not lenient:
                raise _No("const")
            res[p["n"]] = data[pos]
            pos += 1
        elif t in ("lstr", "lbytes"):
            if pos + 1 > len(data):
                raise _No("short")
            n = data[pos]
            if pos + 1 + n > len(data):
                raise _No("short")
            raw = bytes(data[pos + 1:pos + 1 + n])
            res[p["n"]] = raw.decode("iso-8859-1") if t == "lstr" else raw
            pos += 1 + n
        elif t in LEAF_SIZE:
            sz = LEAF_SIZE[t]
            if pos + sz > len(data):
                raise _No("short")
            v = _dec_leaf(t, data[pos:pos + sz])
            if t == "dtc" and v not in DTC_TABLE:
                raise _No("dtc-unknown")
            res[p["n"]] = v
            pos += sz
        elif t == "struct":
            res[p["n"]], pos = _dec_nodes(p["ps"], data, pos, lenient)
        elif t == "sfield":
            items = []
            for _ in range(p["count"]):
                it, pos = _dec_nodes(p["ps"], data, pos, lenient)
                items.append(it)
            res[p["n"]] = items
        elif t == "dlfield":
            if pos + 1 > len(data):
                raise _No("short")
            cnt = data[pos]
            pos += 1
            items = []
            for _ in range(cnt):
                it, pos = _dec_nodes(p["ps"], data, pos, lenient)
                items.append(it)
            res[p["n"]] = items
        elif t == "eopf":
            items = []
            while pos < len(data):
                try:
                    it, pos = _dec_nodes(p["ps"], data, pos, lenient)
                except _No as e:
                    if e.args[0] == "short" and not lenient:
                        raise _Amb("partial-item")
                    raise
                items.append(it)
            res[p["n"]] = items
        else:
            raise ModelError(t)
    return res, pos


def decode_layout(nodes, data: bytes, lenient: bool = False):
    """-> ("ok", values) | ("no", reason) | ("amb", reason)

    strict (lenient=False): the layout describes the data iff every coded constant
    has its value and the data is exactly as long as the layout needs; data that is
    longer, or that ends inside an item of an end-of-pdu field, is reported as
    ambiguous (the property does not say what "the decoded value" is then).
    lenient=True reproduces a decoder that ignores constant mismatches and trailing
    bytes; it is only used to attribute a deviation to a recorded root cause.
    """
    try:
        vals, pos = _dec_nodes(nodes, data, 0, lenient)
    except _No as e:
        return "no", e.args[0]
    except _Amb as e:
        return "amb", e.args[0]
    if pos < len(data) and not lenient:
        # the constants matched (else _No): a longer message than described
        return "amb", "trailing"
    return "ok", vals


# ---------------------------------------------------------------------------
# paths
# ---------------------------------------------------------------------------
def leaf_paths(nodes, prefix=()):
    """all (path tuple, leaf type) of the value leaves below nodes"""
    out = []
    for p in nodes:
        t = p["t"]
        if t == "const":
            continue
        if t in LEAF_SIZE:
            out.append((prefix + (p["n"],), t))
        else:
            out.extend(leaf_paths(p["ps"], prefix + (p["n"],)))
    return out


def path_matches(nodes, values, chunks, exp: str, first_item: bool = False, falsy_absent: bool = False,
                 strip_expected: bool = False) -> bool:
    """does the value at the short-name path equal exp (any item for fields)?

    first_item=True is a deliberately different semantics (only the first item of a
    field counts); the check uses it to measure how often "any item" is decisive."""
    if not chunks:
        raise ModelError("empty path")
    node = None
    for p in nodes:
        if p["n"] == chunks[0]:
            node = p
            break
    if node is None:
        return False                       # the path does not resolve in this response
    t = node["t"]
    if t == "const":
        raise ModelError("paths to coded constants are outside the envelope")
    if t in LEAF_SIZE:
        if len(chunks) != 1:
            raise ModelError("path descends into a simple parameter")
        if falsy_absent and not values[node["n"]]:
            return False                   # deliberately wrong semantics, see ref_match(alt=...)
        if strip_expected:
            exp = exp.strip()              # deliberately wrong semantics
        return value_equals(t, exp, values[node["n"]])
    if len(chunks) == 1:
        raise ModelError("path ends at a complex parameter")
    if t == "struct":
        return path_matches(node["ps"], values[node["n"]], chunks[1:], exp, first_item, falsy_absent, strip_expected)
    items = values[node["n"]][:1] if first_item else values[node["n"]]
    return any(path_matches(node["ps"], it, chunks[1:], exp, first_item, falsy_absent, strip_expected) for it in items)


# ---------------------------------------------------------------------------
# description access
# ---------------------------------------------------------------------------
def mp_chunks(mp):
    if mp.get("snref") is not None:
        return [mp["snref"]]
    return mp["snpath"].split(".")


def resolve_service(cfg, variant, sn):
    """identification service named sn as seen from the variant: a service of the
    variant itself shadows the inherited one of the same short name"""
    for s in variant.get("services", []):
        if s["sn"] == sn:
            return s
    for s in cfg["common"]["services"]:
        if s["sn"] == sn:
            return s
    raise ModelError(f"service {sn} not resolvable in {variant['sn']}")


def service_layout_keys(cfg, svc):
    """layouts consulted for an answer to svc: positive, negative, global negative"""
    return list(svc["pos"]) + list(svc["neg"]) + list(cfg["common"].get("gneg", []))


def all_services(cfg):
    out = list(cfg["common"]["services"])
    for v in cfg["variants"]:
        out.extend(v.get("services", []))
    return out


def mp_phys(cfg, mp) -> bool:
    if cfg["kind"] == "base":
        return mp.get("phys") in (None, True)
    return True


# ---------------------------------------------------------------------------
# ECU
# ---------------------------------------------------------------------------
def answer_bytes(cfg, ans) -> bytes:
    k = ans["k"]
    if k == "raw":
        b = bytes(ans["data"])
    else:
        b = encode_nodes(cfg["layouts"][ans["layout"]], ans["v"])
        if k == "mut":
            b = bytes([ans["first"]]) + b[1:]
        elif k == "trunc":
            b = b[:ans["len"]]
        elif k != "resp":
            raise ModelError(k)
    if len(b) == 0:
        raise ModelError("an ECU answer is at least one byte")
    return b


def ecu_answer(cfg, ecu, req: bytes) -> bytes:
    ans = ecu["map"].get(bytes(req).hex())
    if ans is None:
        ans = ecu["default"]
    return answer_bytes(cfg, ans)


# ---------------------------------------------------------------------------
# reference matcher
# ---------------------------------------------------------------------------
def param_matches(cfg, variant, mp, ecu, lenient=False, alt=None):
    """True / False / "amb" """
    svc = resolve_service(cfg, variant, mp["svc"])
    data = ecu_answer(cfg, ecu, bytes(svc["req"]))
    chunks = mp_chunks(mp)
    amb = False
    hit = False
    keys = list(svc["pos"]) if alt == "pos_only" else service_layout_keys(cfg, svc)
    for key in keys:
        nodes = cfg["layouts"][key]
        st, vals = decode_layout(nodes, data, lenient)
        if st == "amb":
            amb = True
        elif st == "ok" and path_matches(nodes, vals, chunks, mp["exp"], first_item=(alt == "first_item"),
                                          falsy_absent=(alt == "falsy_absent"),
                                          strip_expected=(alt == "strip_expected")):
            hit = True
    if amb:
        return "amb"
    return hit


def ident_requests(cfg, order):
    """set of (physical addressing, request bytes) of the candidates' matching parameters"""
    out = set()
    for vi in order:
        v = cfg["variants"][vi]
        for pat in v["patterns"]:
            for mp in pat:
                out.add((mp_phys(cfg, mp), bytes(resolve_service(cfg, v, mp["svc"])["req"])))
    return out


def ref_match(cfg, order, ecu, lenient=False, alt=None):
    """-> dict(match=position in `order` or None, amb=bool, decisive_not_first, last_param_fail, shared)

    Evaluates every matching parameter of every candidate (no short circuit): the
    outcome of the property is a function of the configuration and the ECU only.

    `alt` selects a deliberately WRONG semantics (first_item, any_param, last_match,
    first_pattern, pos_only, falsy_absent, strip_expected); the check compares it with the real one only to classify
    cases in which the corresponding aspect of the property is decisive."""
    amb = False
    match = None
    last_param_fail = False
    for pos, vi in enumerate(order):
        v = cfg["variants"][vi]
        v_match = False
        pats = v["patterns"][:1] if alt == "first_pattern" else v["patterns"]
        for pat in pats:
            rs = [param_matches(cfg, v, mp, ecu, lenient, alt) for mp in pat]
            if "amb" in rs:
                amb = True
                continue
            if not pat:
                raise ModelError("a pattern has at least one matching parameter")
            if (any(rs) if alt == "any_param" else all(rs)):
                v_match = True
            elif len(rs) >= 2 and all(rs[:-1]) and not rs[-1] and match is None and not v_match:
                last_param_fail = True
        if v_match and (match is None or alt == "last_match"):
            match = pos
    users = {}
    for vi in set(order):
        v = cfg["variants"][vi]
        for pat in v["patterns"]:
            for mp in pat:
                users.setdefault(bytes(resolve_service(cfg, v, mp["svc"])["req"]), set()).add(vi)
    shared = any(len(u) >= 2 for u in users.values())
    return {"match": match, "amb": amb, "decisive_not_first": match is not None and match >= 1,
            "last_param_fail": last_param_fail, "shared": shared}


# ---------------------------------------------------------------------------
# validation of a description (envelope)
# ---------------------------------------------------------------------------
def check_cfg(cfg):
    """raise ModelError when the description leaves the envelope the oracle is sound for"""
    if cfg["kind"] not in ("ecu", "base"):
        raise ModelError("kind")
    for key, nodes in cfg["layouts"].items():
        if not nodes or nodes[0]["t"] != "const":
            raise ModelError(f"layout {key} must start with a coded constant")
        _check_nodes(nodes, top=True)
    by_req = {}
    sns = set()
    for s in cfg["common"]["services"]:
        if s["sn"] in sns:
            raise ModelError("duplicate common service name")
        sns.add(s["sn"])
    for s in all_services(cfg):
        if not s["req"]:
            raise ModelError("empty request")
        sig = (tuple(s["pos"]), tuple(s["neg"]))
        if by_req.setdefault(bytes(s["req"]), sig) != sig:
            raise ModelError("services with equal request bytes must share their responses")
        for key in s["pos"]:
            if cfg["layouts"][key][0]["v"] != (s["req"][0] + 0x40) & 0xFF:
                raise ModelError("positive response must start with SID+0x40")
        for key in list(s["neg"]) + list(cfg["common"].get("gneg", [])):
            if cfg["layouts"][key][0]["v"] != 0x7F or static_size(cfg["layouts"][key]) != 3:
                raise ModelError("negative responses are 7F xx yy")
    for v in cfg["variants"]:
        if cfg["kind"] == "base" and len(v["patterns"]) > 1:
            raise ModelError("a base variant has at most one pattern")
        for pat in v["patterns"]:
            if not pat:
                raise ModelError("empty pattern")
            for mp in pat:
                svc = resolve_service(cfg, v, mp["svc"])
                chunks = mp_chunks(mp)
                if (mp.get("snref") is None) == (mp.get("snpath") is None):
                    raise ModelError("exactly one of snref / snpath")
                # the path must be well-formed in every layout in which its head resolves
                for key in service_layout_keys(cfg, svc):
                    _check_path(cfg["layouts"][key], chunks, mp["exp"])


def _check_nodes(nodes, top):
    names = [p["n"] for p in nodes]
    if len(set(names)) != len(names):
        raise ModelError("duplicate short name in a layout level")
    for i, p in enumerate(nodes):
        t = p["t"]
        if t == "const":
            if not top:
                raise ModelError("constants only at top level")
        elif t in LEAF_SIZE:
            if NAME_TYPE.get(p["n"]) != t:
                raise ModelError(f"leaf {p['n']} must have type {NAME_TYPE.get(p['n'])}")
        elif t in ("struct", "sfield", "dlfield", "eopf"):
            if t == "eopf" and not (top and i == len(nodes) - 1):
                raise ModelError("end-of-pdu field only as last top-level parameter")
            if p["n"] in NAME_TYPE:
                raise ModelError("complex parameter with a leaf name")
            if t != "struct":
                static_size(p["ps"])       # items have a static size
            _check_nodes(p["ps"], top=False)
        else:
            raise ModelError(t)


def _check_path(nodes, chunks, exp):
    node = next((p for p in nodes if p["n"] == chunks[0]), None)
    if node is None:
        return
    if node["t"] == "const":
        raise ModelError("path to a constant")
    if is_leaf(node):
        if len(chunks) != 1:
            raise ModelError("path descends into a leaf")
        parse_expected(node["t"], exp)
        return
    if len(chunks) == 1:
        raise ModelError("path ends at a complex parameter")
    _check_path(node["ps"], chunks[1:], exp)


# ---------------------------------------------------------------------------
# ODX emission
# ---------------------------------------------------------------------------
_XSI = 'xmlns:xsi="http://www.w3.org/2001/XMLSchema-instance"'


def _dct(bt, bits):
    return (f'<DIAG-CODED-TYPE BASE-DATA-TYPE="{bt}" xsi:type="STANDARD-LENGTH-TYPE">'
            f'<BIT-LENGTH>{bits}</BIT-LENGTH></DIAG-CODED-TYPE>')


def _dop(i, bt, bits, pt):
    return (f'<DATA-OBJECT-PROP ID="{i}"><SHORT-NAME>{i}</SHORT-NAME>'
            f'<COMPU-METHOD><CATEGORY>IDENTICAL</CATEGORY></COMPU-METHOD>{_dct(bt, bits)}'
            f'<PHYSICAL-TYPE BASE-DATA-TYPE="{pt}"/></DATA-OBJECT-PROP>')


_DOPS = {
    "u8": ("A_UINT32", 8, "A_UINT32"),
    "u16": ("A_UINT32", 16, "A_UINT32"),
    "str": ("A_ASCIISTRING", 16, "A_UNICODE2STRING"),
    "bytes": ("A_BYTEFIELD", 16, "A_BYTEFIELD"),
    "f32": ("A_FLOAT32", 32, "A_FLOAT32"),
}


def _esc(s: str) -> str:
    return s.replace("&", "&amp;").replace("<", "&lt;").replace(">", "&gt;")


class _Emit:
    def __init__(self):
        self.structs = []
        self.sfields = []
        self.dlfields = []
        self.eopfs = []

    def params(self, nodes, key):
        out = []
        for i, p in enumerate(nodes):
            t = p["t"]
            nid = f"{key}.{p['n']}"
            if t == "const":
                out.append(f'<PARAM xsi:type="CODED-CONST"><SHORT-NAME>{p["n"]}</SHORT-NAME>'
                           f'<CODED-VALUE>{p["v"]}</CODED-VALUE>{_dct("A_UINT32", 8)}</PARAM>')
                continue
            if t in LEAF_SIZE:
                ref = f"dop_{t}"
            elif t == "struct":
                ref = self.struct(p["ps"], nid)
            else:
                sref = self.struct(p["ps"], nid + ".item")
                ref = "f_" + nid
                head = f'ID="{ref}"><SHORT-NAME>{_sn(ref)}</SHORT-NAME><BASIC-STRUCTURE-REF ID-REF="{sref}"/>'
                if t == "sfield":
                    self.sfields.append(
                        f'<STATIC-FIELD {head}<FIXED-NUMBER-OF-ITEMS>{p["count"]}</FIXED-NUMBER-OF-ITEMS>'
                        f'<ITEM-BYTE-SIZE>{static_size(p["ps"])}</ITEM-BYTE-SIZE></STATIC-FIELD>')
                elif t == "dlfield":
                    self.dlfields.append(
                        f'<DYNAMIC-LENGTH-FIELD {head}<OFFSET>1</OFFSET><DETERMINE-NUMBER-OF-ITEMS>'
                        f'<BYTE-POSITION>0</BYTE-POSITION><DATA-OBJECT-PROP-REF ID-REF="dop_u8"/>'
                        f'</DETERMINE-NUMBER-OF-ITEMS></DYNAMIC-LENGTH-FIELD>')
                else:
                    self.eopfs.append(f'<END-OF-PDU-FIELD {head}</END-OF-PDU-FIELD>')
            out.append(f'<PARAM xsi:type="VALUE"><SHORT-NAME>{p["n"]}</SHORT-NAME>'
                       f'<DOP-REF ID-REF="{ref}"/></PARAM>')
        return "".join(out)

    def struct(self, nodes, nid):
        sid = "st_" + nid
        body = self.params(nodes, nid)
        self.structs.append(f'<STRUCTURE ID="{sid}"><SHORT-NAME>{_sn(sid)}</SHORT-NAME>'
                            f'<PARAMS>{body}</PARAMS></STRUCTURE>')
        return sid


def _sn(i: str) -> str:
    return re.sub(r"[^A-Za-z0-9_]", "_", i)


def _layer_services(em, cfg, layer_id, services, gneg):
    """-> xml of DIAG-COMMS, REQUESTS, POS-RESPONSES, NEG-RESPONSES, GLOBAL-NEG-RESPONSES"""
    comms, reqs, poss, negs, gnegs = [], [], [], [], []
    for si, s in enumerate(services):
        sid = f"{layer_id}.svc{si}"
        rq = "".join(
            f'<PARAM xsi:type="CODED-CONST"><SHORT-NAME>b{j}</SHORT-NAME><CODED-VALUE>{b}</CODED-VALUE>'
            f'{_dct("A_UINT32", 8)}</PARAM>' for j, b in enumerate(s["req"]))
        reqs.append(f'<REQUEST ID="{sid}.rq"><SHORT-NAME>{_sn(sid)}_rq</SHORT-NAME><PARAMS>{rq}</PARAMS></REQUEST>')
        prefs, nrefs = [], []
        for j, key in enumerate(s["pos"]):
            rid = f"{sid}.pr{j}"
            poss.append(f'<POS-RESPONSE ID="{rid}"><SHORT-NAME>{_sn(rid)}</SHORT-NAME>'
                        f'<PARAMS>{em.params(cfg["layouts"][key], rid)}</PARAMS></POS-RESPONSE>')
            prefs.append(f'<POS-RESPONSE-REF ID-REF="{rid}"/>')
        for j, key in enumerate(s["neg"]):
            rid = f"{sid}.nr{j}"
            negs.append(f'<NEG-RESPONSE ID="{rid}"><SHORT-NAME>{_sn(rid)}</SHORT-NAME>'
                        f'<PARAMS>{em.params(cfg["layouts"][key], rid)}</PARAMS></NEG-RESPONSE>')
            nrefs.append(f'<NEG-RESPONSE-REF ID-REF="{rid}"/>')
        x = f'<DIAG-SERVICE ID="{sid}"><SHORT-NAME>{s["sn"]}</SHORT-NAME><REQUEST-REF ID-REF="{sid}.rq"/>'
        if prefs:
            x += f'<POS-RESPONSE-REFS>{"".join(prefs)}</POS-RESPONSE-REFS>'
        if nrefs:
            x += f'<NEG-RESPONSE-REFS>{"".join(nrefs)}</NEG-RESPONSE-REFS>'
        comms.append(x + '</DIAG-SERVICE>')
    for j, key in enumerate(gneg):
        rid = f"{layer_id}.gnr{j}"
        gnegs.append(f'<GLOBAL-NEG-RESPONSE ID="{rid}"><SHORT-NAME>{_sn(rid)}</SHORT-NAME>'
                     f'<PARAMS>{em.params(cfg["layouts"][key], rid)}</PARAMS></GLOBAL-NEG-RESPONSE>')
    out = ""
    if comms:
        out += f'<DIAG-COMMS>{"".join(comms)}</DIAG-COMMS>'
    if reqs:
        out += f'<REQUESTS>{"".join(reqs)}</REQUESTS>'
    if poss:
        out += f'<POS-RESPONSES>{"".join(poss)}</POS-RESPONSES>'
    if negs:
        out += f'<NEG-RESPONSES>{"".join(negs)}</NEG-RESPONSES>'
    if gnegs:
        out += f'<GLOBAL-NEG-RESPONSES>{"".join(gnegs)}</GLOBAL-NEG-RESPONSES>'
    return out


def _mp_xml(cfg, mp):
    base = cfg["kind"] == "base"
    tag = "MATCHING-BASE-VARIANT-PARAMETER" if base else "MATCHING-PARAMETER"
    x = f'<{tag}><EXPECTED-VALUE>{_esc(mp["exp"])}</EXPECTED-VALUE>'
    if base and mp.get("phys") is not None:
        x += f'<USE-PHYSICAL-ADDRESSING>{"true" if mp["phys"] else "false"}</USE-PHYSICAL-ADDRESSING>'
    x += f'<DIAG-COMM-SNREF SHORT-NAME="{mp["svc"]}"/>'
    if mp.get("snref") is not None:
        x += f'<OUT-PARAM-IF-SNREF SHORT-NAME="{mp["snref"]}"/>'
    else:
        x += f'<OUT-PARAM-IF-SNPATHREF SHORT-NAME-PATH="{mp["snpath"]}"/>'
    return x + f'</{tag}>'


def to_xml(cfg) -> bytes:
    """ODX-D document: common layer (BASE-VARIANT "COMMON" for kind ecu, FUNCTIONAL-GROUP
    "COMMON" for kind base) holding the data dictionary and the common services; the candidate
    variants inherit from it."""
    check_cfg(cfg)
    em = _Emit()
    common_id = "COMMON"
    common_body = _layer_services(em, cfg, common_id, cfg["common"]["services"], cfg["common"].get("gneg", []))
    variants_xml = []
    for v in cfg["variants"]:
        vid = v["sn"]
        body = _layer_services(em, cfg, vid, v.get("services", []), [])
        if cfg["kind"] == "ecu":
            parent = f'<PARENT-REFS><PARENT-REF ID-REF="{common_id}" xsi:type="BASE-VARIANT-REF"/></PARENT-REFS>'
            pats = "".join(
                f'<ECU-VARIANT-PATTERN><MATCHING-PARAMETERS>{"".join(_mp_xml(cfg, mp) for mp in pat)}'
                f'</MATCHING-PARAMETERS></ECU-VARIANT-PATTERN>' for pat in v["patterns"])
            pats = f'<ECU-VARIANT-PATTERNS>{pats}</ECU-VARIANT-PATTERNS>' if pats else ""
            variants_xml.append(f'<ECU-VARIANT ID="{vid}"><SHORT-NAME>{vid}</SHORT-NAME>{body}'
                                f'{pats}{parent}</ECU-VARIANT>')
        else:
            parent = f'<PARENT-REFS><PARENT-REF ID-REF="{common_id}" xsi:type="FUNCTIONAL-GROUP-REF"/></PARENT-REFS>'
            pats = "".join(
                f'<BASE-VARIANT-PATTERN><MATCHING-BASE-VARIANT-PARAMETERS>'
                f'{"".join(_mp_xml(cfg, mp) for mp in pat)}'
                f'</MATCHING-BASE-VARIANT-PARAMETERS></BASE-VARIANT-PATTERN>' for pat in v["patterns"])
            variants_xml.append(f'<BASE-VARIANT ID="{vid}"><SHORT-NAME>{vid}</SHORT-NAME>{body}'
                                f'{pats}{parent}</BASE-VARIANT>')
    dops = "".join(_dop(f"dop_{t}", *_DOPS[t]) for t in ("u8", "u16", "str", "bytes", "f32"))
    for t, bt, pt in (("lstr", "A_ASCIISTRING", "A_UNICODE2STRING"), ("lbytes", "A_BYTEFIELD", "A_BYTEFIELD")):
        dops += (f'<DATA-OBJECT-PROP ID="dop_{t}"><SHORT-NAME>dop_{t}</SHORT-NAME>'
                 f'<COMPU-METHOD><CATEGORY>IDENTICAL</CATEGORY></COMPU-METHOD>'
                 f'<DIAG-CODED-TYPE BASE-DATA-TYPE="{bt}" xsi:type="LEADING-LENGTH-INFO-TYPE">'
                 f'<BIT-LENGTH>8</BIT-LENGTH></DIAG-CODED-TYPE>'
                 f'<PHYSICAL-TYPE BASE-DATA-TYPE="{pt}"/></DATA-OBJECT-PROP>')
    dtcs = "".join(f'<DTC ID="dtc_{sn}"><SHORT-NAME>{sn}</SHORT-NAME><TROUBLE-CODE>{code}</TROUBLE-CODE>'
                   f'<TEXT>{sn}</TEXT></DTC>' for code, sn in DTC_TABLE.items())
    ddds = (f'<DIAG-DATA-DICTIONARY-SPEC><DTC-DOPS><DTC-DOP ID="dop_dtc"><SHORT-NAME>dop_dtc</SHORT-NAME>'
            f'{_dct("A_UINT32", 16)}<PHYSICAL-TYPE BASE-DATA-TYPE="A_UINT32"/>'
            f'<COMPU-METHOD><CATEGORY>IDENTICAL</CATEGORY></COMPU-METHOD><DTCS>{dtcs}</DTCS></DTC-DOP></DTC-DOPS>'
            f'<DATA-OBJECT-PROPS>{dops}</DATA-OBJECT-PROPS>')
    if em.structs:
        ddds += f'<STRUCTURES>{"".join(em.structs)}</STRUCTURES>'
    if em.sfields:
        ddds += f'<STATIC-FIELDS>{"".join(em.sfields)}</STATIC-FIELDS>'
    if em.dlfields:
        ddds += f'<DYNAMIC-LENGTH-FIELDS>{"".join(em.dlfields)}</DYNAMIC-LENGTH-FIELDS>'
    if em.eopfs:
        ddds += f'<END-OF-PDU-FIELDS>{"".join(em.eopfs)}</END-OF-PDU-FIELDS>'
    ddds += '</DIAG-DATA-DICTIONARY-SPEC>'
    xml = (f'<?xml version="1.0"?><ODX MODEL-VERSION="2.2.0" {_XSI}><DIAG-LAYER-CONTAINER ID="c14">'
           f'<SHORT-NAME>c14</SHORT-NAME>')
    if cfg["kind"] == "ecu":
        xml += (f'<BASE-VARIANTS><BASE-VARIANT ID="{common_id}"><SHORT-NAME>{common_id}</SHORT-NAME>'
                f'{ddds}{common_body}</BASE-VARIANT></BASE-VARIANTS>')
        if variants_xml:
            xml += f'<ECU-VARIANTS>{"".join(variants_xml)}</ECU-VARIANTS>'
    else:
        xml += (f'<FUNCTIONAL-GROUPS><FUNCTIONAL-GROUP ID="{common_id}"><SHORT-NAME>{common_id}</SHORT-NAME>'
                f'{ddds}{common_body}</FUNCTIONAL-GROUP></FUNCTIONAL-GROUPS>')
        if variants_xml:
            xml += f'<BASE-VARIANTS>{"".join(variants_xml)}</BASE-VARIANTS>'
    xml += '</DIAG-LAYER-CONTAINER></ODX>'
    return xml.encode()
