"""IR of diagnostic-layer hierarchies and its ODX XML emission (C09 / C15).

The IR is plain JSON:

    hier = {
      "layers": [ layer, ... ],             # in any order
      "docs":   [[layer names], ...],       # optional: distribution of the layers over
                                            #   DIAG-LAYER-CONTAINER documents (default: one document)
      "subset": {...}, "spec": {...}        # optional comparam subset / spec description (C15), see below
    }
    layer = {
      "name": "L0", "type": "BASE-VARIANT",
      "parents": [ {"layer": "L1", "ni": {"diag_comms": [...], "dops": [...], "tables": [...],
                                          "gnrs": [...], "variables": [...]}} ],
      "objs": { category: { short_name: entry } },
      "comparams": [ comparam-ref, ... ]    # C15
    }

`entry` is the uid string of the object (it is written into LONG-NAME so that the identity
of a resolved object can be observed); for the category "diag_comms" it is a dict
{"kind": "service"|"job", "uid": ...} or {"kind": "ref", "layer": X, "name": n} (a DIAG-COMM-REF
to the diag-comm `n` defined in layer X).

Every object gets the globally unique ID "<layer>.<category>.<short_name>".

Short-name references inside data dictionary objects (optional, any entry may be a dict instead of the
plain uid string):
    dops:        {"uid": ..., "bits": 8|16}                      width of the DIAG-CODED-TYPE
    structures:  {"uid": ..., "dop_snref": "<dop short name>"}   one VALUE parameter "v" with DOP-SNREF
    end_of_pdu_fields / static_fields: {"uid": ..., "struct_snref": "<structure short name>"}
                                                                  BASIC-STRUCTURE-SNREF instead of -REF
    diag_comms:  {"kind": "service", "uid": ..., "struct": "<local structure short name>"}
                 the request gets a third parameter "payload" (byte 2, DOP-REF to that local structure)
"""
from __future__ import annotations

from xml.sax.saxutils import escape

LAYER_TYPES = ["ECU-SHARED-DATA", "PROTOCOL", "FUNCTIONAL-GROUP", "BASE-VARIANT", "ECU-VARIANT"]
GROUP = {"PROTOCOL": "PROTOCOLS", "FUNCTIONAL-GROUP": "FUNCTIONAL-GROUPS",
         "BASE-VARIANT": "BASE-VARIANTS", "ECU-VARIANT": "ECU-VARIANTS",
         "ECU-SHARED-DATA": "ECU-SHARED-DATAS"}

# categories of the DIAG-DATA-DICTIONARY-SPEC that are DOP-BASE objects (NOT-INHERITED-DOPS applies)
DOP_KINDS = ["dops", "structures", "dtc_dops", "static_fields", "end_of_pdu_fields",
             "dynamic_length_fields", "dynamic_endmarker_fields", "muxs", "env_datas", "env_data_descs"]
OTHER_CATS = ["tables", "unit_groups", "gnrs", "fcs", "state_charts", "audiences"]
CATEGORIES = ["diag_comms"] + DOP_KINDS + OTHER_CATS

HEAD = ('<?xml version="1.0" encoding="UTF-8"?>'
        '<ODX MODEL-VERSION="2.2.0" xmlns:xsi="http://www.w3.org/2001/XMLSchema-instance">')

NAME_BYTE = {}   # short name -> first request byte (filled lazily, deterministic)


def oid(layer: str, cat: str, name: str) -> str:
    return f"{layer}.{cat}.{name}"


def uid_of(entry):
    """uid of a simple-category entry (plain string or dict with "uid")"""
    return entry["uid"] if isinstance(entry, dict) else entry


def _e(s) -> str:
    return escape(str(s), {'"': "&quot;"})


def _names(uid):
    return f"<LONG-NAME>{_e(uid_of(uid))}</LONG-NAME>"


_DCT8 = ('<DIAG-CODED-TYPE BASE-DATA-TYPE="A_UINT32" xsi:type="STANDARD-LENGTH-TYPE">'
         '<BIT-LENGTH>8</BIT-LENGTH></DIAG-CODED-TYPE>')
_IDENT = '<COMPU-METHOD><CATEGORY>IDENTICAL</CATEGORY></COMPU-METHOD>'


def service_prefix(hier: dict, layer_name: str, sn: str) -> bytes:
    """the request of every service object starts with two constant bytes that are unique for
    the object: (index of the defining layer, index of the short name among all diag-comm names)"""
    lnames, names = prefix_index(hier)
    return bytes([0x10 + lnames.index(layer_name), 0x80 + names.index(sn)])


def prefix_index(hier: dict):
    """(sorted layer names, sorted diag-comm names) the request prefixes are numbered by; a restricted
    hierarchy keeps the numbering of the hierarchy it was cut from (hier["prefix_index"])"""
    pi = hier.get("prefix_index")
    if pi:
        return pi["layers"], pi["names"]
    return (sorted(l["name"] for l in hier["layers"]),
            sorted({n for l in hier["layers"] for n in l.get("objs", {}).get("diag_comms", {})}))


def _coded_const(name: str, pos: int, value: int) -> str:
    return (f'<PARAM xsi:type="CODED-CONST"><SHORT-NAME>{name}</SHORT-NAME><BYTE-POSITION>{pos}</BYTE-POSITION>'
            f'<CODED-VALUE>{value}</CODED-VALUE>{_DCT8}</PARAM>')


def _first_id(layer: dict, cat: str):
    objs = layer.get("objs", {}).get(cat, {})
    for n in objs:
        return oid(layer["name"], cat, n)
    return None


def _emit_ddd(hier: dict, layer: dict, out: list) -> None:
    L = layer["name"]
    objs = layer.get("objs", {})
    if not any(objs.get(c) for c in DOP_KINDS + ["tables", "unit_groups"]):
        return
    dop_id = _first_id(layer, "dops")
    st_id = _first_id(layer, "structures")

    def need(x, what, cat):
        if x is None:
            raise ValueError(f"layer {L}: category {cat} needs a local {what} to refer to")
        return x

    def sref(entry, cat):
        if isinstance(entry, dict) and entry.get("struct_snref"):
            return f'<BASIC-STRUCTURE-SNREF SHORT-NAME="{entry["struct_snref"]}"/>'
        return f'<BASIC-STRUCTURE-REF ID-REF="{need(st_id, "structure", cat)}"/>'

    out.append("<DIAG-DATA-DICTIONARY-SPEC>")
    if objs.get("dtc_dops"):
        out.append("<DTC-DOPS>")
        for n, uid in objs["dtc_dops"].items():
            i = oid(L, "dtc_dops", n)
            out.append(f'<DTC-DOP ID="{i}"><SHORT-NAME>{n}</SHORT-NAME>{_names(uid)}'
                       '<DIAG-CODED-TYPE BASE-DATA-TYPE="A_UINT32" xsi:type="STANDARD-LENGTH-TYPE">'
                       '<BIT-LENGTH>24</BIT-LENGTH></DIAG-CODED-TYPE>'
                       '<PHYSICAL-TYPE BASE-DATA-TYPE="A_UINT32"/>' + _IDENT +
                       f'<DTCS><DTC ID="{i}.dtc"><SHORT-NAME>dtc</SHORT-NAME><TROUBLE-CODE>1</TROUBLE-CODE>'
                       '<TEXT>t</TEXT></DTC></DTCS></DTC-DOP>')
        out.append("</DTC-DOPS>")
    if objs.get("env_data_descs"):
        out.append("<ENV-DATA-DESCS>")
        for n, uid in objs["env_data_descs"].items():
            refs = "".join(f'<ENV-DATA-REF ID-REF="{oid(L, "env_datas", m)}"/>' for m in objs.get("env_datas", {}))
            out.append(f'<ENV-DATA-DESC ID="{oid(L, "env_data_descs", n)}"><SHORT-NAME>{n}</SHORT-NAME>{_names(uid)}'
                       f'<PARAM-SNREF SHORT-NAME="p"/><ENV-DATA-REFS>{refs}</ENV-DATA-REFS></ENV-DATA-DESC>')
        out.append("</ENV-DATA-DESCS>")
    if objs.get("dops"):
        out.append("<DATA-OBJECT-PROPS>")
        for n, uid in objs["dops"].items():
            bits = uid.get("bits", 8) if isinstance(uid, dict) else 8
            out.append(f'<DATA-OBJECT-PROP ID="{oid(L, "dops", n)}"><SHORT-NAME>{n}</SHORT-NAME>{_names(uid)}'
                       + _IDENT + _DCT8.replace(">8<", f">{bits}<") +
                       '<PHYSICAL-TYPE BASE-DATA-TYPE="A_UINT32"/></DATA-OBJECT-PROP>')
        out.append("</DATA-OBJECT-PROPS>")
    if objs.get("structures"):
        out.append("<STRUCTURES>")
        for n, uid in objs["structures"].items():
            if isinstance(uid, dict) and uid.get("dop_snref"):
                params = ('<PARAM xsi:type="VALUE"><SHORT-NAME>v</SHORT-NAME><BYTE-POSITION>0</BYTE-POSITION>'
                          f'<DOP-SNREF SHORT-NAME="{uid["dop_snref"]}"/></PARAM>')
            else:
                params = _coded_const("c", 0, 1)
            out.append(f'<STRUCTURE ID="{oid(L, "structures", n)}"><SHORT-NAME>{n}</SHORT-NAME>{_names(uid)}'
                       f'<PARAMS>{params}</PARAMS></STRUCTURE>')
        out.append("</STRUCTURES>")
    if objs.get("static_fields"):
        out.append("<STATIC-FIELDS>")
        for n, uid in objs["static_fields"].items():
            out.append(f'<STATIC-FIELD ID="{oid(L, "static_fields", n)}"><SHORT-NAME>{n}</SHORT-NAME>{_names(uid)}'
                       + sref(uid, "static_fields") +
                       '<FIXED-NUMBER-OF-ITEMS>2</FIXED-NUMBER-OF-ITEMS><ITEM-BYTE-SIZE>1</ITEM-BYTE-SIZE></STATIC-FIELD>')
        out.append("</STATIC-FIELDS>")
    if objs.get("dynamic_length_fields"):
        out.append("<DYNAMIC-LENGTH-FIELDS>")
        for n, uid in objs["dynamic_length_fields"].items():
            out.append(f'<DYNAMIC-LENGTH-FIELD ID="{oid(L, "dynamic_length_fields", n)}"><SHORT-NAME>{n}</SHORT-NAME>{_names(uid)}'
                       f'<BASIC-STRUCTURE-REF ID-REF="{need(st_id, "structure", "dynamic_length_fields")}"/>'
                       '<OFFSET>1</OFFSET><DETERMINE-NUMBER-OF-ITEMS><BYTE-POSITION>0</BYTE-POSITION>'
                       f'<DATA-OBJECT-PROP-REF ID-REF="{need(dop_id, "DOP", "dynamic_length_fields")}"/>'
                       '</DETERMINE-NUMBER-OF-ITEMS></DYNAMIC-LENGTH-FIELD>')
        out.append("</DYNAMIC-LENGTH-FIELDS>")
    if objs.get("dynamic_endmarker_fields"):
        out.append("<DYNAMIC-ENDMARKER-FIELDS>")
        for n, uid in objs["dynamic_endmarker_fields"].items():
            out.append(f'<DYNAMIC-ENDMARKER-FIELD ID="{oid(L, "dynamic_endmarker_fields", n)}"><SHORT-NAME>{n}</SHORT-NAME>{_names(uid)}'
                       f'<BASIC-STRUCTURE-REF ID-REF="{need(st_id, "structure", "dynamic_endmarker_fields")}"/>'
                       f'<DATA-OBJECT-PROP-REF ID-REF="{need(dop_id, "DOP", "dynamic_endmarker_fields")}">'
                       '<TERMINATION-VALUE>255</TERMINATION-VALUE></DATA-OBJECT-PROP-REF></DYNAMIC-ENDMARKER-FIELD>')
        out.append("</DYNAMIC-ENDMARKER-FIELDS>")
    if objs.get("end_of_pdu_fields"):
        out.append("<END-OF-PDU-FIELDS>")
        for n, uid in objs["end_of_pdu_fields"].items():
            out.append(f'<END-OF-PDU-FIELD ID="{oid(L, "end_of_pdu_fields", n)}"><SHORT-NAME>{n}</SHORT-NAME>{_names(uid)}'
                       + sref(uid, "end_of_pdu_fields") + '</END-OF-PDU-FIELD>')
        out.append("</END-OF-PDU-FIELDS>")
    if objs.get("muxs"):
        out.append("<MUXS>")
        for n, uid in objs["muxs"].items():
            out.append(f'<MUX ID="{oid(L, "muxs", n)}"><SHORT-NAME>{n}</SHORT-NAME>{_names(uid)}'
                       '<BYTE-POSITION>1</BYTE-POSITION><SWITCH-KEY><BYTE-POSITION>0</BYTE-POSITION>'
                       f'<DATA-OBJECT-PROP-REF ID-REF="{need(dop_id, "DOP", "muxs")}"/></SWITCH-KEY></MUX>')
        out.append("</MUXS>")
    if objs.get("env_datas"):
        out.append("<ENV-DATAS>")
        for n, uid in objs["env_datas"].items():
            out.append(f'<ENV-DATA ID="{oid(L, "env_datas", n)}"><SHORT-NAME>{n}</SHORT-NAME>{_names(uid)}'
                       f'<PARAMS>{_coded_const("c", 0, 1)}</PARAMS><ALL-VALUE/></ENV-DATA>')
        out.append("</ENV-DATAS>")
    if objs.get("unit_groups"):
        out.append("<UNIT-SPEC><UNIT-GROUPS>")
        for n, uid in objs["unit_groups"].items():
            out.append(f'<UNIT-GROUP><SHORT-NAME>{n}</SHORT-NAME>{_names(uid)}<CATEGORY>COUNTRY</CATEGORY></UNIT-GROUP>')
        out.append("</UNIT-GROUPS></UNIT-SPEC>")
    if objs.get("tables"):
        out.append("<TABLES>")
        for n, uid in objs["tables"].items():
            i = oid(L, "tables", n)
            out.append(f'<TABLE ID="{i}"><SHORT-NAME>{n}</SHORT-NAME>{_names(uid)}'
                       f'<TABLE-ROW ID="{i}.row"><SHORT-NAME>row</SHORT-NAME><KEY>1</KEY></TABLE-ROW></TABLE>')
        out.append("</TABLES>")
    out.append("</DIAG-DATA-DICTIONARY-SPEC>")


def _emit_comparam_ref(hier: dict, cp: dict, out: list) -> None:
    """cp = {"param": short name in the subset, "protocol": None|name, "form": "VALUE"|"SIMPLE"|"COMPLEX",
             "value": str | None (None = empty element) | [str|None|[...], ...] for COMPLEX (a nested list is the value of
             a nested complex sub-parameter), "uid": str, "prot_stack": None|name (PROT-STACK-SNREF)}
    the uid is written into the TI attribute of DESC so that the resolved instance can be identified"""
    sub = hier["subset"]
    out.append(f'<COMPARAM-REF ID-REF="{sub["name"]}.{cp["param"]}" DOCREF="{sub["name"]}" DOCTYPE="COMPARAM-SUBSET">')
    form = cp["form"]
    if form in ("VALUE", "SIMPLE"):
        tag = "VALUE" if form == "VALUE" else "SIMPLE-VALUE"
        v = cp["value"]
        out.append(f"<{tag}/>" if v is None else f"<{tag}>{_e(v)}</{tag}>")
    else:
        def cv(vals):
            out.append("<COMPLEX-VALUE>")
            for v in vals:
                if isinstance(v, list):      # value of a nested complex sub-parameter
                    cv(v)
                else:
                    out.append("<SIMPLE-VALUE/>" if v is None else f"<SIMPLE-VALUE>{_e(v)}</SIMPLE-VALUE>")
            out.append("</COMPLEX-VALUE>")
        cv(cp["value"])
    if cp.get("uid") is not None:
        out.append(f'<DESC TI="{_e(cp["uid"])}"><p>d</p></DESC>')
    if cp.get("prot_stack") is not None:
        out.append(f'<PROT-STACK-SNREF SHORT-NAME="{cp["prot_stack"]}"/>')
    if cp.get("protocol") is not None:
        out.append(f'<PROTOCOL-SNREF SHORT-NAME="{cp["protocol"]}"/>')
    out.append("</COMPARAM-REF>")


def _emit_layer(hier: dict, layer: dict, out: list) -> None:
    t = layer["type"]
    L = layer["name"]
    objs = layer.get("objs", {})
    types = {l["name"]: l["type"] for l in hier["layers"]}
    out.append(f'<{t} ID="DL.{L}"><SHORT-NAME>{L}</SHORT-NAME>')
    if objs.get("fcs"):
        out.append("<FUNCT-CLASSS>")
        for n, uid in objs["fcs"].items():
            out.append(f'<FUNCT-CLASS ID="{oid(L, "fcs", n)}"><SHORT-NAME>{n}</SHORT-NAME>{_names(uid)}</FUNCT-CLASS>')
        out.append("</FUNCT-CLASSS>")
    _emit_ddd(hier, layer, out)
    dcs = objs.get("diag_comms", {})
    if dcs:
        out.append("<DIAG-COMMS>")
        for n, e in dcs.items():
            i = oid(L, "diag_comms", n)
            if e["kind"] == "service":
                out.append(f'<DIAG-SERVICE ID="{i}"><SHORT-NAME>{n}</SHORT-NAME>{_names(e["uid"])}'
                           f'<REQUEST-REF ID-REF="{i}.rq"/></DIAG-SERVICE>')
            elif e["kind"] == "job":
                out.append(f'<SINGLE-ECU-JOB ID="{i}"><SHORT-NAME>{n}</SHORT-NAME>{_names(e["uid"])}'
                           '<PROG-CODES><PROG-CODE><CODE-FILE>j.jar</CODE-FILE><SYNTAX>JAR</SYNTAX>'
                           '<REVISION>1</REVISION></PROG-CODE></PROG-CODES></SINGLE-ECU-JOB>')
            else:
                out.append(f'<DIAG-COMM-REF ID-REF="{oid(e["layer"], "diag_comms", e["name"])}" '
                           f'DOCREF="{e["layer"]}" DOCTYPE="LAYER"/>')
        out.append("</DIAG-COMMS>")
        if any(e["kind"] == "service" for e in dcs.values()):
            out.append("<REQUESTS>")
            for n, e in dcs.items():
                if e["kind"] != "service":
                    continue
                i = oid(L, "diag_comms", n)
                p = service_prefix(hier, L, n)
                extra = ""
                if e.get("struct"):
                    extra = ('<PARAM xsi:type="VALUE"><SHORT-NAME>payload</SHORT-NAME><BYTE-POSITION>2</BYTE-POSITION>'
                             f'<DOP-REF ID-REF="{oid(L, "structures", e["struct"])}"/></PARAM>')
                out.append(f'<REQUEST ID="{i}.rq"><SHORT-NAME>rq_{n}</SHORT-NAME><PARAMS>'
                           f'{_coded_const("b0", 0, p[0])}{_coded_const("b1", 1, p[1])}{extra}</PARAMS></REQUEST>')
            out.append("</REQUESTS>")
    if objs.get("gnrs"):
        out.append("<GLOBAL-NEG-RESPONSES>")
        for n, uid in objs["gnrs"].items():
            out.append(f'<GLOBAL-NEG-RESPONSE ID="{oid(L, "gnrs", n)}"><SHORT-NAME>{n}</SHORT-NAME>{_names(uid)}'
                       f'<PARAMS>{_coded_const("sid", 0, 0x7F)}{_coded_const("x", 1, 0xEE)}</PARAMS></GLOBAL-NEG-RESPONSE>')
        out.append("</GLOBAL-NEG-RESPONSES>")
    if objs.get("state_charts"):
        out.append("<STATE-CHARTS>")
        for n, uid in objs["state_charts"].items():
            i = oid(L, "state_charts", n)
            out.append(f'<STATE-CHART ID="{i}"><SHORT-NAME>{n}</SHORT-NAME>{_names(uid)}<SEMANTIC>SESSION</SEMANTIC>'
                       f'<START-STATE-SNREF SHORT-NAME="s0"/><STATES><STATE ID="{i}.s0"><SHORT-NAME>s0</SHORT-NAME></STATE>'
                       '</STATES></STATE-CHART>')
        out.append("</STATE-CHARTS>")
    if objs.get("audiences"):
        out.append("<ADDITIONAL-AUDIENCES>")
        for n, uid in objs["audiences"].items():
            out.append(f'<ADDITIONAL-AUDIENCE ID="{oid(L, "audiences", n)}"><SHORT-NAME>{n}</SHORT-NAME>{_names(uid)}'
                       '</ADDITIONAL-AUDIENCE>')
        out.append("</ADDITIONAL-AUDIENCES>")
    if layer.get("comparams"):
        out.append("<COMPARAM-REFS>")
        for cp in layer["comparams"]:
            _emit_comparam_ref(hier, cp, out)
        out.append("</COMPARAM-REFS>")
    if t == "PROTOCOL":
        spec = hier.get("spec") or {"name": "cs"}
        out.append(f'<COMPARAM-SPEC-REF ID-REF="CS.{spec["name"]}" DOCREF="{spec["name"]}" DOCTYPE="COMPARAM-SPEC"/>')
        if spec.get("prot_stack"):
            out.append(f'<PROT-STACK-SNREF SHORT-NAME="{spec["prot_stack"]}"/>')
    if layer.get("parents"):
        out.append("<PARENT-REFS>")
        for p in layer["parents"]:
            pt = types[p["layer"]]
            out.append(f'<PARENT-REF ID-REF="DL.{p["layer"]}" DOCREF="{p["layer"]}" DOCTYPE="LAYER" xsi:type="{pt}-REF">')
            ni = p.get("ni", {})
            if ni.get("diag_comms"):
                out.append("<NOT-INHERITED-DIAG-COMMS>" + "".join(
                    f'<NOT-INHERITED-DIAG-COMM><DIAG-COMM-SNREF SHORT-NAME="{x}"/></NOT-INHERITED-DIAG-COMM>'
                    for x in ni["diag_comms"]) + "</NOT-INHERITED-DIAG-COMMS>")
            if ni.get("variables"):
                out.append("<NOT-INHERITED-VARIABLES>" + "".join(
                    f'<NOT-INHERITED-VARIABLE><DIAG-VARIABLE-SNREF SHORT-NAME="{x}"/></NOT-INHERITED-VARIABLE>'
                    for x in ni["variables"]) + "</NOT-INHERITED-VARIABLES>")
            if ni.get("dops"):
                out.append("<NOT-INHERITED-DOPS>" + "".join(
                    f'<NOT-INHERITED-DOP><DOP-BASE-SNREF SHORT-NAME="{x}"/></NOT-INHERITED-DOP>'
                    for x in ni["dops"]) + "</NOT-INHERITED-DOPS>")
            if ni.get("tables"):
                out.append("<NOT-INHERITED-TABLES>" + "".join(
                    f'<NOT-INHERITED-TABLE><TABLE-SNREF SHORT-NAME="{x}"/></NOT-INHERITED-TABLE>'
                    for x in ni["tables"]) + "</NOT-INHERITED-TABLES>")
            if ni.get("gnrs"):
                out.append("<NOT-INHERITED-GLOBAL-NEG-RESPONSES>" + "".join(
                    f'<NOT-INHERITED-GLOBAL-NEG-RESPONSE><GLOBAL-NEG-RESPONSE-SNREF SHORT-NAME="{x}"/>'
                    '</NOT-INHERITED-GLOBAL-NEG-RESPONSE>' for x in ni["gnrs"]) + "</NOT-INHERITED-GLOBAL-NEG-RESPONSES>")
            out.append("</PARENT-REF>")
        out.append("</PARENT-REFS>")
    out.append(f"</{t}>")


def container_xml(hier: dict, layer_names: list, cname: str) -> bytes:
    by_name = {l["name"]: l for l in hier["layers"]}
    out = [HEAD, f'<DIAG-LAYER-CONTAINER ID="DLC.{cname}"><SHORT-NAME>{cname}</SHORT-NAME>']
    for t in ["PROTOCOL", "FUNCTIONAL-GROUP", "ECU-SHARED-DATA", "BASE-VARIANT", "ECU-VARIANT"]:
        ls = [by_name[n] for n in layer_names if by_name[n]["type"] == t]
        if not ls:
            continue
        out.append(f"<{GROUP[t]}>")
        for l in ls:
            _emit_layer(hier, l, out)
        out.append(f"</{GROUP[t]}>")
    out.append("</DIAG-LAYER-CONTAINER></ODX>")
    return "".join(out).encode()


def subset_xml(sub: dict) -> bytes:
    """sub = {"name": "SUB", "simple": {short_name: default}, "complex": {short_name: [[sub_sn, default], ...]}}"""
    S = sub["name"]
    out = [HEAD, f'<COMPARAM-SUBSET ID="{S}" CATEGORY="TRANS"><SHORT-NAME>{S}</SHORT-NAME>']

    def simple(n, default, idp):
        return (f'<COMPARAM ID="{idp}{n}" PARAM-CLASS="COM" CPTYPE="STANDARD" CPUSAGE="ECU-COMM"><SHORT-NAME>{n}</SHORT-NAME>'
                f'<PHYSICAL-DEFAULT-VALUE>{_e(default)}</PHYSICAL-DEFAULT-VALUE>'
                f'<DATA-OBJECT-PROP-REF ID-REF="{S}.dop"/></COMPARAM>')

    out.append("<COMPARAMS>")
    for n, d in sub.get("simple", {}).items():
        out.append(simple(n, d, f"{S}."))
    out.append("</COMPARAMS><COMPLEX-COMPARAMS>")
    for n, subs in sub.get("complex", {}).items():
        out.append(f'<COMPLEX-COMPARAM ID="{S}.{n}" PARAM-CLASS="UNIQUE_ID" CPTYPE="STANDARD" CPUSAGE="ECU-COMM" '
                   f'ALLOW-MULTIPLE-VALUES="false"><SHORT-NAME>{n}</SHORT-NAME>')
        for e in subs:       # document order = positional order of the COMPLEX-VALUE entries
            if isinstance(e, dict):     # nested complex sub-parameter {"name": ..., "subs": [[sn, default], ...]}
                out.append(f'<COMPLEX-COMPARAM ID="{S}.{n}.{e["name"]}" PARAM-CLASS="UNIQUE_ID" CPTYPE="STANDARD" '
                           f'CPUSAGE="ECU-COMM"><SHORT-NAME>{e["name"]}</SHORT-NAME>')
                for sn, d in e["subs"]:
                    out.append(simple(sn, d, f"{S}.{n}.{e['name']}."))
                out.append("</COMPLEX-COMPARAM>")
            else:
                out.append(simple(e[0], e[1], f"{S}.{n}."))
        out.append("</COMPLEX-COMPARAM>")
    out.append("</COMPLEX-COMPARAMS><DATA-OBJECT-PROPS>"
               f'<DATA-OBJECT-PROP ID="{S}.dop"><SHORT-NAME>dop</SHORT-NAME>{_IDENT}'
               '<DIAG-CODED-TYPE BASE-DATA-TYPE="A_UINT32" xsi:type="STANDARD-LENGTH-TYPE"><BIT-LENGTH>32</BIT-LENGTH>'
               '</DIAG-CODED-TYPE><PHYSICAL-TYPE BASE-DATA-TYPE="A_UINT32"/></DATA-OBJECT-PROP></DATA-OBJECT-PROPS>'
               "</COMPARAM-SUBSET></ODX>")
    return "".join(out).encode()


def spec_xml(spec: dict | None, sub: dict | None) -> bytes:
    spec = spec or {"name": "cs"}
    C = spec["name"]
    out = [HEAD, f'<COMPARAM-SPEC ID="CS.{C}"><SHORT-NAME>{C}</SHORT-NAME>']
    stacks = list(spec.get("prot_stacks") or ([spec["prot_stack"]] if spec.get("prot_stack") else []))
    if stacks:
        out.append("<PROT-STACKS>")
        for ps in stacks:
            out.append(f'<PROT-STACK ID="CS.{C}.{ps}"><SHORT-NAME>{ps}</SHORT-NAME>'
                       '<PDU-PROTOCOL-TYPE>ISO_15765_3_on_ISO_15765_2</PDU-PROTOCOL-TYPE>'
                       '<PHYSICAL-LINK-TYPE>ISO_11898_2_DWCAN</PHYSICAL-LINK-TYPE><COMPARAM-SUBSET-REFS>')
            if sub is not None:
                out.append(f'<COMPARAM-SUBSET-REF ID-REF="{sub["name"]}" DOCREF="{sub["name"]}" DOCTYPE="COMPARAM-SUBSET"/>')
            out.append("</COMPARAM-SUBSET-REFS></PROT-STACK>")
        out.append("</PROT-STACKS>")
    out.append("</COMPARAM-SPEC></ODX>")
    return "".join(out).encode()


def documents(hier: dict) -> list:
    """list of XML documents (bytes) describing the hierarchy, in loading order"""
    docs = []
    sub = hier.get("subset")
    if sub is not None:
        docs.append(subset_xml(sub))
    docs.append(spec_xml(hier.get("spec"), sub))
    groups = hier.get("docs") or [[l["name"] for l in hier["layers"]]]
    for k, names in enumerate(groups):
        docs.append(container_xml(hier, names, f"c{k}"))
    return docs


def restrict(hier: dict, keep: set) -> dict:
    """the hierarchy reduced to the layers in `keep` (must be closed under parents and DIAG-COMM-REFs)"""
    h = dict(hier)
    lnames, names = prefix_index(hier)
    h["prefix_index"] = {"layers": lnames, "names": names}
    h["layers"] = [l for l in hier["layers"] if l["name"] in keep]
    if hier.get("docs"):
        h["docs"] = [[n for n in g if n in keep] for g in hier["docs"]]
        h["docs"] = [g for g in h["docs"] if g]
    return h


def load(hier: dict):
    """Database with all documents of the hierarchy added and refreshed (exceptions propagate)"""
    import io

    from odxtools.database import Database
    db = Database()
    db.add_auxiliary_file("j.jar", io.BytesIO(b"PK"))   # the PROG-CODE of generated single-ECU jobs
    for d in documents(hier):
        db.add_odx_file(io.BytesIO(d))
    db.refresh()
    return db
