"""Reference model for C06: simple request/response descriptions, their wire encoding,
and a three-valued dispatcher (MUST / MAY / MUST-NOT).  Imports nothing from odxtools.

Description IR (JSON-able):

    layer   = {"services": [service, ...], "gnrs": [obj, ...]}
    service = {"name": str, "rq": obj, "pos": [obj, ...], "neg": [obj, ...]}
    obj     = {"name": str, "params": [param, ...]}           # list order = order in <PARAMS>
    param   = {"k": "cc",  "name", "pos", "bit", "len", "val", "hl"}   CODED-CONST (A_UINT32, len bits)
            | {"k": "val", "name", "pos", "len", "hl"[, "bit"]}        VALUE, identical unsigned DOP of 1..8/16 bits
                                                                        ("bit" = BIT-POSITION of a sub-byte value that
                                                                        shares its byte with a sub-byte constant)
            | {"k": "mrp", "name", "pos", "rqpos", "n"}                MATCHING-REQUEST-PARAM
            | {"k": "nrc", "name", "pos", "vals": [int, ...][, "bit", "len"]}
                                                                        NRC-CONST (8 bit, or "len" bits at BIT-POSITION
                                                                        "bit"), overlapped by a VALUE of the same extent

Any parameter may carry "imp": true = the BYTE-POSITION is omitted in the XML; the generator only
sets it where the ODX cursor rule (byte after the end of the previously listed parameter) yields
the same "pos".  VALUE parameters may have any length 1..16 and a BIT-POSITION, so they can cross
a byte boundary (e.g. 8 bits at bit 4).

All parameters carry an explicit BYTE-POSITION; "bit" is the BIT-POSITION (0 except for
sub-byte constants).  Wire rules (ODX): an n-bit unsigned value at bit position b of a
k = ceil((b+n)/8) byte word is `value << b`, written big-endian, byte-reversed for
IS-HIGHLOW-BYTE-ORDER="false"; MATCHING-REQUEST-PARAM copies request bytes; NRC-CONST
has no bits of its own.
"""
from __future__ import annotations

MUST, MAY, NOT = "MUST", "MAY", "MUST-NOT"


# ---------------------------------------------------------------------------
# layout
# ---------------------------------------------------------------------------
def param_span(p) -> tuple[int, int]:
    """(first byte, number of bytes) occupied by the parameter"""
    k = p["k"]
    if k == "mrp":
        return p["pos"], p["n"]
    if k == "nrc":
        return p["pos"], (p.get("bit", 0) + p.get("len", 8) + 7) // 8
    return p["pos"], (p.get("bit", 0) + p["len"] + 7) // 8


def obj_len(obj) -> int:
    n = 0
    for p in obj["params"]:
        a, k = param_span(p)
        n = max(n, a + k)
    return n


def _place(buf: bytearray, pos: int, bit: int, nbits: int, value: int, hl: bool) -> None:
    k = (bit + nbits + 7) // 8
    word = (value & ((1 << nbits) - 1)) << bit
    mask = ((1 << nbits) - 1) << bit
    wb = word.to_bytes(k, "big")
    mb = mask.to_bytes(k, "big")
    if not hl:
        wb, mb = wb[::-1], mb[::-1]
    for i in range(k):
        buf[pos + i] = (buf[pos + i] & ~mb[i] & 0xFF) | (wb[i] & mb[i])


def _extract(msg: bytes, pos: int, bit: int, nbits: int, hl: bool) -> int:
    k = (bit + nbits + 7) // 8
    raw = bytes(msg[pos:pos + k])
    if not hl:
        raw = raw[::-1]
    return (int.from_bytes(raw, "big") >> bit) & ((1 << nbits) - 1)


# ---------------------------------------------------------------------------
# reference encoder / decoder of one coding object
# ---------------------------------------------------------------------------
def encode(obj, values: dict, request: bytes | None = None) -> bytes:
    """values: name -> int for VALUE parameters.  request: the triggering request (responses)."""
    buf = bytearray(obj_len(obj))
    for p in obj["params"]:
        k = p["k"]
        if k == "cc":
            _place(buf, p["pos"], p.get("bit", 0), p["len"], p["val"], p["hl"])
        elif k == "val":
            _place(buf, p["pos"], p.get("bit", 0), p["len"], values[p["name"]], p["hl"])
        elif k == "mrp":
            if request is None or len(request) < p["rqpos"] + p["n"]:
                raise ValueError("matching request parameter needs a long enough request")
            buf[p["pos"]:p["pos"] + p["n"]] = request[p["rqpos"]:p["rqpos"] + p["n"]]
        elif k == "nrc":
            pass
        else:
            raise ValueError(k)
    return bytes(buf)


def decode_values(obj, msg: bytes) -> dict:
    """name -> value for every parameter (MRP: bytes).  Precondition: len(msg) >= obj_len."""
    out = {}
    for p in obj["params"]:
        k = p["k"]
        if k == "cc":
            out[p["name"]] = _extract(msg, p["pos"], p.get("bit", 0), p["len"], p["hl"])
        elif k == "val":
            out[p["name"]] = _extract(msg, p["pos"], p.get("bit", 0), p["len"], p["hl"])
        elif k == "nrc":
            out[p["name"]] = nrc_value(msg, p)
        elif k == "mrp":
            out[p["name"]] = bytes(msg[p["pos"]:p["pos"] + p["n"]])
    return out


def nrc_value(msg: bytes, p) -> int:
    return _extract(msg, p["pos"], p.get("bit", 0), p.get("len", 8), True)


def const_prefix(obj, rq_prefix: bytes = b"") -> bytes:
    """Bytes at the start of the object that are fixed by its leading run of constant
    parameters: CODED-CONSTs, and MATCHING-REQUEST-PARAMs lying completely inside the
    constant prefix of the request (rq_prefix).  Only completely determined bytes count."""
    n = obj_len(obj)
    buf = bytearray(n)
    known = bytearray(n)
    for p in obj["params"]:
        k = p["k"]
        if k == "cc":
            _place(buf, p["pos"], p.get("bit", 0), p["len"], p["val"], p["hl"])
            _place(known, p["pos"], p.get("bit", 0), p["len"], (1 << p["len"]) - 1, p["hl"])
        elif k == "mrp" and p["rqpos"] + p["n"] <= len(rq_prefix):
            buf[p["pos"]:p["pos"] + p["n"]] = rq_prefix[p["rqpos"]:p["rqpos"] + p["n"]]
            known[p["pos"]:p["pos"] + p["n"]] = b"\xff" * p["n"]
        else:
            break
    i = 0
    while i < n and known[i] == 0xFF:
        i += 1
    return bytes(buf[:i])


def request_prefix(service) -> bytes:
    return const_prefix(service["rq"])


# ---------------------------------------------------------------------------
# three-valued fit of one coding object
# ---------------------------------------------------------------------------
class Fit:
    __slots__ = ("cls", "why", "values", "obj")

    def __init__(self, cls, why, values=None, obj=None):
        self.cls, self.why, self.values, self.obj = cls, why, values, obj

    def __repr__(self):
        return f"Fit({self.cls},{self.why})"


def fit(obj, msg: bytes, rq_prefix: bytes | None) -> Fit:
    """MUST: msg is exactly one instance of obj.  MAY: undecided by the property statement
    (trailing bytes; a MATCHING-REQUEST-PARAM that disagrees with the request constants but
    is not checkable from the leading constant run).  MUST-NOT: too short, constant / NRC
    mismatch, or a leading, completely bound MATCHING-REQUEST-PARAM with foreign bytes.
    rq_prefix = constant prefix of the owning service's request (None for requests)."""
    n = obj_len(obj)
    if len(msg) < n:
        return Fit(NOT, "short", obj=obj)
    undecided = False
    in_run = True
    for p in obj["params"]:
        k = p["k"]
        if k == "cc":
            if _extract(msg, p["pos"], p.get("bit", 0), p["len"], p["hl"]) != p["val"]:
                return Fit(NOT, "const", obj=obj)
        elif k == "nrc":
            in_run = False
            if nrc_value(msg, p) not in p["vals"]:
                return Fit(NOT, "nrc", obj=obj)
        elif k == "val":
            in_run = False
        elif k == "mrp":
            rp = rq_prefix or b""
            covered = max(0, min(p["n"], len(rp) - p["rqpos"]))
            got = bytes(msg[p["pos"]:p["pos"] + covered])
            if got != rp[p["rqpos"]:p["rqpos"] + covered]:
                if in_run and covered == p["n"]:
                    return Fit(NOT, "mrp", obj=obj)
                undecided = True
            if covered < p["n"]:
                in_run = False
    vals = decode_values(obj, msg)
    if len(msg) == n and not undecided:
        return Fit(MUST, "exact", vals, obj)
    return Fit(MAY, "undecided-mrp" if undecided else "trailing", vals, obj)


def gnr_applicable(gnr, service) -> bool:
    """a global negative response can answer a service only if the request bytes it echoes exist"""
    n = obj_len(service["rq"])
    return all(p["rqpos"] + p["n"] <= n for p in gnr["params"] if p["k"] == "mrp")


class Verdict:
    """classification of one message for one service"""
    __slots__ = ("cls", "fits", "ambiguous")

    def __init__(self, cls, fits, ambiguous):
        self.cls, self.fits, self.ambiguous = cls, fits, ambiguous

    def accepted(self) -> dict:
        """coding object name -> expected parameter values, for every object that is not excluded"""
        return {f.obj["name"]: f.values for f in self.fits if f.cls != NOT}

    def why(self):
        return {f.obj["name"]: f"{f.cls}:{f.why}" for f in self.fits}


def classify_service(layer, service, msg: bytes) -> Verdict:
    rp = request_prefix(service)
    own = [fit(service["rq"], msg, None)]
    own += [fit(o, msg, rp) for o in service["pos"] + service["neg"]]
    glob = [fit(g, msg, rp) for g in layer["gnrs"] if gnr_applicable(g, service)]
    fits = own + glob
    # two coding objects of the *same* service that both take the message: which of the two
    # interpretations is "the" interpretation is not fixed by the statement -> undecided
    ambiguous = sum(1 for f in own if f.cls != NOT) >= 2
    if ambiguous:
        cls = MAY
    elif any(f.cls == MUST for f in fits):
        cls = MUST
    elif any(f.cls == MAY for f in fits):
        cls = MAY
    else:
        cls = NOT
    return Verdict(cls, fits, ambiguous)


def classify(layer, msg: bytes) -> dict:
    return {s["name"]: classify_service(layer, s, msg) for s in layer["services"]}


def all_prefixes(layer, service) -> list[bytes]:
    """constant prefixes of all coding objects under which the service can be looked up"""
    rp = request_prefix(service)
    out = [rp]
    out += [const_prefix(o, rp) for o in service["pos"] + service["neg"]]
    out += [const_prefix(g, rp) for g in layer["gnrs"] if gnr_applicable(g, service)]
    return out


def first_request_byte(service) -> int | None:
    rp = request_prefix(service)
    return rp[0] if rp else None


# ---------------------------------------------------------------------------
# XML emission (ODX 2.2), one BASE-VARIANT "bv" in container "c"
# ---------------------------------------------------------------------------
XSI = 'xmlns:xsi="http://www.w3.org/2001/XMLSchema-instance"'


def _dct(nbits: int, hl: bool) -> str:
    bo = "" if hl else ' IS-HIGHLOW-BYTE-ORDER="false"'
    return (f'<DIAG-CODED-TYPE BASE-DATA-TYPE="A_UINT32"{bo} xsi:type="STANDARD-LENGTH-TYPE">'
            f'<BIT-LENGTH>{nbits}</BIT-LENGTH></DIAG-CODED-TYPE>')


def dop_id(nbits: int, hl: bool) -> str:
    return f"u{nbits}{'hl' if hl else 'lh'}"


def _param_xml(p) -> str:
    k = p["k"]
    head = f'<SHORT-NAME>{p["name"]}</SHORT-NAME>' + \
        ("" if p.get("imp") else f'<BYTE-POSITION>{p["pos"]}</BYTE-POSITION>')
    if k == "cc":
        bit = f'<BIT-POSITION>{p["bit"]}</BIT-POSITION>' if p.get("bit", 0) else ""
        return (f'<PARAM xsi:type="CODED-CONST">{head}{bit}<CODED-VALUE>{p["val"]}</CODED-VALUE>'
                f'{_dct(p["len"], p["hl"])}</PARAM>')
    if k == "val":
        bit = f'<BIT-POSITION>{p["bit"]}</BIT-POSITION>' if p.get("bit", 0) else ""
        return f'<PARAM xsi:type="VALUE">{head}{bit}<DOP-REF ID-REF="{dop_id(p["len"], p["hl"])}"/></PARAM>'
    if k == "mrp":
        return (f'<PARAM xsi:type="MATCHING-REQUEST-PARAM">{head}<REQUEST-BYTE-POS>{p["rqpos"]}'
                f'</REQUEST-BYTE-POS><BYTE-LENGTH>{p["n"]}</BYTE-LENGTH></PARAM>')
    if k == "nrc":
        cv = "".join(f"<CODED-VALUE>{v}</CODED-VALUE>" for v in p["vals"])
        bit = f'<BIT-POSITION>{p["bit"]}</BIT-POSITION>' if p.get("bit", 0) else ""
        return (f'<PARAM xsi:type="NRC-CONST">{head}{bit}<CODED-VALUES>{cv}</CODED-VALUES>'
                f'{_dct(p.get("len", 8), True)}</PARAM>')
    raise ValueError(k)


def _obj_xml(tag: str, oid: str, obj) -> str:
    ps = "".join(_param_xml(p) for p in obj["params"])
    params = f"<PARAMS>{ps}</PARAMS>" if ps else ""
    return f'<{tag} ID="{oid}"><SHORT-NAME>{obj["name"]}</SHORT-NAME>{params}</{tag}>'


def layer_xml(layer) -> bytes:
    dops = ""
    for nbits in range(1, 17):
        for hl in (True, False):
            i = dop_id(nbits, hl)
            dops += (f'<DATA-OBJECT-PROP ID="{i}"><SHORT-NAME>{i}</SHORT-NAME><COMPU-METHOD>'
                     f'<CATEGORY>IDENTICAL</CATEGORY></COMPU-METHOD>{_dct(nbits, hl)}'
                     f'<PHYSICAL-TYPE BASE-DATA-TYPE="A_UINT32"/></DATA-OBJECT-PROP>')
    dc = rqs = prs = nrs = gnrs = ""
    for s in layer["services"]:
        n = s["name"]
        prr = "".join(f'<POS-RESPONSE-REF ID-REF="id.{o["name"]}"/>' for o in s["pos"])
        nrr = "".join(f'<NEG-RESPONSE-REF ID-REF="id.{o["name"]}"/>' for o in s["neg"])
        dc += (f'<DIAG-SERVICE ID="svc.{n}"><SHORT-NAME>{n}</SHORT-NAME>'
               f'<REQUEST-REF ID-REF="id.{s["rq"]["name"]}"/>'
               + (f"<POS-RESPONSE-REFS>{prr}</POS-RESPONSE-REFS>" if prr else "")
               + (f"<NEG-RESPONSE-REFS>{nrr}</NEG-RESPONSE-REFS>" if nrr else "")
               + "</DIAG-SERVICE>")
        rqs += _obj_xml("REQUEST", f'id.{s["rq"]["name"]}', s["rq"])
        for o in s["pos"]:
            prs += _obj_xml("POS-RESPONSE", f'id.{o["name"]}', o)
        for o in s["neg"]:
            nrs += _obj_xml("NEG-RESPONSE", f'id.{o["name"]}', o)
    for g in layer["gnrs"]:
        gnrs += _obj_xml("GLOBAL-NEG-RESPONSE", f'id.{g["name"]}', g)
    doc = (f'<?xml version="1.0"?><ODX MODEL-VERSION="2.2.0" {XSI}><DIAG-LAYER-CONTAINER ID="c">'
           f'<SHORT-NAME>c</SHORT-NAME><BASE-VARIANTS><BASE-VARIANT ID="bv"><SHORT-NAME>bv</SHORT-NAME>'
           f'<DIAG-DATA-DICTIONARY-SPEC><DATA-OBJECT-PROPS>{dops}</DATA-OBJECT-PROPS>'
           f'</DIAG-DATA-DICTIONARY-SPEC><DIAG-COMMS>{dc}</DIAG-COMMS><REQUESTS>{rqs}</REQUESTS>'
           + (f"<POS-RESPONSES>{prs}</POS-RESPONSES>" if prs else "")
           + (f"<NEG-RESPONSES>{nrs}</NEG-RESPONSES>" if nrs else "")
           + (f"<GLOBAL-NEG-RESPONSES>{gnrs}</GLOBAL-NEG-RESPONSES>" if gnrs else "")
           + "</BASE-VARIANT></BASE-VARIANTS></DIAG-LAYER-CONTAINER></ODX>")
    return doc.encode()
