"""Small database model for C18 (comparison / listing tools).

A *description* is a JSON-able dict

    {"layers": [layer, ...], "n_comparams": int}
    layer   = {"name", "parent": None | 0, "dops": [dop, ...], "services": [svc, ...],
               "comparam_refs": [[comparam index, value], ...],
               optional "table": None | {"name", "key_dop": short name of an own IDENTICAL DOP}}
    dop     = {"name", "bits": 8|16|24|32, "type": "A_UINT32"|"A_INT32",
               optional "compu": None (IDENTICAL) | {"offset": int, "factor": int != 0} (LINEAR),
               optional "phys": physical base data type (default: the coded type; anything else needs LINEAR)}
    svc     = {"name", "uid", "semantic": str|None, "request": msg, "pos": [msg, ...], "neg": [msg, ...]}
    msg     = {"name", "params": [param, ...]}
    param   = {"kind", "name", "pos": int|None, "semantic": str|None, ...}
        CC  CODED-CONST             "bits", "value", "type"
        NRC NRC-CONST               "bits", "values": [int, ...], "type"
        VAL VALUE                   "dop", optional "default": int|None (PHYSICAL-DEFAULT-VALUE, IDENTICAL DOP only)
        PC  PHYS-CONST              "dop" (IDENTICAL), "value"
        RES RESERVED                "bits"
        MR  MATCHING-REQUEST-PARAM  "bits" (8 * BYTE-LENGTH), "rq_pos"
        SYS SYSTEM                  "dop", "sysparam"
        LK  LENGTH-KEY              "dop"
        TK  TABLE-KEY               "table": short name of a table applicable to the layer
        TS  TABLE-STRUCT            "key": short name of a TK parameter earlier in the same message

Layer 0 is a BASE-VARIANT; a layer with "parent": 0 is an ECU-VARIANT inheriting everything from
layer 0, a layer with "parent": None is an independent BASE-VARIANT.  All short names (layers,
services, DOPs, tables) are unique in the whole description, so value inheritance never overrides.
Every service owns its request and responses (no sharing), so an edit of one parameter concerns
exactly one service.  A table has two rows which both refer to the key DOP, so key and struct
parameter occupy as many bytes as the key DOP.

No odxtools import in this module: it is the reference side of the metamorphic oracle
(which service was edited how, effective counts, constant request prefixes).
"""
from __future__ import annotations

import copy
import io
import re
import zipfile
from xml.etree import ElementTree as ET
from xml.sax.saxutils import escape

XSI = 'xmlns:xsi="http://www.w3.org/2001/XMLSchema-instance"'
SEMANTICS = [None, "DATA", "SERVICE-ID", "SUBFUNCTION", "ID"]
INT_TYPES = ["A_UINT32", "A_INT32"]
PHYS_TYPES = ["A_UINT32", "A_INT32", "A_FLOAT64"]
PARAM_KINDS = ["CC", "NRC", "VAL", "PC", "RES", "MR", "SYS", "LK", "TK", "TS"]
XSI_PARAM_TYPE = {"CC": "CODED-CONST", "NRC": "NRC-CONST", "VAL": "VALUE", "PC": "PHYS-CONST", "RES": "RESERVED",
                  "MR": "MATCHING-REQUEST-PARAM", "SYS": "SYSTEM", "LK": "LENGTH-KEY", "TK": "TABLE-KEY",
                  "TS": "TABLE-STRUCT"}
# attribute edits: kind -> (field of the parameter, parameter kinds it applies to).  These are exactly the
# attributes Comparison.compare_parameters has a branch for (see notes/C18.md, Round 3)
ATTR_EDITS = {
    "byte_position": ("pos", tuple(PARAM_KINDS)),
    "semantic": ("semantic", tuple(PARAM_KINDS)),
    "bit_length": ("bits", ("CC", "NRC", "RES", "MR")),
    "coded_value": ("value", ("CC",)),
    "coded_values": ("values", ("NRC",)),
    "data_type": ("type", ("CC", "NRC")),
    "linked_dop": ("dop", ("VAL", "PC", "SYS", "LK")),
    "constant_value": ("value", ("PC",)),
    "default_value": ("default", ("VAL",)),
}
EDIT_KINDS = ["identity", "add", "delete", "rename"] + list(ATTR_EDITS) + ["dop_modified"]
SYSPARAMS = ["TIMESTAMP", "SECOND", "MINUTE", "HOUR", "TIMEZONE", "DAY", "WEEK", "MONTH", "YEAR"]


# ---------------------------------------------------------------------------
# layout helpers (reference side)
# ---------------------------------------------------------------------------
def layer_dops(desc, li):
    """effective DOPs of layer li: inherited first, then local"""
    lay = desc["layers"][li]
    out = []
    if lay["parent"] is not None:
        out += desc["layers"][lay["parent"]]["dops"]
    return out + lay["dops"]


def layer_tables(desc, li):
    """[(owning layer index, table)] applicable to layer li"""
    lay = desc["layers"][li]
    out = []
    if lay["parent"] is not None and desc["layers"][lay["parent"]].get("table"):
        out.append((lay["parent"], desc["layers"][lay["parent"]]["table"]))
    if lay.get("table"):
        out.append((li, lay["table"]))
    return out


def dop_by_name(desc, li, name):
    for d in layer_dops(desc, li):
        if d["name"] == name:
            return d
    raise KeyError(name)


def table_by_name(desc, li, name):
    for owner, t in layer_tables(desc, li):
        if t["name"] == name:
            return owner, t
    raise KeyError(name)


def param_bits(desc, li, p, msg=None):
    k = p["kind"]
    if k in ("CC", "NRC", "RES", "MR"):
        return p["bits"]
    if k in ("VAL", "PC", "SYS", "LK"):
        return dop_by_name(desc, li, p["dop"])["bits"]
    if k == "TK":
        owner, t = table_by_name(desc, li, p["table"])
        return dop_by_name(desc, owner, t["key_dop"])["bits"]
    if k == "TS":
        tk = next(q for q in msg["params"] if q["kind"] == "TK" and q["name"] == p["key"])
        return param_bits(desc, li, tk)
    raise KeyError(k)


def layout(desc, li, msg):
    """[(start byte, end byte)] per parameter, following the ODX cursor rule for pos None"""
    out = []
    cursor = 0
    for p in msg["params"]:
        start = cursor if p["pos"] is None else p["pos"]
        end = start + param_bits(desc, li, p, msg) // 8
        out.append((start, end))
        cursor = end
    return out


def overlaps(desc, li, msg):
    iv = sorted(layout(desc, li, msg))
    return any(a[1] > b[0] for a, b in zip(iv, iv[1:]))


def _assemble_prefix(items, cut: bool) -> bytes:
    """items: [(start byte, end byte, value, signed)] of the leading constants.  Two readings of
    "constant request prefix" exist in the history of odxtools: everything written by the leading
    constants with gaps as zero bytes (cut=False), or only the leading bytes that are completely
    covered by constants (cut=True).  The envelope demands distinct prefixes under both."""
    buf = bytearray()
    covered = bytearray()
    for start, end, value, signed in items:
        if len(buf) < end:
            covered.extend(bytes(end - len(buf)))
            buf.extend(bytes(end - len(buf)))
        buf[start:end] = int(value).to_bytes(end - start, "big", signed=signed)
        covered[start:end] = b"\x01" * (end - start)
    if cut:
        n = 0
        while n < len(buf) and covered[n]:
            n += 1
        return bytes(buf[:n])
    return bytes(buf)


def const_prefix(desc, li, msg, cut=False) -> bytes:
    """bytes of the leading CODED-CONST parameters, the tool's service key (a PHYS-CONST directly behind
    them would belong to it as well; the envelope excludes that, see well_formed)"""
    items = []
    for p, (start, end) in zip(msg["params"], layout(desc, li, msg)):
        if p["kind"] != "CC":
            break
        items.append((start, end, p["value"], False))
    return _assemble_prefix(items, cut)


def effective_services(desc, li):
    """[(owning layer index, svc)] for layer li, inherited first"""
    lay = desc["layers"][li]
    out = []
    if lay["parent"] is not None:
        out += [(lay["parent"], s) for s in desc["layers"][lay["parent"]]["services"]]
    return out + [(li, s) for s in lay["services"]]


def effective_counts(desc, li):
    lay = desc["layers"][li]
    cps = {}
    if lay["parent"] is not None:
        for idx, _v in desc["layers"][lay["parent"]]["comparam_refs"]:
            cps[idx] = 1
    for idx, _v in lay["comparam_refs"]:
        cps[idx] = 1
    return {"services": len(effective_services(desc, li)), "dops": len(layer_dops(desc, li)),
            "comparams": len(cps)}


def layers_containing(desc, owner_li):
    """indices of the layers whose effective service set includes the services owned by owner_li"""
    return [i for i, lay in enumerate(desc["layers"]) if i == owner_li or lay["parent"] == owner_li]


def prefixes_unique(desc) -> bool:
    for li in range(len(desc["layers"])):
        for cut in (False, True):
            seen = set()
            for owner, s in effective_services(desc, li):
                px = const_prefix(desc, owner, s["request"], cut)
                if px in seen:
                    return False
                seen.add(px)
    return True


def _identical(d):
    return d.get("compu") is None and d.get("phys", d["type"]) == d["type"]


def _param_ok(desc, li, msg, idx, p, is_request) -> bool:
    k = p["kind"]
    if k not in PARAM_KINDS or p.get("semantic") not in SEMANTICS:
        return False
    try:
        if k == "CC":
            return p["type"] in INT_TYPES and 0 <= p["value"] < (1 << (p["bits"] - 1))
        if k == "NRC":
            vs = p["values"]
            return (p["type"] in INT_TYPES and len(vs) >= 1 and len(set(vs)) == len(vs) and
                    all(0 <= v < (1 << (p["bits"] - 1)) for v in vs))
        if k in ("RES", "MR"):
            return p["bits"] in (8, 16, 24, 32) and (k == "RES" or (not is_request and p["rq_pos"] >= 0))
        if k in ("VAL", "PC", "SYS", "LK"):
            d = dop_by_name(desc, li, p["dop"])
            if k == "PC" or (k == "VAL" and p.get("default") is not None):
                v = p["value"] if k == "PC" else p["default"]
                # constants / defaults are physical values: only with an IDENTICAL DOP the model knows they are valid
                if not (_identical(d) and 0 <= v < (1 << (d["bits"] - 1))):
                    return False
            if k == "PC" and is_request and all(q["kind"] in ("CC", "PC") for q in msg["params"][:idx]):
                return False      # would be part of the constant request prefix
            if k == "SYS" and p["sysparam"] not in SYSPARAMS:
                return False
            return True
        if k == "TK":
            table_by_name(desc, li, p["table"])
            return True
        if k == "TS":
            return any(q["kind"] == "TK" and q["name"] == p["key"] for q in msg["params"][:idx])
    except (KeyError, StopIteration):
        return False
    return False


def well_formed(desc) -> bool:
    """inside the envelope: no overlapping parameters, values fit, unique request prefixes, unique names,
    references resolve"""
    names = []
    for li, lay in enumerate(desc["layers"]):
        names.append(lay["name"])
        names += [d["name"] for d in lay["dops"]]
        for d in lay["dops"]:
            cm = d.get("compu")
            if cm is not None and (cm["factor"] == 0 or not isinstance(cm["factor"], int)):
                return False
            if d.get("phys", d["type"]) not in PHYS_TYPES or (cm is None and d.get("phys", d["type"]) != d["type"]):
                return False
        if lay.get("table"):
            names.append(lay["table"]["name"])
            kd = [d for d in lay["dops"] if d["name"] == lay["table"]["key_dop"]]
            if not kd or not _identical(kd[0]):
                return False
        for s in lay["services"]:
            names.append(s["name"])
            for m in [s["request"]] + s["pos"] + s["neg"]:
                pn = [p["name"] for p in m["params"]]
                if len(set(pn)) != len(pn):
                    return False
                for idx, p in enumerate(m["params"]):
                    if not _param_ok(desc, li, m, idx, p, m is s["request"]):
                        return False
                if overlaps(desc, li, m):
                    return False
    if len(set(names)) != len(names):
        return False
    uids = [s["uid"] for lay in desc["layers"] for s in lay["services"]]
    if len(set(uids)) != len(uids):
        return False
    return prefixes_unique(desc)


# ---------------------------------------------------------------------------
# edits
# ---------------------------------------------------------------------------
def _msg(svc, role):
    """role = ["request"] | ["pos", i] | ["neg", i]"""
    return svc["request"] if role[0] == "request" else svc[role[0]][role[1]]


def roles(svc):
    return [["request"]] + [["pos", i] for i in range(len(svc["pos"]))] + \
           [["neg", i] for i in range(len(svc["neg"]))]


def edit_applies(p, kind) -> bool:
    field, kinds = ATTR_EDITS[kind]
    if p["kind"] not in kinds:
        return False
    if kind == "default_value":
        return p.get("default") is not None     # adding / removing a default is not generated
    return True


def apply_edit(desc, edit):
    """returns the edited deep copy.  edit:
        {"kind": "identity"}
        {"kind": "add", "layer": li, "service": svc, "at": index}
        {"kind": "delete", "layer": li, "service": si}
        {"kind": "rename", "layer": li, "service": si, "name": str, "uid": str}
        {"kind": <attribute in ATTR_EDITS>, "layer": li, "service": si, "role": role, "param": pi, "new": value}
        {"kind": "dop_modified", "layer": li, "dop": di, "new": {"compu": ..., "phys": ...}}  the DOP keeps its
            id, short name and coded type; its COMPU-METHOD / PHYSICAL-TYPE change in place
    """
    new = copy.deepcopy(desc)
    k = edit["kind"]
    if k == "identity":
        return new
    lay = new["layers"][edit["layer"]]
    if k == "add":
        lay["services"].insert(edit["at"], copy.deepcopy(edit["service"]))
        return new
    if k == "delete":
        del lay["services"][edit["service"]]
        return new
    if k == "dop_modified":
        d = lay["dops"][edit["dop"]]
        before = (d.get("compu"), d.get("phys", d["type"]))
        d["compu"] = copy.deepcopy(edit["new"]["compu"])
        d["phys"] = edit["new"]["phys"]
        if before == (d["compu"], d["phys"]):
            raise ValueError("edit does not change anything")
        return new
    svc = lay["services"][edit["service"]]
    if k == "rename":
        svc["name"] = edit["name"]
        svc["uid"] = edit["uid"]
        return new
    p = _msg(svc, edit["role"])["params"][edit["param"]]
    if not edit_applies(p, k):
        raise ValueError(f"edit {k} does not apply to a {p['kind']} parameter")
    field = ATTR_EDITS[k][0]
    if p.get(field) == edit["new"]:
        raise ValueError("edit does not change anything")
    p[field] = copy.deepcopy(edit["new"])
    return new


def dop_users(desc, dop_name):
    """{layer short name: [service short names]}: services applicable to the layer with a parameter
    (request or any response) that links the DOP directly (DOP short names are unique in a description)"""
    out = {}
    for li, lay in enumerate(desc["layers"]):
        out[lay["name"]] = [s["name"] for _o, s in effective_services(desc, li)
                            if any(p.get("dop") == dop_name
                                   for m in [s["request"]] + s["pos"] + s["neg"] for p in m["params"])]
    return out


def dop_modifications(d):
    """in-place modifications of a DOP the model can express (coded type and bit length stay)"""
    cur = (d.get("compu"), d.get("phys", d["type"]))
    cands = [({"offset": 0, "factor": 2}, d["type"]), ({"offset": 1, "factor": 1}, d["type"]),
             ({"offset": 3, "factor": 5}, d["type"]), ({"offset": 0, "factor": 2}, "A_FLOAT64"),
             ({"offset": 1, "factor": 1}, "A_INT32" if d["type"] == "A_UINT32" else "A_UINT32"),
             (None, d["type"])]
    return [{"compu": c, "phys": p} for c, p in cands if (c, p) != cur]


def attribute_candidates(desc, li, si, role, pi, kind):
    """all new values for one attribute that keep the description inside the envelope"""
    svc = desc["layers"][li]["services"][si]
    msg = _msg(svc, role)
    p = msg["params"][pi]
    if not edit_applies(p, kind):
        return []
    cands = []
    if kind == "byte_position":
        end = max(e for _s, e in layout(desc, li, msg))
        cands = [x for x in list(range(0, end + 3)) + [None] if x != p["pos"]]
    elif kind == "bit_length":
        cands = [b for b in (8, 16, 24, 32) if b != p["bits"]]
    elif kind in ("coded_value", "constant_value", "default_value"):
        cur = p[ATTR_EDITS[kind][0]]
        cands = sorted({v for v in (0, 1, 2, 3, 0x10, 0x22, 0x2E, 0x31, 0x3E, 0x7F, cur + 1, cur - 1)
                        if v >= 0 and v != cur})
    elif kind == "coded_values":
        vs = list(p["values"])
        fresh = [v for v in (0, 1, 2, 3, 0x10, 0x22, 0x31, 0x7E, vs[0] + 1) if v not in vs]
        # balanced: one value changed / an alternative added / an alternative removed (or reordered)
        cands = [[fresh[0]] + vs[1:], vs[:-1] + [fresh[1]], vs + [fresh[0]], [fresh[1]] + vs]
        if len(vs) > 1:
            cands += [vs[1:], vs[:-1], vs[1:], vs[::-1]]
    elif kind == "semantic":
        cands = [s for s in SEMANTICS if s != p["semantic"]]
    elif kind == "data_type":
        cands = [t for t in INT_TYPES if t != p["type"]]
    elif kind == "linked_dop":
        cands = [d["name"] for d in layer_dops(desc, li) if d["name"] != p["dop"]]
    out = []
    for c in cands:
        e = {"kind": kind, "layer": li, "service": si, "role": role, "param": pi, "new": c}
        try:
            nd = apply_edit(desc, e)
        except ValueError:
            continue
        if kind == "byte_position":
            # only real moves: explicit <-> implicit without moving the parameter is not generated
            nmsg = _msg(nd["layers"][li]["services"][si], role)
            if layout(nd, li, nmsg) == layout(desc, li, msg):
                continue
        if well_formed(nd):
            out.append(e)
    return out


# ---------------------------------------------------------------------------
# XML emission
# ---------------------------------------------------------------------------
def _param_xml(p, mid, dopids, tabids):
    sem = f' SEMANTIC="{p["semantic"]}"' if p["semantic"] else ""
    pos = "" if p["pos"] is None else f"<BYTE-POSITION>{p['pos']}</BYTE-POSITION>"
    k = p["kind"]
    head = f'<SHORT-NAME>{p["name"]}</SHORT-NAME>{pos}'
    t = XSI_PARAM_TYPE[k]
    if k in ("CC", "NRC"):
        dct = (f'<DIAG-CODED-TYPE BASE-DATA-TYPE="{p["type"]}" xsi:type="STANDARD-LENGTH-TYPE">'
               f'<BIT-LENGTH>{p["bits"]}</BIT-LENGTH></DIAG-CODED-TYPE>')
        if k == "CC":
            body = f'<CODED-VALUE>{p["value"]}</CODED-VALUE>{dct}'
        else:
            body = "<CODED-VALUES>" + "".join(f"<CODED-VALUE>{v}</CODED-VALUE>" for v in p["values"]) + \
                   f"</CODED-VALUES>{dct}"
        return f'<PARAM{sem} xsi:type="{t}">{head}{body}</PARAM>'
    if k == "VAL":
        dv = "" if p.get("default") is None else f'<PHYSICAL-DEFAULT-VALUE>{p["default"]}</PHYSICAL-DEFAULT-VALUE>'
        return f'<PARAM{sem} xsi:type="{t}">{head}{dv}<DOP-REF ID-REF="{dopids[p["dop"]]}"/></PARAM>'
    if k == "PC":
        return (f'<PARAM{sem} xsi:type="{t}">{head}<PHYS-CONSTANT-VALUE>{p["value"]}</PHYS-CONSTANT-VALUE>'
                f'<DOP-REF ID-REF="{dopids[p["dop"]]}"/></PARAM>')
    if k == "RES":
        return f'<PARAM{sem} xsi:type="{t}">{head}<BIT-LENGTH>{p["bits"]}</BIT-LENGTH></PARAM>'
    if k == "MR":
        return (f'<PARAM{sem} xsi:type="{t}">{head}<REQUEST-BYTE-POS>{p["rq_pos"]}</REQUEST-BYTE-POS>'
                f'<BYTE-LENGTH>{p["bits"] // 8}</BYTE-LENGTH></PARAM>')
    if k == "SYS":
        return (f'<PARAM{sem} SYSPARAM="{p["sysparam"]}" xsi:type="{t}">{head}'
                f'<DOP-REF ID-REF="{dopids[p["dop"]]}"/></PARAM>')
    if k == "LK":
        return (f'<PARAM{sem} ID="{mid}.{p["name"]}" xsi:type="{t}">{head}'
                f'<DOP-REF ID-REF="{dopids[p["dop"]]}"/></PARAM>')
    if k == "TK":
        return (f'<PARAM{sem} ID="{mid}.{p["name"]}" xsi:type="{t}">{head}'
                f'<TABLE-REF ID-REF="{tabids[p["table"]]}"/></PARAM>')
    if k == "TS":
        return f'<PARAM{sem} xsi:type="{t}">{head}<TABLE-KEY-REF ID-REF="{mid}.{p["key"]}"/></PARAM>'
    raise KeyError(k)


def _msg_xml(tag, mid, m, dopids, tabids=None):
    ps = [_param_xml(p, mid, dopids, tabids or {}) for p in m["params"]]
    return (f'<{tag} ID="{mid}"><SHORT-NAME>{m["name"]}</SHORT-NAME><PARAMS>{"".join(ps)}</PARAMS>'
            f'</{tag}>')


def _compu_xml(cm):
    if cm is None:
        return "<COMPU-METHOD><CATEGORY>IDENTICAL</CATEGORY></COMPU-METHOD>"
    return ("<COMPU-METHOD><CATEGORY>LINEAR</CATEGORY><COMPU-INTERNAL-TO-PHYS><COMPU-SCALES><COMPU-SCALE>"
            f"<COMPU-RATIONAL-COEFFS><COMPU-NUMERATOR><V>{cm['offset']}</V><V>{cm['factor']}</V></COMPU-NUMERATOR>"
            "<COMPU-DENOMINATOR><V>1</V></COMPU-DENOMINATOR></COMPU-RATIONAL-COEFFS></COMPU-SCALE></COMPU-SCALES>"
            "</COMPU-INTERNAL-TO-PHYS></COMPU-METHOD>")


def _layer_xml(desc, li):
    lay = desc["layers"][li]
    ln = lay["name"]
    tag = "BASE-VARIANT" if lay["parent"] is None else "ECU-VARIANT"
    dopids = {}
    if lay["parent"] is not None:
        pl = desc["layers"][lay["parent"]]
        dopids.update({d["name"]: f'{pl["name"]}.DOP.{d["name"]}' for d in pl["dops"]})
    dopids.update({d["name"]: f'{ln}.DOP.{d["name"]}' for d in lay["dops"]})
    tabids = {t["name"]: f'{desc["layers"][o]["name"]}.TAB.{t["name"]}' for o, t in layer_tables(desc, li)}
    x = [f'<{tag} ID="{ln}"><SHORT-NAME>{ln}</SHORT-NAME>']
    if lay["dops"]:
        x.append("<DIAG-DATA-DICTIONARY-SPEC><DATA-OBJECT-PROPS>")
        for d in lay["dops"]:
            x.append(f'<DATA-OBJECT-PROP ID="{ln}.DOP.{d["name"]}"><SHORT-NAME>{d["name"]}</SHORT-NAME>'
                     f'{_compu_xml(d.get("compu"))}'
                     f'<DIAG-CODED-TYPE BASE-DATA-TYPE="{d["type"]}" xsi:type="STANDARD-LENGTH-TYPE">'
                     f'<BIT-LENGTH>{d["bits"]}</BIT-LENGTH></DIAG-CODED-TYPE>'
                     f'<PHYSICAL-TYPE BASE-DATA-TYPE="{d.get("phys", d["type"])}"/></DATA-OBJECT-PROP>')
        x.append("</DATA-OBJECT-PROPS>")
        if lay.get("table"):
            t = lay["table"]
            tid, kid = tabids[t["name"]], dopids[t["key_dop"]]
            x.append(f'<TABLES><TABLE ID="{tid}"><SHORT-NAME>{t["name"]}</SHORT-NAME><KEY-DOP-REF ID-REF="{kid}"/>' +
                     "".join(f'<TABLE-ROW ID="{tid}.r{r}"><SHORT-NAME>{t["name"]}_r{r}</SHORT-NAME><KEY>{r}</KEY>'
                             f'<DATA-OBJECT-PROP-REF ID-REF="{kid}"/></TABLE-ROW>' for r in range(2)) +
                     "</TABLE></TABLES>")
        x.append("</DIAG-DATA-DICTIONARY-SPEC>")
    comms, rqs, prs, nrs = [], [], [], []
    for s in lay["services"]:
        u = s["uid"]
        sem = f' SEMANTIC="{s["semantic"]}"' if s["semantic"] else ""
        c = [f'<DIAG-SERVICE ID="{ln}.service.{u}"{sem}><SHORT-NAME>{s["name"]}</SHORT-NAME>',
             f'<REQUEST-REF ID-REF="{ln}.RQ.{s["request"]["name"]}"/>']
        rqs.append(_msg_xml("REQUEST", f'{ln}.RQ.{s["request"]["name"]}', s["request"], dopids, tabids))
        if s["pos"]:
            c.append("<POS-RESPONSE-REFS>")
            for m in s["pos"]:
                c.append(f'<POS-RESPONSE-REF ID-REF="{ln}.PR.{m["name"]}"/>')
                prs.append(_msg_xml("POS-RESPONSE", f'{ln}.PR.{m["name"]}', m, dopids, tabids))
            c.append("</POS-RESPONSE-REFS>")
        if s["neg"]:
            c.append("<NEG-RESPONSE-REFS>")
            for m in s["neg"]:
                c.append(f'<NEG-RESPONSE-REF ID-REF="{ln}.NR.{m["name"]}"/>')
                nrs.append(_msg_xml("NEG-RESPONSE", f'{ln}.NR.{m["name"]}', m, dopids, tabids))
            c.append("</NEG-RESPONSE-REFS>")
        c.append("</DIAG-SERVICE>")
        comms.append("".join(c))
    if comms:
        x.append("<DIAG-COMMS>" + "".join(comms) + "</DIAG-COMMS>")
    if rqs:
        x.append("<REQUESTS>" + "".join(rqs) + "</REQUESTS>")
    if prs:
        x.append("<POS-RESPONSES>" + "".join(prs) + "</POS-RESPONSES>")
    if nrs:
        x.append("<NEG-RESPONSES>" + "".join(nrs) + "</NEG-RESPONSES>")
    if lay["comparam_refs"]:
        x.append("<COMPARAM-REFS>")
        for idx, val in lay["comparam_refs"]:
            x.append(f'<COMPARAM-REF ID-REF="CS.CP_{idx}" DOCREF="CS" DOCTYPE="COMPARAM-SUBSET">'
                     f'<SIMPLE-VALUE>{val}</SIMPLE-VALUE></COMPARAM-REF>')
        x.append("</COMPARAM-REFS>")
    if lay["parent"] is not None:
        pn = desc["layers"][lay["parent"]]["name"]
        x.append(f'<PARENT-REFS><PARENT-REF ID-REF="{pn}" DOCREF="DLC" DOCTYPE="CONTAINER" '
                 f'xsi:type="BASE-VARIANT-REF"/></PARENT-REFS>')
    x.append(f"</{tag}>")
    return "".join(x)


def emit(desc) -> list:
    """[bytes, ...]: the ODX documents (comparam subset first, then the layer container)"""
    n = desc.get("n_comparams", 0)
    cs = [f'<?xml version="1.0" encoding="UTF-8"?><ODX MODEL-VERSION="2.2.0" {XSI}>'
          f'<COMPARAM-SUBSET ID="CS" CATEGORY="APP"><SHORT-NAME>CS</SHORT-NAME><COMPARAMS>']
    for i in range(n):
        cs.append(f'<COMPARAM ID="CS.CP_{i}" PARAM-CLASS="TIMING" CPTYPE="STANDARD" CPUSAGE="TESTER">'
                  f'<SHORT-NAME>CP_{i}</SHORT-NAME><PHYSICAL-DEFAULT-VALUE>{i}</PHYSICAL-DEFAULT-VALUE>'
                  f'<DATA-OBJECT-PROP-REF ID-REF="CS.DOP"/></COMPARAM>')
    cs.append('</COMPARAMS><DATA-OBJECT-PROPS><DATA-OBJECT-PROP ID="CS.DOP"><SHORT-NAME>DOP</SHORT-NAME>'
              '<COMPU-METHOD><CATEGORY>IDENTICAL</CATEGORY></COMPU-METHOD>'
              '<DIAG-CODED-TYPE BASE-DATA-TYPE="A_UINT32" xsi:type="STANDARD-LENGTH-TYPE">'
              '<BIT-LENGTH>32</BIT-LENGTH></DIAG-CODED-TYPE><PHYSICAL-TYPE BASE-DATA-TYPE="A_UINT32"/>'
              '</DATA-OBJECT-PROP></DATA-OBJECT-PROPS></COMPARAM-SUBSET></ODX>')
    bases = [i for i, l in enumerate(desc["layers"]) if l["parent"] is None]
    ecus = [i for i, l in enumerate(desc["layers"]) if l["parent"] is not None]
    d = [f'<?xml version="1.0" encoding="UTF-8"?><ODX MODEL-VERSION="2.2.0" {XSI}>'
         f'<DIAG-LAYER-CONTAINER ID="DLC"><SHORT-NAME>DLC</SHORT-NAME>']
    if bases:
        d.append("<BASE-VARIANTS>" + "".join(_layer_xml(desc, i) for i in bases) + "</BASE-VARIANTS>")
    if ecus:
        d.append("<ECU-VARIANTS>" + "".join(_layer_xml(desc, i) for i in ecus) + "</ECU-VARIANTS>")
    d.append("</DIAG-LAYER-CONTAINER></ODX>")
    return ["".join(cs).encode(), "".join(d).encode()]


# ---------------------------------------------------------------------------
# the shipped example: edits on the XML of the PDX members
# ---------------------------------------------------------------------------
ET.register_namespace("xsi", "http://www.w3.org/2001/XMLSchema-instance")
XSI_TYPE = "{http://www.w3.org/2001/XMLSchema-instance}type"
LAYER_TAGS = ("PROTOCOL", "FUNCTIONAL-GROUP", "BASE-VARIANT", "ECU-VARIANT", "ECU-SHARED-DATA")


class Pdx:
    """the ODX members of a PDX archive as element trees (member order kept)"""

    def __init__(self, path):
        self.members = []   # [name, root element]
        self.aux = []       # [(name, bytes)] the other members (auxiliary files)
        with zipfile.ZipFile(path) as z:
            for n in z.namelist():
                if re.search(r"\.odx[^.]*$", n.lower()):
                    self.members.append([n, ET.fromstring(z.read(n))])
                elif n.lower() != "index.xml":
                    self.aux.append((n, z.read(n)))

    def clone(self):
        c = object.__new__(Pdx)
        c.members = [[n, copy.deepcopy(r)] for n, r in self.members]
        c.aux = self.aux
        return c

    def documents(self) -> list:
        return [ET.tostring(r, encoding="utf-8", xml_declaration=True) for _n, r in self.members]

    # -- navigation ---------------------------------------------------------
    def layers(self):
        out = []
        for _n, r in self.members:
            for el in r.iter():
                if el.tag in LAYER_TAGS and el.get("ID"):
                    out.append(el)
        return out

    def layer(self, name):
        for el in self.layers():
            if el.findtext("SHORT-NAME") == name:
                return el
        raise KeyError(name)

    def all_elements(self):
        for _n, r in self.members:
            yield from r.iter()

    def by_id(self, layer_el, tag, idv):
        for el in layer_el.iter(tag):
            if el.get("ID") == idv:
                return el
        raise KeyError(idv)

    def services(self, layer_el):
        dc = layer_el.find("DIAG-COMMS")
        return [] if dc is None else [e for e in dc if e.tag == "DIAG-SERVICE"]

    def message_ids(self, svc_el):
        """[(role, tag, id)] of the request and responses a service element refers to"""
        out = []
        r = svc_el.find("REQUEST-REF")
        if r is not None:
            out.append((["request"], "REQUEST", r.get("ID-REF")))
        for i, e in enumerate(svc_el.iterfind("POS-RESPONSE-REFS/POS-RESPONSE-REF")):
            out.append((["pos", i], "POS-RESPONSE", e.get("ID-REF")))
        for i, e in enumerate(svc_el.iterfind("NEG-RESPONSE-REFS/NEG-RESPONSE-REF")):
            out.append((["neg", i], "NEG-RESPONSE", e.get("ID-REF")))
        return out

    def referenced_names(self):
        """short names used by any short-name reference, ids used by any id reference"""
        sn, ids = set(), set()
        for el in self.all_elements():
            if el.tag.endswith("SNREF") and el.get("SHORT-NAME"):
                sn.add(el.get("SHORT-NAME"))
            if el.get("ID-REF"):
                ids.add(el.get("ID-REF"))
        return sn, ids

    def services_using(self, msg_id):
        """ids of all DIAG-SERVICE elements (any layer) referring to the message id"""
        out = []
        for el in self.all_elements():
            if el.tag == "DIAG-SERVICE":
                if any(r.get("ID-REF") == msg_id for r in el.iter()
                       if r.tag in ("REQUEST-REF", "POS-RESPONSE-REF", "NEG-RESPONSE-REF")):
                    out.append(el.get("ID"))
        return out


# ---------------------------------------------------------------------------
# reference model on the XML level (used for the shipped example)
# ---------------------------------------------------------------------------
class Unsupported(Exception):
    """the XML uses a construct this small reference model does not interpret"""


def _sn(el):
    return el.findtext("SHORT-NAME")


def _layer_index(pdx):
    return {el.get("ID"): el for el in pdx.layers()}


def _single_parent(layer_el):
    prs = layer_el.findall("PARENT-REFS/PARENT-REF")
    if len(prs) > 1:
        raise Unsupported("more than one PARENT-REF")
    return prs[0] if prs else None


def eff_comms(pdx, layer_el, _idx=None):
    """{short name: DIAG-SERVICE / SINGLE-ECU-JOB element} applicable to the layer (value inheritance)"""
    idx = _idx or _layer_index(pdx)
    out = {}
    pr = _single_parent(layer_el)
    if pr is not None:
        excl = {e.get("SHORT-NAME") for e in pr.iterfind("NOT-INHERITED-DIAG-COMMS/NOT-INHERITED-DIAG-COMM/DIAG-COMM-SNREF")}
        for n, e in eff_comms(pdx, idx[pr.get("ID-REF")], idx).items():
            if n not in excl:
                out[n] = e
    dc = layer_el.find("DIAG-COMMS")
    for e in (dc if dc is not None else []):
        if e.tag == "DIAG-COMM-REF":
            raise Unsupported("DIAG-COMM-REF")
        out[_sn(e)] = e
    return out


def eff_services(pdx, layer_el):
    return [e for e in eff_comms(pdx, layer_el).values() if e.tag == "DIAG-SERVICE"]


def eff_dops(pdx, layer_el, _idx=None):
    idx = _idx or _layer_index(pdx)
    out = {}
    pr = _single_parent(layer_el)
    if pr is not None:
        excl = {e.get("SHORT-NAME") for e in pr.iterfind("NOT-INHERITED-DOPS/NOT-INHERITED-DOP/DOP-BASE-SNREF")}
        for n, e in eff_dops(pdx, idx[pr.get("ID-REF")], idx).items():
            if n not in excl:
                out[n] = e
    for e in layer_el.iterfind("DIAG-DATA-DICTIONARY-SPEC/DATA-OBJECT-PROPS/DATA-OBJECT-PROP"):
        out[_sn(e)] = e
    return out


def eff_comparams(pdx, layer_el, _idx=None):
    """communication parameters applicable to the layer: keyed by (comparam id, protocol), a local
    definition replaces an inherited one with the same key"""
    idx = _idx or _layer_index(pdx)
    out = {}
    pr = _single_parent(layer_el)
    if pr is not None:
        out.update(eff_comparams(pdx, idx[pr.get("ID-REF")], idx))
    for e in layer_el.iterfind("COMPARAM-REFS/COMPARAM-REF"):
        ps = e.find("PROTOCOL-SNREF")
        out[(e.get("ID-REF"), None if ps is None else ps.get("SHORT-NAME"))] = e
    return out


def pdx_counts(pdx):
    """{layer short name: {"services","dops","comparams"}}"""
    return {_sn(l): {"services": len(eff_services(pdx, l)), "dops": len(eff_dops(pdx, l)),
                     "comparams": len(eff_comparams(pdx, l))} for l in pdx.layers()}


def find_by_id(pdx, tag, idv):
    for el in pdx.all_elements():
        if el.tag == tag and el.get("ID") == idv:
            return el
    raise KeyError(idv)


def svc_message(pdx, svc_el, role):
    for r, tag, mid in pdx.message_ids(svc_el):
        if r == role:
            return find_by_id(pdx, tag, mid)
    raise KeyError(role)


def xparams(msg_el):
    return msg_el.findall("PARAMS/PARAM")


def _std_int_type(dct):
    return (dct is not None and dct.get(XSI_TYPE) == "STANDARD-LENGTH-TYPE" and
            dct.get("BASE-DATA-TYPE") in INT_TYPES and dct.get("IS-HIGHLOW-BYTE-ORDER") in (None, "true") and
            dct.find("BIT-MASK") is None and int(dct.findtext("BIT-LENGTH")) % 8 == 0)


def xparam_info(p):
    """attributes of a CODED-CONST / VALUE parameter the model can edit, else None"""
    t = p.get(XSI_TYPE)
    if p.find("BIT-POSITION") is not None and p.findtext("BIT-POSITION").strip() not in ("", "0"):
        return None
    bp = p.findtext("BYTE-POSITION")
    info = {"name": _sn(p), "pos": None if bp is None else int(bp), "semantic": p.get("SEMANTIC")}
    if t == "CODED-CONST":
        dct = p.find("DIAG-CODED-TYPE")
        if not _std_int_type(dct):
            return None
        info.update(kind="CC", bits=int(dct.findtext("BIT-LENGTH")), type=dct.get("BASE-DATA-TYPE"),
                    value=int(p.findtext("CODED-VALUE")))
        return info
    if t == "NRC-CONST":
        dct = p.find("DIAG-CODED-TYPE")
        if not _std_int_type(dct):
            return None
        info.update(kind="NRC", bits=int(dct.findtext("BIT-LENGTH")), type=dct.get("BASE-DATA-TYPE"),
                    values=[int(e.text) for e in p.iterfind("CODED-VALUES/CODED-VALUE")])
        return info
    if t == "VALUE" and p.find("DOP-REF") is not None:
        info.update(kind="VAL", dop=p.find("DOP-REF").get("ID-REF"),
                    has_default=p.find("PHYSICAL-DEFAULT-VALUE") is not None)
        return info
    return None


def xml_prefix(req_el, cut=False):
    """constant prefix of a request: bytes of the leading CODED-CONST parameters"""
    items = []
    cursor = 0
    for p in xparams(req_el):
        t = p.get(XSI_TYPE)
        if t == "PHYS-CONST":
            raise Unsupported("PHYS-CONST in a request prefix")
        if t != "CODED-CONST":
            break
        info = xparam_info(p)
        if info is None:
            raise Unsupported("coded constant the model does not interpret")
        start = cursor if info["pos"] is None else info["pos"]
        end = start + info["bits"] // 8
        items.append((start, end, info["value"], info["type"] == "A_INT32"))
        cursor = end
    return _assemble_prefix(items, cut)


def pdx_prefixes(pdx, cut=False):
    """{layer short name: {service short name: prefix}}"""
    out = {}
    for l in pdx.layers():
        d = {}
        for s in eff_services(pdx, l):
            rr = s.find("REQUEST-REF")
            d[_sn(s)] = xml_prefix(find_by_id(pdx, "REQUEST", rr.get("ID-REF")), cut)
        out[_sn(l)] = d
    return out


def pdx_well_formed(pdx):
    for cut in (False, True):
        for d in pdx_prefixes(pdx, cut).values():
            if len(set(d.values())) != len(d):
                return False
    return True


def _set_pos(p, new):
    el = p.find("BYTE-POSITION")
    if new is None:
        if el is not None:
            p.remove(el)
        return
    if el is None:
        el = ET.Element("BYTE-POSITION")
        at = 0
        for i, c in enumerate(list(p)):
            if c.tag in ("SHORT-NAME", "LONG-NAME", "DESC"):
                at = i + 1
        p.insert(at, el)
    el.text = str(new)


def pdx_apply(pdx, edit):
    """edited clone.  edit (service = ODX id of a DIAG-SERVICE):
        {"kind": "identity"} | {"kind": "delete", "service"} |
        {"kind": "rename", "service", "name", "uid"} |
        {"kind": "add", "service": template id, "name", "uid", "param": index in its request, "new": value} |
        {"kind": attribute, "service", "role", "param", "new"} |
        {"kind": "dop_modified", "dop": id of a DATA-OBJECT-PROP, "new": {"compu": {"offset","factor"}}}
            IDENTICAL compu method replaced by a LINEAR one, everything else (id, name, types) kept"""
    new = pdx.clone()
    k = edit["kind"]
    if k == "identity":
        return new
    if k == "dop_modified":
        d = find_by_id(new, "DATA-OBJECT-PROP", edit["dop"])
        cm = d.find("COMPU-METHOD")
        if cm is None or cm.findtext("CATEGORY") != "IDENTICAL":
            raise ValueError("only IDENTICAL compu methods are rewritten")
        at = list(d).index(cm)
        d.remove(cm)
        d.insert(at, ET.fromstring(_compu_xml(edit["new"]["compu"])))
        return new
    svc = find_by_id(new, "DIAG-SERVICE", edit["service"])
    parent = next(e for e in new.all_elements() if svc in list(e))
    if k == "delete":
        parent.remove(svc)
        return new
    if k == "rename":
        old_id = svc.get("ID")
        svc.set("ID", edit["uid"])
        svc.find("SHORT-NAME").text = edit["name"]
        for e in new.all_elements():
            if e.get("ID-REF") == old_id:
                e.set("ID-REF", edit["uid"])
        return new
    if k == "add":
        rq = svc_message(new, svc, ["request"])
        rq_parent = next(e for e in new.all_elements() if rq in list(e))
        nsvc, nrq = copy.deepcopy(svc), copy.deepcopy(rq)
        nsvc.set("ID", edit["uid"])
        nsvc.find("SHORT-NAME").text = edit["name"]
        nrq.set("ID", edit["uid"] + ".RQ")
        nrq.find("SHORT-NAME").text = edit["name"] + "_rq"
        nsvc.find("REQUEST-REF").set("ID-REF", edit["uid"] + ".RQ")
        xparams(nrq)[edit["param"]].find("CODED-VALUE").text = str(edit["new"])
        parent.insert(list(parent).index(svc) + 1, nsvc)
        rq_parent.append(nrq)
        return new
    p = xparams(svc_message(new, svc, edit["role"]))[edit["param"]]
    v = edit["new"]
    if k == "byte_position":
        _set_pos(p, v)
    elif k == "bit_length":
        p.find("DIAG-CODED-TYPE/BIT-LENGTH").text = str(v)
    elif k == "coded_value":
        p.find("CODED-VALUE").text = str(v)
    elif k == "coded_values":
        cvs = p.find("CODED-VALUES")
        for e in list(cvs):
            cvs.remove(e)
        for x in v:
            ET.SubElement(cvs, "CODED-VALUE").text = str(x)
    elif k == "semantic":
        if v is None:
            p.attrib.pop("SEMANTIC", None)
        else:
            p.set("SEMANTIC", v)
    elif k == "data_type":
        p.find("DIAG-CODED-TYPE").set("BASE-DATA-TYPE", v)
    elif k == "linked_dop":
        p.find("DOP-REF").set("ID-REF", v)
    else:
        raise ValueError(k)
    return new


def pdx_old_value(pdx, edit):
    svc = find_by_id(pdx, "DIAG-SERVICE", edit["service"])
    info = xparam_info(xparams(svc_message(pdx, svc, edit["role"]))[edit["param"]])
    return info[ATTR_EDITS[edit["kind"]][0]]


def _dop_signature(d):
    dct, pt = d.find("DIAG-CODED-TYPE"), d.find("PHYSICAL-TYPE")
    if dct is None or dct.get(XSI_TYPE) != "STANDARD-LENGTH-TYPE" or d.find("COMPU-METHOD/CATEGORY") is None:
        return None
    return (dct.get("BASE-DATA-TYPE"), dct.findtext("BIT-LENGTH"), None if pt is None else pt.get("BASE-DATA-TYPE"),
            d.findtext("COMPU-METHOD/CATEGORY") == "IDENTICAL")


def pdx_direct_dop_users(pdx, dop_id):
    """ids of the request/response elements with a VALUE parameter linking the DOP, or None if the DOP is
    (also) used in a way the model does not follow (structures, tables, constants, defaults, short-name refs)"""
    parent = {c: e for e in pdx.all_elements() for c in e}
    msgs = []
    for el in pdx.all_elements():
        if el.get("ID-REF") != dop_id:
            continue
        prm = parent.get(el)
        if el.tag != "DOP-REF" or prm is None or prm.tag != "PARAM" or prm.get(XSI_TYPE) != "VALUE" or \
                prm.find("PHYSICAL-DEFAULT-VALUE") is not None:
            return None
        msg = parent.get(parent.get(prm))
        if msg is None or msg.tag not in ("REQUEST", "POS-RESPONSE", "NEG-RESPONSE"):
            return None
        msgs.append(msg.get("ID"))
    return msgs


def pdx_enumerate_edits(pdx):
    """every single edit of the example the model can express and keep inside the envelope"""
    snrefs, idrefs = pdx.referenced_names()
    edits = [{"kind": "identity"}]
    seen_attr = set()
    for layer in pdx.layers():
        for d in layer.iterfind("DIAG-DATA-DICTIONARY-SPEC/DATA-OBJECT-PROPS/DATA-OBJECT-PROP"):
            sig = _dop_signature(d)
            if sig is None or not sig[3] or sig[0] not in INT_TYPES or _sn(d) in snrefs:
                continue
            if pdx_direct_dop_users(pdx, d.get("ID")):
                edits.append({"kind": "dop_modified", "dop": d.get("ID"), "new": {"compu": {"offset": 1, "factor": 2}}})
    for layer in pdx.layers():
        dops = eff_dops(pdx, layer)
        for svc in pdx.services(layer):
            sid, name = svc.get("ID"), _sn(svc)
            free = name not in snrefs and sid not in idrefs
            if free:
                edits.append({"kind": "delete", "service": sid})
                edits.append({"kind": "rename", "service": sid, "name": name + "_renamed", "uid": sid + ".renamed"})
            rq = svc_message(pdx, svc, ["request"])
            # add: a copy of this service whose last leading constant differs
            lead = []
            for i, p in enumerate(xparams(rq)):
                if p.get(XSI_TYPE) != "CODED-CONST":
                    break
                lead.append(i)
            if lead:
                info = xparam_info(xparams(rq)[lead[-1]])
                for v in (info["value"] + 1, info["value"] + 2, info["value"] - 1, 0x55):
                    if 0 <= v < (1 << (info["bits"] - (1 if info["type"] == "A_INT32" else 0))):
                        e = {"kind": "add", "service": sid, "name": name + "_copy", "uid": sid + ".copy",
                             "param": lead[-1], "new": v}
                        if pdx_well_formed(pdx_apply(pdx, e)):
                            edits.append(e)
                            break
            for role, tag, mid in pdx.message_ids(svc):
                msg = find_by_id(pdx, tag, mid)
                ps = xparams(msg)
                infos = [xparam_info(p) for p in ps]
                for pi, info in enumerate(infos):
                    if info is None:
                        continue
                    cands = []
                    cands += [("semantic", s) for s in ("DATA", "ID", None) if s != info["semantic"]][:2]
                    if info["pos"] is not None:
                        cands.append(("byte_position", info["pos"] + 40))
                    if info["kind"] == "NRC":
                        vs = info["values"]
                        fresh = [v for v in (vs[0] + 1, 0x7E, 1) if v not in vs and 0 <= v < (1 << (info["bits"] - 1))]
                        if fresh:
                            cands += [("coded_values", [fresh[0]] + vs[1:]), ("coded_values", vs + [fresh[0]])]
                        if len(vs) > 1:
                            cands.append(("coded_values", vs[:-1]))
                        if all(v < (1 << (info["bits"] - 1)) for v in vs):
                            cands.append(("data_type", "A_INT32" if info["type"] == "A_UINT32" else "A_UINT32"))
                    elif info["kind"] == "CC":
                        unsigned = info["type"] == "A_UINT32"
                        hi = 1 << (info["bits"] - (0 if unsigned else 1))
                        cands += [("coded_value", v) for v in (info["value"] + 1, info["value"] - 1) if 0 <= v < hi][:2]
                        if info["value"] < (1 << (info["bits"] - 1)):
                            cands.append(("data_type", "A_INT32" if unsigned else "A_UINT32"))
                        last = pi == len(ps) - 1 and all(
                            (o.findtext("BYTE-POSITION") is None or info["pos"] is None or
                             int(o.findtext("BYTE-POSITION")) <= info["pos"]) for o in ps)
                        if last:
                            cands += [("bit_length", b) for b in (16, 32) if b > info["bits"]]
                    else:
                        cur = next((d for d in dops.values() if d.get("ID") == info["dop"]), None)
                        sig = None if cur is None else _dop_signature(cur)
                        if sig is not None and not info["has_default"]:
                            for d in dops.values():
                                if d is not cur and _dop_signature(d) == sig and _sn(d) not in snrefs:
                                    cands.append(("linked_dop", d.get("ID")))
                    for kind, v in cands:
                        if (mid, pi, kind, repr(v)) in seen_attr:   # message shared with an earlier service
                            continue
                        seen_attr.add((mid, pi, kind, repr(v)))
                        e = {"kind": kind, "service": sid, "role": role, "param": pi, "new": v}
                        if tag == "REQUEST" and kind in ("byte_position", "coded_value", "bit_length", "data_type"):
                            if not pdx_well_formed(pdx_apply(pdx, e)):
                                continue
                        edits.append(e)
    return edits


# ---------------------------------------------------------------------------
# layer-overview descriptions: several layers of all kinds, each counted quantity independently zero / non-zero
# ---------------------------------------------------------------------------
#   mdesc = {"n_comparams": n, "layers": [{"name", "kind", "parent": index of an earlier layer | None,
#                                           "n_services": k, "n_dops": k, "comparams": [comparam index, ...]}]}
LAYER_KINDS = ["PROTOCOL", "FUNCTIONAL-GROUP", "ECU-SHARED-DATA", "BASE-VARIANT", "ECU-VARIANT"]
ALLOWED_PARENTS = {"ECU-VARIANT": ("BASE-VARIANT", "FUNCTIONAL-GROUP", "PROTOCOL", "ECU-SHARED-DATA"),
                   "BASE-VARIANT": ("FUNCTIONAL-GROUP", "PROTOCOL", "ECU-SHARED-DATA"),
                   "FUNCTIONAL-GROUP": ("PROTOCOL", "ECU-SHARED-DATA"),
                   "PROTOCOL": ("ECU-SHARED-DATA",), "ECU-SHARED-DATA": ()}
_CONTAINER_TAG = {"PROTOCOL": "PROTOCOLS", "FUNCTIONAL-GROUP": "FUNCTIONAL-GROUPS", "ECU-SHARED-DATA": "ECU-SHARED-DATAS",
                  "BASE-VARIANT": "BASE-VARIANTS", "ECU-VARIANT": "ECU-VARIANTS"}


def m_well_formed(md) -> bool:
    names = [l["name"] for l in md["layers"]]
    if len(set(names)) != len(names):
        return False
    for i, l in enumerate(md["layers"]):
        if l["kind"] not in LAYER_KINDS:
            return False
        if l["parent"] is not None and not (0 <= l["parent"] < i and
                                            md["layers"][l["parent"]]["kind"] in ALLOWED_PARENTS[l["kind"]]):
            return False
        if l["kind"] == "ECU-SHARED-DATA" and l["comparams"]:
            return False        # an ECU-SHARED-DATA is no hierarchy element: it has no COMPARAM-REFS
        if any(not (0 <= c < md["n_comparams"]) for c in l["comparams"]) or len(set(l["comparams"])) != len(l["comparams"]):
            return False
    return True


def m_names(md, i):
    """effective short names {"services": [...], "dops": [...], "comparams": [...]} of layer i: everything of
    the parent chain is inherited (all short names are unique), communication parameters are keyed by comparam"""
    l = md["layers"][i]
    out = {"services": [], "dops": [], "comparams": []}
    if l["parent"] is not None:
        out = m_names(md, l["parent"])
        if l["kind"] == "ECU-SHARED-DATA":
            out["comparams"] = []
    out["services"] = out["services"] + [f"{l['name']}_s{k}" for k in range(l["n_services"])]
    out["dops"] = out["dops"] + [f"{l['name']}_d{k}" for k in range(l["n_dops"])]
    out["comparams"] = out["comparams"] + [f"CP_{c}" for c in l["comparams"] if f"CP_{c}" not in out["comparams"]]
    return out


def m_counts(md, i):
    return {k: len(v) for k, v in m_names(md, i).items()}


def m_emit(md) -> list:
    docs = emit({"layers": [], "n_comparams": md["n_comparams"]})[:1]
    docs.append(f'<?xml version="1.0" encoding="UTF-8"?><ODX MODEL-VERSION="2.2.0" {XSI}>'
                f'<COMPARAM-SPEC ID="CSPEC"><SHORT-NAME>CSPEC</SHORT-NAME></COMPARAM-SPEC></ODX>'.encode())
    per_kind = {k: [] for k in LAYER_KINDS}
    sub = 0
    for l in md["layers"]:
        ln, tag = l["name"], l["kind"]
        x = [f'<{tag} ID="{ln}"><SHORT-NAME>{ln}</SHORT-NAME>']
        if l["n_dops"]:
            x.append("<DIAG-DATA-DICTIONARY-SPEC><DATA-OBJECT-PROPS>")
            for k in range(l["n_dops"]):
                x.append(f'<DATA-OBJECT-PROP ID="{ln}.DOP.{k}"><SHORT-NAME>{ln}_d{k}</SHORT-NAME>{_compu_xml(None)}'
                         f'<DIAG-CODED-TYPE BASE-DATA-TYPE="A_UINT32" xsi:type="STANDARD-LENGTH-TYPE">'
                         f'<BIT-LENGTH>8</BIT-LENGTH></DIAG-CODED-TYPE><PHYSICAL-TYPE BASE-DATA-TYPE="A_UINT32"/>'
                         f'</DATA-OBJECT-PROP>')
            x.append("</DATA-OBJECT-PROPS></DIAG-DATA-DICTIONARY-SPEC>")
        if l["n_services"]:
            comms, rqs = [], []
            for k in range(l["n_services"]):
                comms.append(f'<DIAG-SERVICE ID="{ln}.service.{k}"><SHORT-NAME>{ln}_s{k}</SHORT-NAME>'
                             f'<REQUEST-REF ID-REF="{ln}.RQ.{k}"/></DIAG-SERVICE>')
                ps = [{"kind": "CC", "name": "sid", "pos": 0, "bits": 8, "value": 0x22, "type": "A_UINT32", "semantic": None},
                      {"kind": "CC", "name": "sub", "pos": 1, "bits": 16, "value": sub, "type": "A_UINT32", "semantic": None}]
                sub += 1
                rqs.append(_msg_xml("REQUEST", f"{ln}.RQ.{k}", {"name": f"{ln}_rq{k}", "params": ps}, {}))
            x.append("<DIAG-COMMS>" + "".join(comms) + "</DIAG-COMMS><REQUESTS>" + "".join(rqs) + "</REQUESTS>")
        if l["comparams"]:
            x.append("<COMPARAM-REFS>")
            for c in l["comparams"]:
                x.append(f'<COMPARAM-REF ID-REF="CS.CP_{c}" DOCREF="CS" DOCTYPE="COMPARAM-SUBSET">'
                         f'<SIMPLE-VALUE>{c}</SIMPLE-VALUE></COMPARAM-REF>')
            x.append("</COMPARAM-REFS>")
        if tag == "PROTOCOL":
            x.append('<COMPARAM-SPEC-REF ID-REF="CSPEC" DOCREF="CSPEC" DOCTYPE="COMPARAM-SPEC"/>')
        if l["parent"] is not None:
            p = md["layers"][l["parent"]]
            x.append(f'<PARENT-REFS><PARENT-REF ID-REF="{p["name"]}" DOCREF="DLC" DOCTYPE="CONTAINER" '
                     f'xsi:type="{p["kind"]}-REF"/></PARENT-REFS>')
        x.append(f"</{tag}>")
        per_kind[tag].append("".join(x))
    d = [f'<?xml version="1.0" encoding="UTF-8"?><ODX MODEL-VERSION="2.2.0" {XSI}>'
         f'<DIAG-LAYER-CONTAINER ID="DLC"><SHORT-NAME>DLC</SHORT-NAME>']
    for k in LAYER_KINDS:
        if per_kind[k]:
            d.append(f"<{_CONTAINER_TAG[k]}>" + "".join(per_kind[k]) + f"</{_CONTAINER_TAG[k]}>")
    d.append("</DIAG-LAYER-CONTAINER></ODX>")
    docs.append("".join(d).encode())
    return docs
