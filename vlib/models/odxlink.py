"""Reference model for C10: which object does every ODXLINK / short-name reference of a
document set name?  Independent of odxtools (no import of it here).

Three parts:

* IR          plain JSON-able dicts describing a document set (COMPARAM-SPEC documents,
              DIAG-LAYER-CONTAINER documents with layers, DOPs, structures, fields, muxes,
              tables, requests, responses, services and the references between them).
              Every object carries a unique integer ``uid`` which the emitter writes into
              LONG-NAME as ``uid:<n>`` so a loaded object can be identified.
* emit()      IR -> list of ODX 2.2 XML documents (bytes), built with ElementTree.
* Model       the reference resolver: for every reference *site* the set of uids the
              reference may be bound to according to the ODX rules stated in DESIGN C10, and a
              status ``ok`` (exactly these), ``bad`` (unresolvable / ambiguous: loading must
              raise) or ``loose`` (the rules do not fix the outcome: nothing is asserted).

ODX rules used (and nothing more):

R1  A reference with DOCREF/DOCTYPE names the object carrying ID-REF inside that document
    fragment (a container document with everything in it, a layer with everything in it, a
    comparam spec).  An unknown fragment or an id that the fragment does not carry is
    unresolvable.  Objects a layer merely *imports* are not part of that layer's fragment.
R2  A reference without DOCREF inside layer L of container C names the object carrying the
    id in L, else an object made visible to L by one of L's IMPORT-REFs or carried by C
    (a sibling layer of the same file).  When an imported id collides with an id of C, or two
    imports carry the id, either object is accepted (the order is not fixed by the statement).
R2b Sibling layers of one container may re-use a local id for layer-local objects (fragments are
    (container, layer) pairs; the quantifier names "identical local IDs in different fragments").
    A reference without DOCREF from inside layer L then names L's OWN object (innermost fragment
    first).  What such an id names from outside the carrying layers (no DOCREF from a sibling
    that does not carry it, DOCREF to the container fragment) is not decided -> loose.
R2c An id that L does not carry itself but exactly one ESD imported by L does names the imported
    object even when a SIBLING layer of L's container carries the same id: "the imported objects
    shall behave as if they were defined by the importing layer" (comment in DiagLayer.
    _resolve_odxlinks; registered with overwrite=False so that only L's own definitions win), and
    the layer fragment is searched before the container-wide one (R2b).  Collision with the
    container element's own id, or the id carried by two imports -> loose.
R3  IMPORT-REFs extend the importing layer only, and are not transitive.
R4  A short-name reference names the unique object of that short name in its context: the
    owning layer's view after value inheritance (local objects override inherited ones, per
    category: all DOP kinds / DATA-OBJECT-PROPs / STRUCTUREs / TABLEs), or the enclosing
    parameter list (TABLE-KEY-SNREF).  No candidate, or several candidates that are all local
    to the context -> unresolvable.  Several candidates through inheritance -> loose.
    Whether imported objects are visible to short-name references is not asserted (loose).
R6  History: after the loaded object tree has been edited (an object removed from / appended to
    the list of its layer, its ODX id changed, replaced by a copy) and Database.refresh() has been
    called, every reference is bound as a fresh load of the edited documents would bind it:
    R1-R5 are applied to the edited configuration, nothing of the earlier one may survive.
R5  retarget_snrefs(db, X) rebinds the layer-context short-name references owned by X and by
    the (transitive) parents of X to X's view.
"""
from __future__ import annotations

from xml.etree import ElementTree as ET

TYPES = ["ECU-SHARED-DATA", "PROTOCOL", "FUNCTIONAL-GROUP", "BASE-VARIANT", "ECU-VARIANT"]
GROUP = {"PROTOCOL": "PROTOCOLS", "FUNCTIONAL-GROUP": "FUNCTIONAL-GROUPS", "BASE-VARIANT": "BASE-VARIANTS",
         "ECU-VARIANT": "ECU-VARIANTS", "ECU-SHARED-DATA": "ECU-SHARED-DATAS"}
ALLOWED_PARENTS = {"ECU-VARIANT": ["BASE-VARIANT", "ECU-SHARED-DATA"],
                   "BASE-VARIANT": ["FUNCTIONAL-GROUP", "PROTOCOL", "ECU-SHARED-DATA"],
                   "FUNCTIONAL-GROUP": ["PROTOCOL", "ECU-SHARED-DATA"],
                   "PROTOCOL": ["ECU-SHARED-DATA"], "ECU-SHARED-DATA": []}
XSI = "http://www.w3.org/2001/XMLSchema-instance"

# object kinds
DOPLIKE = ("dop", "struct", "sfield", "demf", "mux")
LAYER_LISTS = {"dops": "dop", "structs": "struct", "sfields": "sfield", "demfs": "demf", "muxs": "mux",
               "tables": "table", "reqs": "req", "poss": "pos", "negs": "neg", "svcs": "svc", "cdatas": "cdata"}

# reference kinds: name -> (expected target kinds, SNREF view category or None)
RK = {
    "PARENT-REF": (("layer",), None),
    "IMPORT-REF": (("layer",), None),
    "COMPARAM-SPEC-REF": (("spec",), None),
    "DIAG-COMM-REF": (("svc",), None),
    "REQUEST-REF": (("req",), None),
    "POS-RESPONSE-REF": (("pos",), None),
    "NEG-RESPONSE-REF": (("neg",), None),
    "DOP-REF": (DOPLIKE, None),
    "DOP-SNREF": (DOPLIKE, "alldops"),
    "TABLE-REF": (("table",), None),
    "TABLE-SNREF": (("table",), "table"),
    "TABLE-ROW-REF": (("row",), None),
    "TABLE-KEY-REF": (("tkey",), None),
    "TABLE-KEY-SNREF": (("tkey",), "params"),
    "LENGTH-KEY-REF": (("lkey",), None),
    "BASIC-STRUCTURE-REF": (("struct",), None),
    "BASIC-STRUCTURE-SNREF": (("struct",), "struct"),
    "DYN-END-DOP-REF": (("dop",), None),
    "SWITCH-KEY/DATA-OBJECT-PROP-REF": (("dop",), None),
    "CASE/STRUCTURE-REF": (("struct",), None),
    "CASE/STRUCTURE-SNREF": (("struct",), "struct"),
    "DEFAULT-CASE/STRUCTURE-REF": (("struct",), None),
    "DEFAULT-CASE/STRUCTURE-SNREF": (("struct",), "struct"),
    "KEY-DOP-REF": (("dop",), None),
    "TABLE-ROW/STRUCTURE-REF": (("struct",), None),
    "TABLE-ROW/STRUCTURE-SNREF": (("struct",), "struct"),
    "TABLE-ROW/DATA-OBJECT-PROP-REF": (("dop",), None),
    "TABLE-ROW/DATA-OBJECT-PROP-SNREF": (("dop",), "dop"),
    "COMPANY-DATA-REF": (("cdata",), None),               # ADMIN-DATA/COMPANY-DOC-INFOS/COMPANY-DOC-INFO
    "TEAM-MEMBER-REF": (("tmember",), None),             #   "
    "DOC-REVISION/TEAM-MEMBER-REF": (("tmember",), None),  # ADMIN-DATA/DOC-REVISIONS/DOC-REVISION
    "TABLE/TABLE-ROW-REF": (("row",), None),          # a table including a row another table defines
    "PROTOCOL-SNREF": (("layer",), "protocols"),      # DIAG-COMM/PROTOCOL-SNREFS: the layer's protocols
}
CAT_KINDS = {"alldops": DOPLIKE, "dop": ("dop",), "struct": ("struct",), "table": ("table",)}
KIND_LIST = {v: k for k, v in LAYER_LISTS.items()}
INHERITED_KINDS = ("dop", "struct", "sfield", "demf", "mux", "table", "svc")


def rk_name(base: str, ref: dict) -> str:
    """reference kind of a site given the ID-REF element name and the form of the reference"""
    if ref.get("f") == "sn":
        return base[:-4] + "-SNREF" if base.endswith("-REF") else base
    return base


# ---------------------------------------------------------------------------
# walking the IR
# ---------------------------------------------------------------------------
def iter_layers(case):
    for c in case["containers"]:
        for l in c["layers"]:
            yield c, l


def iter_param_lists(layer):
    """(list kind, index, holder object) of every parameter list of a layer"""
    for lk in ("reqs", "poss", "negs", "structs"):
        for i, o in enumerate(layer.get(lk, [])):
            yield lk, i, o


def iter_sites(layer):
    """Yield (path, base reference element name, holder, key) for every reference of a layer.
    holder[key] is the reference dict.  path identifies the site (without the layer)."""
    def admin(prefix, a):
        for k, cdi in enumerate(a.get("cdis", [])):
            yield prefix + ("cdi", k, "cd"), "COMPANY-DATA-REF", cdi, "cd"
            if cdi.get("tm") is not None:
                yield prefix + ("cdi", k, "tm"), "TEAM-MEMBER-REF", cdi, "tm"
        for k, rev in enumerate(a.get("revs", [])):
            if rev.get("tm") is not None:
                yield prefix + ("rev", k, "tm"), "DOC-REVISION/TEAM-MEMBER-REF", rev, "tm"
    if layer.get("admin") is not None:
        yield from admin(("admin",), layer["admin"])
    for lk in ("reqs", "svcs", "dops"):
        for j, o in enumerate(layer.get(lk, [])):
            if o.get("admin") is not None:
                yield from admin((lk, j, "admin"), o["admin"])
    for i, _ in enumerate(layer.get("parents", [])):
        yield ("parent", i), "PARENT-REF", layer["parents"], i
    for i, _ in enumerate(layer.get("imports", [])):
        yield ("import", i), "IMPORT-REF", layer["imports"], i
    if layer.get("cpspec") is not None:
        yield ("cpspec",), "COMPARAM-SPEC-REF", layer, "cpspec"
    for i, _ in enumerate(layer.get("commrefs", [])):
        yield ("commref", i), "DIAG-COMM-REF", layer["commrefs"], i
    for j, s in enumerate(layer.get("svcs", [])):
        yield ("svc", j, "request"), "REQUEST-REF", s, "request"
        for k, _ in enumerate(s.get("pos", [])):
            yield ("svc", j, "pos", k), "POS-RESPONSE-REF", s["pos"], k
        for k, _ in enumerate(s.get("neg", [])):
            yield ("svc", j, "neg", k), "NEG-RESPONSE-REF", s["neg"], k
        for k, _ in enumerate(s.get("prot", [])):
            yield ("svc", j, "prot", k), "PROTOCOL-SNREF", s["prot"], k
    for lk, j, o in iter_param_lists(layer):
        for k, p in enumerate(o.get("params", [])):
            base = (lk, j, "param", k)
            if p["kind"] in ("VALUE", "LENGTH-KEY"):
                yield base + ("dop",), "DOP-REF", p, "dop"
            elif p["kind"] == "TABLE-KEY":
                if p.get("table") is not None:
                    yield base + ("table",), "TABLE-REF", p, "table"
                else:
                    yield base + ("row",), "TABLE-ROW-REF", p, "row"
            elif p["kind"] == "TABLE-STRUCT":
                yield base + ("key",), "TABLE-KEY-REF", p, "key"
    for j, d in enumerate(layer.get("dops", [])):
        if d.get("lenkey") is not None:
            yield ("dops", j, "lenkey"), "LENGTH-KEY-REF", d, "lenkey"
    for j, f in enumerate(layer.get("sfields", [])):
        yield ("sfields", j, "struct"), "BASIC-STRUCTURE-REF", f, "struct"
    for j, f in enumerate(layer.get("demfs", [])):
        yield ("demfs", j, "struct"), "BASIC-STRUCTURE-REF", f, "struct"
        yield ("demfs", j, "enddop"), "DYN-END-DOP-REF", f, "enddop"
    for j, m in enumerate(layer.get("muxs", [])):
        yield ("muxs", j, "key"), "SWITCH-KEY/DATA-OBJECT-PROP-REF", m, "key"
        for k, c in enumerate(m.get("cases", [])):
            yield ("muxs", j, "case", k), "CASE/STRUCTURE-REF", c, "struct"
        if m.get("default") is not None:
            yield ("muxs", j, "default"), "DEFAULT-CASE/STRUCTURE-REF", m["default"], "struct"
    for j, t in enumerate(layer.get("tables", [])):
        if t.get("keydop") is not None:
            yield ("tables", j, "keydop"), "KEY-DOP-REF", t, "keydop"
        for k, r in enumerate(t.get("rows", [])):
            if "ref" in r:        # TABLE-ROW-REF inside TABLE: the row is defined by another table
                yield ("tables", j, "rowref", k), "TABLE/TABLE-ROW-REF", r, "ref"
            elif r.get("target") is not None:
                b = "TABLE-ROW/STRUCTURE-REF" if r["tkind"] == "struct" else "TABLE-ROW/DATA-OBJECT-PROP-REF"
                yield ("tables", j, "row", k), b, r, "target"


# ---------------------------------------------------------------------------
# the resolver
# ---------------------------------------------------------------------------
class ContIds(dict):
    """ids of a container document: local id -> list of uids (several when sibling layers re-use it)"""


class Model:
    def __init__(self, case: dict, sites: bool = True):
        self.case = case
        self.obj: dict[int, dict] = {}          # uid -> {kind, layer, container, sn, id}
        self.layer: dict[str, dict] = {}        # layer sn -> layer IR
        self.layer_cont: dict[str, str] = {}    # layer sn -> container sn
        self.cont: dict[str, dict] = {}
        self.spec: dict[str, dict] = {}
        self.ids_layer: dict[str, dict[str, int]] = {}
        self.ids_cont: dict[str, dict[str, int]] = {}
        self.ids_spec: dict[str, dict[str, int]] = {}
        self.local: dict[tuple, dict[str, list[int]]] = {}    # (layer, kind) -> sn -> [uids]
        self._views: dict[tuple, dict[str, frozenset]] = {}
        self.conflicts: list[tuple] = []
        self._index()
        self.sites: list[dict] = []
        self._imports: dict[str, list[str]] = {}
        self._parents: dict[str, list[str]] = {}
        self._resolve_structure()
        if sites:
            self._resolve_sites()

    # ---- indexing -----------------------------------------------------
    def _reg(self, kind, o, layer, cont, idmaps):
        uid = o["uid"]
        if uid in self.obj:
            raise ValueError(f"duplicate uid {uid}")
        self.obj[uid] = {"kind": kind, "layer": layer, "container": cont, "sn": o.get("sn"), "id": o.get("id")}
        if o.get("id") is not None:
            for m in idmaps:
                if isinstance(m, ContIds):
                    # container-wide fragment: sibling layers may re-use an id (R2b)
                    m.setdefault(o["id"], []).append(uid)
                    continue
                if o["id"] in m:
                    raise ValueError(f"id {o['id']!r} is not unique within its fragment")
                m[o["id"]] = uid

    def _index(self):
        names = set()
        for s in self.case.get("specs", []):
            if s["sn"] in names:
                raise ValueError("document/layer short names must be unique")
            names.add(s["sn"])
            self.spec[s["sn"]] = s
            self.ids_spec[s["sn"]] = {}
            self._reg("spec", s, None, s["sn"], [self.ids_spec[s["sn"]]])
        for c in self.case["containers"]:
            if c["sn"] in names:
                raise ValueError("document/layer short names must be unique")
            names.add(c["sn"])
            self.cont[c["sn"]] = c
            cm = self.ids_cont[c["sn"]] = ContIds()
            self._reg("container", c, None, c["sn"], [cm])
            for l in c["layers"]:
                if l["sn"] in names:
                    raise ValueError("document/layer short names must be unique")
                names.add(l["sn"])
                self.layer[l["sn"]] = l
                self.layer_cont[l["sn"]] = c["sn"]
                lm = self.ids_layer[l["sn"]] = {}
                maps = [cm, lm]
                self._reg("layer", l, l["sn"], c["sn"], maps)
                for lk, kind in LAYER_LISTS.items():
                    loc = self.local.setdefault((l["sn"], kind), {})
                    for o in l.get(lk, []):
                        self._reg(kind, o, l["sn"], c["sn"], maps)
                        loc.setdefault(o["sn"], []).append(o["uid"])
                        for tm in o.get("members", []):
                            self._reg("tmember", tm, l["sn"], c["sn"], maps)
                        for p in o.get("params", []):
                            pk = {"TABLE-KEY": "tkey", "LENGTH-KEY": "lkey"}.get(p["kind"], "param")
                            self._reg(pk, p, l["sn"], c["sn"], maps)
                        for r in o.get("rows", []):
                            if "ref" in r:
                                continue
                            self._reg("row", r, l["sn"], c["sn"], maps)
                            self.obj[r["uid"]]["table"] = o["uid"]
                        for cs in o.get("cases", []):
                            self._reg("case", cs, l["sn"], c["sn"], maps)
                        if o.get("default") is not None:
                            self._reg("case", o["default"], l["sn"], c["sn"], maps)

    # ---- ODXLINK resolution (R1-R3) -----------------------------------------
    def fragment(self, name, dtype):
        if dtype == "LAYER":
            return self.ids_layer.get(name)
        if dtype == "CONTAINER":
            return self.ids_cont.get(name)
        if dtype == "COMPARAM-SPEC":
            return self.ids_spec.get(name)
        return None

    def resolve_id(self, ref, layer_sn, with_imports=True):
        """-> (status, allowed uids, why, via)   via: 'own' | 'import' | 'container' | 'docref'"""
        rid = ref["id"]
        doc = ref.get("doc")
        if doc is not None:
            frag = self.fragment(doc[0], doc[1])
            if frag is None:
                return "bad", [], "unknown-docref-fragment", "docref"
            if rid in frag:
                v = frag[rid]
                if isinstance(v, list):
                    if len(v) > 1:
                        return "loose", list(v), "container-docref-to-id-of-several-layers", "docref"
                    v = v[0]
                return "ok", [v], "", "docref"
            # the id is not carried by the named fragment.  If the fragment is the referring
            # layer itself (or its container) and the id is only visible there through an
            # import of the referring layer, the outcome is not fixed by R1/R2.
            if with_imports and doc[1] in ("LAYER", "CONTAINER") and \
                    doc[0] in (layer_sn, self.layer_cont.get(layer_sn)):
                if any(rid in self.ids_layer[e] for e in self._imports.get(layer_sn, [])):
                    return "loose", [self.ids_layer[e][rid] for e in self._imports[layer_sn]
                                     if rid in self.ids_layer[e]], "own-fragment-docref-to-imported-id", "docref"
            return "bad", [], "id-not-in-docref-fragment", "docref"
        own = self.ids_layer[layer_sn].get(rid)
        if own is not None:
            return "ok", [own], "", "own"
        imp = []
        if with_imports:
            for e in self._imports.get(layer_sn, []):
                u = self.ids_layer[e].get(rid)
                if u is not None and u not in imp:
                    imp.append(u)
        cont = [cu for cu in self.ids_cont[self.layer_cont[layer_sn]].get(rid, []) if cu not in imp]
        if not imp and not cont:
            return "bad", [], "id-not-visible", "none"
        if len(imp) == 1:
            if not cont:
                return "ok", imp, "", "import"
            if all(self.obj[cu]["layer"] is not None for cu in cont):
                # R2c: imported objects behave as if the importing layer defined them, i.e. they belong
                # to the innermost (layer) fragment; ids of SIBLING layers are only carried by the
                # container-wide fragment, which is searched after it
                return "ok", imp, "", "import-over-sibling"
            return "multi", imp + cont, "imported-id-collides-with-container-object", "import"
        if len(imp) > 1:
            return "multi", imp + cont, "id-carried-by-several-imports", "import"
        if len(cont) == 1:
            return "ok", cont, "", "container"
        return "multi", cont, "id-carried-by-several-sibling-layers", "container"

    def _resolve_structure(self):
        """imports and parents first: they determine visibility for everything else"""
        for _, l in iter_layers(self.case):
            sn = l["sn"]
            imps = []
            for r in l.get("imports", []):
                st, al, _, _ = self.resolve_id(r, sn, with_imports=False)
                if st == "ok" and self.obj[al[0]]["kind"] == "layer":
                    imps.append(self.obj[al[0]]["layer"])
            self._imports[sn] = imps
        for _, l in iter_layers(self.case):
            sn = l["sn"]
            ps = []
            for r in l.get("parents", []):
                st, al, _, _ = self.resolve_id(r, sn)
                if st == "ok" and self.obj[al[0]]["kind"] == "layer":
                    ps.append(self.obj[al[0]]["layer"])
            self._parents[sn] = ps

    def depth_above(self, sn, anc_sn):
        """shortest PARENT-REF distance from layer sn up to anc_sn (None if not an ancestor)"""
        frontier, d, seen = [sn], 0, {sn}
        while frontier:
            if anc_sn in frontier:
                return d
            nxt = []
            for x in frontier:
                for p in self._parents.get(x, []):
                    if p not in seen:
                        seen.add(p)
                        nxt.append(p)
            frontier, d = nxt, d + 1
        return None

    def ancestors(self, sn, seen=None):
        seen = seen if seen is not None else []
        if sn in seen:
            return seen
        seen.append(sn)
        for p in self._parents.get(sn, []):
            self.ancestors(p, seen)
        return seen

    # ---- short-name views (R4) ------------------------------------------
    def view_kind(self, sn, kind, _stack=()):
        """layer view after inheritance for one object kind: short name -> frozenset(uids)"""
        key = (sn, kind)
        if key in self._views:
            return self._views[key]
        if sn in _stack:      # cyclic PARENT-REFs: not generated; treat as no inheritance
            return {}
        res: dict[str, set] = {}
        for p in self._parents.get(sn, []):
            for name, uids in self.view_kind(p, kind, _stack + (sn,)).items():
                if name in res and res[name] != set(uids):
                    if name not in self.local.get((sn, kind), {}):
                        self.conflicts.append((sn, kind, name))
                res.setdefault(name, set()).update(uids)
        for name, uids in self.local.get((sn, kind), {}).items():
            res[name] = set(uids)
        out = {k: frozenset(v) for k, v in res.items()}
        self._views[key] = out
        return out

    def view(self, sn, cat):
        res: dict[str, set] = {}
        for kind in CAT_KINDS[cat]:
            for name, uids in self.view_kind(sn, kind).items():
                res.setdefault(name, set()).update(uids)
        return res

    def protocols(self, sn, _stack=()):
        """short name -> layer uid of the PROTOCOL layers applicable to a layer (itself if it is a
        protocol, plus those of its parents); ECU-SHARED-DATA layers have none"""
        l = self.layer[sn]
        out = {}
        if l["type"] == "ECU-SHARED-DATA" or sn in _stack:
            return out
        for p in self._parents.get(sn, []):
            out.update(self.protocols(p, _stack + (sn,)))
        if l["type"] == "PROTOCOL":
            out[sn] = l["uid"]
        return out

    def imported_names(self, sn, cat):
        out = set()
        for e in self._imports.get(sn, []):
            for kind in CAT_KINDS[cat]:
                out.update(self.local.get((e, kind), {}))
        return out

    def resolve_sn(self, name, layer_sn, cat, params=None):
        if cat == "params":
            c = [p["uid"] for p in params if p["sn"] == name]
            if not c:
                return "bad", [], "name-not-in-parameter-list"
            if len(c) > 1:
                return "bad", c, "ambiguous-parameter-name"
            return "ok", c, ""
        if cat == "protocols":
            u = self.protocols(layer_sn).get(name)
            return ("ok", [u], "") if u is not None else ("bad", [], "protocol-not-applicable")
        c = sorted(self.view(layer_sn, cat).get(name, ()))
        if not c:
            if name in self.imported_names(layer_sn, cat):
                return "loose", [], "name-only-visible-through-import"
            return "bad", [], "name-not-visible"
        if len(c) > 1:
            if all(self.obj[u]["layer"] == layer_sn for u in c):
                return "bad", c, "ambiguous-local-name"
            return "loose", c, "ambiguous-through-inheritance"
        return "ok", c, ""

    # ---- all sites ------------------------------------------------------------
    def _resolve_sites(self):
        # make sure inheritance conflicts of every category are detected even when unreferenced
        for _, l in iter_layers(self.case):
            for kind in INHERITED_KINDS:
                self.view_kind(l["sn"], kind)
            if l["type"] == "PROTOCOL" and l.get("cpspec") is None:
                self.conflicts.append((l["sn"], "protocol-without-comparam-spec-ref", ""))   # not valid ODX
            dcn = [s["sn"] for s in l.get("svcs", [])]
            for r in l.get("commrefs", []):
                st, al, _, _ = self.resolve_id(r, l["sn"])
                if st in ("ok", "multi"):
                    dcn.extend(self.obj[u]["sn"] for u in al)
            if len(set(dcn)) < len(dcn) and len(set(s["sn"] for s in l.get("svcs", []))) == len(l.get("svcs", [])):
                # a DIAG-COMM-REF adds a second diag-comm of an existing name: children cannot inherit it (C09)
                self.conflicts.append((l["sn"], "diag-comm-ref-duplicates-name", ""))
            ps = [self.layer[p]["type"] == "ECU-SHARED-DATA" for p in self._parents.get(l["sn"], [])]
            if ps.count(True) > 1 or ps.count(False) > 1:
                # several parents of one priority class: conflict handling belongs to C09
                self.conflicts.append((l["sn"], "multi-parent", ""))
        for c, l in iter_layers(self.case):
            sn = l["sn"]
            for path, base, holder, key in iter_sites(l):
                ref = holder[key]
                rk = rk_name(base, ref)
                kinds, cat = RK[rk]
                site = {"layer": sn, "path": list(path), "rk": rk, "form": ref["f"], "cat": None,
                        "via": None, "doc": None, "tag": ref.get("tag")}
                if ref["f"] == "id":
                    st, al, why, via = self.resolve_id(ref, sn, with_imports=(base != "IMPORT-REF"))
                    site["via"] = via
                    site["doc"] = ref["doc"][1] if ref.get("doc") else "none"
                    site["ref_id"] = ref["id"]
                    # R2b: the id is also carried by a sibling layer of the same container
                    site["sibling_reuse"] = len(self.ids_cont[c["sn"]].get(ref["id"], [])) > 1
                    if st == "multi":
                        # an imported id collides with an id of the container (or two imports carry
                        # it): which one is named is not fixed by the statement -> nothing asserted
                        st = "loose"
                        site["multi"] = True
                else:
                    params = None
                    if cat == "params":
                        params = l[path[0]][path[1]]["params"]
                    else:
                        site["cat"] = cat
                    st, al, why = self.resolve_sn(ref["n"], sn, cat, params)
                    site["name"] = ref["n"]
                    if st == "ok" and cat not in ("params", "protocols"):
                        site["inherited"] = self.obj[al[0]]["layer"] != sn
                if st == "ok":
                    bad_kind = [u for u in al if self.obj[u]["kind"] not in kinds]
                    if bad_kind:
                        st, why = "loose", "target-of-unexpected-kind"
                    elif base == "PARENT-REF" and any(
                            self.layer[self.obj[u]["layer"]]["type"] not in ALLOWED_PARENTS[l["type"]] for u in al):
                        st, why = "loose", "parent-of-unexpected-type"
                    elif base == "IMPORT-REF" and any(
                            self.layer[self.obj[u]["layer"]]["type"] != "ECU-SHARED-DATA" for u in al):
                        st, why = "loose", "import-of-non-shared-data"
                site["status"] = st
                site["allowed"] = list(al)
                site["why"] = why
                self.sites.append(site)

    # ---- retargeting (R5) -----------------------------------------------------
    def retarget_expect(self, target_sn):
        """-> (ok?, {site index: [allowed uids]}) for the layer-context SNREF sites owned by the
        target layer and its transitive parents after retarget_snrefs(db, target).  ok is False
        when the model cannot fix the outcome."""
        anc = set(self.ancestors(target_sn))
        out = {}
        ok = True
        for i, s in enumerate(self.sites):
            if s["form"] != "sn" or s["cat"] is None:
                continue
            if s["layer"] in anc:
                if s["cat"] == "protocols":
                    u = self.protocols(target_sn).get(s["name"])
                    c = [u] if u is not None else []
                else:
                    c = sorted(self.view(target_sn, s["cat"]).get(s["name"], ()))
                if len(c) != 1:
                    ok = False
                out[i] = c
            # references owned by other layers: the statement does not say (not asserted)
        return ok, out

    # ---- summary --------------------------------------------------------------
    def summary(self):
        bad = [s for s in self.sites if s["status"] == "bad"]
        loose = [s for s in self.sites if s["status"] == "loose"]
        # ids referenced (by ID-REF) that are carried by >= 2 fragments of different documents
        collide = False
        for s in self.sites:
            if s["form"] == "id" and s["status"] == "ok":
                n = sum(1 for m in list(self.ids_cont.values()) + list(self.ids_spec.values()) if s["ref_id"] in m)
                if n >= 2:
                    collide = True
                    break
        reuse = any(len(v) > 1 for m in self.ids_cont.values() for v in m.values())
        return {"bad": bad, "loose": loose, "conflicts": list(self.conflicts), "collide": collide,
                "sibling_reuse": reuse}


# ---------------------------------------------------------------------------
# emitter
# ---------------------------------------------------------------------------
def _sub(parent, tag, text=None, **attrib):
    e = ET.SubElement(parent, tag, {k.replace("_", "-"): v for k, v in attrib.items()})
    if text is not None:
        e.text = str(text)
    return e


def _names(e, o):
    _sub(e, "SHORT-NAME", o["sn"])
    _sub(e, "LONG-NAME", f"uid:{o['uid']}")


def _ref(parent, tag, ref, **extra):
    """tag is the ID-REF element name (…-REF); an SNREF becomes …-SNREF"""
    if ref["f"] == "sn":
        return _sub(parent, tag[:-4] + "-SNREF", **{"SHORT-NAME": ref["n"]})
    at = {"ID-REF": ref["id"]}
    if ref.get("doc") is not None:
        at["DOCREF"] = ref["doc"][0]
        at["DOCTYPE"] = ref["doc"][1]
    at.update(extra)
    return _sub(parent, tag, **at)


def _params(parent, params):
    ps = _sub(parent, "PARAMS")
    for p in params:
        at = {f"{{{XSI}}}type": p["kind"]}
        if p.get("id") is not None:
            at["ID"] = p["id"]
        e = ET.SubElement(ps, "PARAM", at)
        _names(e, p)
        if p["kind"] in ("VALUE", "LENGTH-KEY"):
            _ref(e, "DOP-REF", p["dop"])
        elif p["kind"] == "TABLE-KEY":
            if p.get("table") is not None:
                _ref(e, "TABLE-REF", p["table"])
            else:
                _ref(e, "TABLE-ROW-REF", p["row"])
        elif p["kind"] == "TABLE-STRUCT":
            _ref(e, "TABLE-KEY-REF", p["key"])
        elif p["kind"] == "CODED-CONST":
            _sub(e, "CODED-VALUE", "1")
            dct = ET.SubElement(e, "DIAG-CODED-TYPE", {"BASE-DATA-TYPE": "A_UINT32",
                                                       f"{{{XSI}}}type": "STANDARD-LENGTH-TYPE"})
            _sub(dct, "BIT-LENGTH", "8")


def _admin(parent, a):
    if a is None:
        return
    e = _sub(parent, "ADMIN-DATA")
    if a.get("cdis"):
        g = _sub(e, "COMPANY-DOC-INFOS")
        for cdi in a["cdis"]:
            ce = _sub(g, "COMPANY-DOC-INFO")
            _ref(ce, "COMPANY-DATA-REF", cdi["cd"])
            if cdi.get("tm") is not None:
                _ref(ce, "TEAM-MEMBER-REF", cdi["tm"])
    if a.get("revs"):
        g = _sub(e, "DOC-REVISIONS")
        for rev in a["revs"]:
            re_ = _sub(g, "DOC-REVISION")
            if rev.get("tm") is not None:
                _ref(re_, "TEAM-MEMBER-REF", rev["tm"])
            _sub(re_, "REVISION-LABEL", "1.0")
            _sub(re_, "DATE", "2024-01-01T00:00:00")


def _dop(parent, d):
    e = _sub(parent, "DATA-OBJECT-PROP", ID=d["id"])
    _names(e, d)
    _admin(e, d.get("admin"))
    cm = _sub(e, "COMPU-METHOD")
    _sub(cm, "CATEGORY", "IDENTICAL")
    if d.get("lenkey") is not None:
        dct = ET.SubElement(e, "DIAG-CODED-TYPE", {"BASE-DATA-TYPE": "A_UINT32",
                                                   f"{{{XSI}}}type": "PARAM-LENGTH-INFO-TYPE"})
        _ref(dct, "LENGTH-KEY-REF", d["lenkey"])
    else:
        dct = ET.SubElement(e, "DIAG-CODED-TYPE", {"BASE-DATA-TYPE": "A_UINT32",
                                                   f"{{{XSI}}}type": "STANDARD-LENGTH-TYPE"})
        _sub(dct, "BIT-LENGTH", "8")
    _sub(e, "PHYSICAL-TYPE", **{"BASE-DATA-TYPE": "A_UINT32"})


def _layer(parent, l):
    e = _sub(parent, l["type"], ID=l["id"])
    _names(e, l)
    _admin(e, l.get("admin"))
    if l.get("cdatas"):
        g = _sub(e, "COMPANY-DATAS")
        for cd in l["cdatas"]:
            ce = _sub(g, "COMPANY-DATA", ID=cd["id"])
            _names(ce, cd)
            if cd.get("members"):
                tg = _sub(ce, "TEAM-MEMBERS")
                for tm in cd["members"]:
                    te = _sub(tg, "TEAM-MEMBER", ID=tm["id"])
                    _names(te, tm)
    if any(l.get(k) for k in ("dops", "structs", "sfields", "demfs", "muxs", "tables")):
        dd = _sub(e, "DIAG-DATA-DICTIONARY-SPEC")
        if l.get("dops"):
            g = _sub(dd, "DATA-OBJECT-PROPS")
            for d in l["dops"]:
                _dop(g, d)
        if l.get("structs"):
            g = _sub(dd, "STRUCTURES")
            for s in l["structs"]:
                se = _sub(g, "STRUCTURE", ID=s["id"])
                _names(se, s)
                _params(se, s.get("params", []))
        if l.get("sfields"):
            g = _sub(dd, "STATIC-FIELDS")
            for f in l["sfields"]:
                fe = _sub(g, "STATIC-FIELD", ID=f["id"])
                _names(fe, f)
                _ref(fe, "BASIC-STRUCTURE-REF", f["struct"])
                _sub(fe, "FIXED-NUMBER-OF-ITEMS", "1")
                _sub(fe, "ITEM-BYTE-SIZE", "1")
        if l.get("demfs"):
            g = _sub(dd, "DYNAMIC-ENDMARKER-FIELDS")
            for f in l["demfs"]:
                fe = _sub(g, "DYNAMIC-ENDMARKER-FIELD", ID=f["id"])
                _names(fe, f)
                _ref(fe, "BASIC-STRUCTURE-REF", f["struct"])
                r = _ref(fe, "DYN-END-DOP-REF", f["enddop"])
                _sub(r, "TERMINATION-VALUE", "0")
        if l.get("muxs"):
            g = _sub(dd, "MUXS")
            for m in l["muxs"]:
                me = _sub(g, "MUX", ID=m["id"])
                _names(me, m)
                _sub(me, "BYTE-POSITION", "0")
                sk = _sub(me, "SWITCH-KEY")
                _sub(sk, "BYTE-POSITION", "0")
                _ref(sk, "DATA-OBJECT-PROP-REF", m["key"])
                if m.get("default") is not None:
                    dc = _sub(me, "DEFAULT-CASE")
                    _names(dc, m["default"])
                    _ref(dc, "STRUCTURE-REF", m["default"]["struct"])
                cs = _sub(me, "CASES")
                for i, c in enumerate(m.get("cases", [])):
                    ce = _sub(cs, "CASE")
                    _names(ce, c)
                    _ref(ce, "STRUCTURE-REF", c["struct"])
                    _sub(ce, "LOWER-LIMIT", str(i))
                    _sub(ce, "UPPER-LIMIT", str(i))
        if l.get("tables"):
            g = _sub(dd, "TABLES")
            for t in l["tables"]:
                te = _sub(g, "TABLE", ID=t["id"])
                _names(te, t)
                if t.get("keydop") is not None:
                    _ref(te, "KEY-DOP-REF", t["keydop"])
                for i, r in enumerate(t.get("rows", [])):
                    if "ref" in r:
                        _ref(te, "TABLE-ROW-REF", r["ref"])
                        continue
                    re_ = _sub(te, "TABLE-ROW", ID=r["id"])
                    _names(re_, r)
                    _sub(re_, "KEY", str(i))
                    if r.get("target") is not None:
                        _ref(re_, "STRUCTURE-REF" if r["tkind"] == "struct" else "DATA-OBJECT-PROP-REF", r["target"])
    if l.get("svcs") or l.get("commrefs"):
        g = _sub(e, "DIAG-COMMS")
        for s in l.get("svcs", []):
            se = _sub(g, "DIAG-SERVICE", ID=s["id"])
            _names(se, s)
            _admin(se, s.get("admin"))
            _ref(se, "REQUEST-REF", s["request"])
            if s.get("pos"):
                pg = _sub(se, "POS-RESPONSE-REFS")
                for r in s["pos"]:
                    _ref(pg, "POS-RESPONSE-REF", r)
            if s.get("neg"):
                ng = _sub(se, "NEG-RESPONSE-REFS")
                for r in s["neg"]:
                    _ref(ng, "NEG-RESPONSE-REF", r)
            if s.get("prot"):
                pg = _sub(se, "PROTOCOL-SNREFS")
                for r in s["prot"]:
                    _sub(pg, "PROTOCOL-SNREF", **{"SHORT-NAME": r["n"]})
        for r in l.get("commrefs", []):
            _ref(g, "DIAG-COMM-REF", r)
    for lk, grp, tag in (("reqs", "REQUESTS", "REQUEST"), ("poss", "POS-RESPONSES", "POS-RESPONSE"),
                         ("negs", "NEG-RESPONSES", "NEG-RESPONSE")):
        if l.get(lk):
            g = _sub(e, grp)
            for o in l[lk]:
                oe = _sub(g, tag, ID=o["id"])
                _names(oe, o)
                _admin(oe, o.get("admin"))
                _params(oe, o.get("params", []))
    if l.get("imports"):
        g = _sub(e, "IMPORT-REFS")
        for r in l["imports"]:
            _ref(g, "IMPORT-REF", r)
    if l.get("cpspec") is not None:
        _ref(e, "COMPARAM-SPEC-REF", l["cpspec"])
    if l.get("parents"):
        g = _sub(e, "PARENT-REFS")
        for r in l["parents"]:
            _ref(g, "PARENT-REF", r)


def emit(case) -> list:
    """-> list of (file name, xml bytes): comparam specs first, then the containers in order"""
    ET.register_namespace("xsi", XSI)
    docs = []
    for s in case.get("specs", []):
        root = ET.Element("ODX", {"MODEL-VERSION": "2.2.0"})
        e = _sub(root, "COMPARAM-SPEC", ID=s["id"])
        _names(e, s)
        docs.append((s["sn"] + ".odx-c", ET.tostring(root, xml_declaration=True, encoding="utf-8")))
    for c in case["containers"]:
        root = ET.Element("ODX", {"MODEL-VERSION": "2.2.0"})
        e = _sub(root, "DIAG-LAYER-CONTAINER", ID=c["id"])
        _names(e, c)
        for t in TYPES:
            ls = [l for l in c["layers"] if l["type"] == t]
            if ls:
                g = _sub(e, GROUP[t])
                for l in ls:
                    _layer(g, l)
        docs.append((c["sn"] + ".odx-d", ET.tostring(root, xml_declaration=True, encoding="utf-8")))
    return docs


# ---------------------------------------------------------------------------
# generator (driven by a random.Random-like object; Hypothesis supplies it via st.randoms)
# ---------------------------------------------------------------------------
def _idstr(n: int) -> str:
    """0,1,2,... -> a, b, c, aa, ab, ... over the 3-letter alphabet"""
    s = ""
    n += 1
    while n > 0:
        n -= 1
        s = "abc"[n % 3] + s
        n //= 3
    return s


SN_POOL = {"dop": ["d_a", "d_b", "d_c"], "struct": ["s_a", "s_b"], "sfield": ["f_a", "f_b"], "demf": ["e_a"],
           "mux": ["m_a", "m_b"], "table": ["t_a", "t_b"], "req": ["rq_a", "rq_b"], "pos": ["pr_a", "pr_b"],
           "neg": ["nr_a"], "svc": ["sv_a", "sv_b"]}


class Gen:
    def __init__(self, rnd, negative=None, big=False, reuse=None):
        self.r = rnd
        self.uid = 0
        self.negative = negative
        self.big = big
        self.reuse = reuse

    def nuid(self):
        self.uid += 1
        return self.uid

    def pick(self, weighted):
        """weighted: list of (item, weight)"""
        tot = sum(w for _, w in weighted)
        x = self.r.randint(1, tot)
        for it, w in weighted:
            x -= w
            if x <= 0:
                return it
        return weighted[-1][0]

    def chance(self, pct):
        return self.r.randint(1, 100) <= pct

    # ---- skeleton -------------------------------------------------------
    def build(self):
        r = self.r
        case = {"specs": [], "containers": [], "retarget": None}
        ncont = self.pick([(1, 1), (2, 3), (3, 2)])
        any_protocol = False
        for ci in range(ncont):
            c = {"sn": f"c{ci}", "uid": self.nuid(), "layers": []}
            for li in range(self.pick([(1, 1), (2, 3), (3, 3)])):
                t = self.pick([("ECU-SHARED-DATA", 3), ("PROTOCOL", 2), ("FUNCTIONAL-GROUP", 2),
                               ("BASE-VARIANT", 3), ("ECU-VARIANT", 3)])
                any_protocol |= t == "PROTOCOL"
                c["layers"].append({"sn": f"l{ci}{li}", "type": t, "uid": self.nuid()})
            case["containers"].append(c)
        nspec = self.pick([(0, 2), (1, 2), (2, 1)])
        if any_protocol and nspec == 0:
            nspec = 1
        for si in range(nspec):
            case["specs"].append({"sn": f"s{si}", "uid": self.nuid()})
        layers = [l for c in case["containers"] for l in c["layers"]]
        # objects
        for l in layers:
            esd = l["type"] == "ECU-SHARED-DATA"

            def names(kind, lo, hi):
                pool = [n.replace("_", "_x") if esd else n for n in SN_POOL[kind]]
                k = min(len(pool), r.randint(lo, hi))
                return [pool.pop(r.randint(0, len(pool) - 1)) for _ in range(k)]
            l["dops"] = [{"sn": n, "uid": self.nuid()} for n in names("dop", 1, 3)]
            l["structs"] = [{"sn": n, "uid": self.nuid(), "params": []} for n in names("struct", 0, 2)]
            l["tables"] = [{"sn": n, "uid": self.nuid(), "rows": []} for n in names("table", 0, 2 if self.big else 1)]
            l["sfields"] = [{"sn": n, "uid": self.nuid()} for n in names("sfield", 0, 1)]
            l["demfs"] = [{"sn": n, "uid": self.nuid()} for n in names("demf", 0, 1)] if self.chance(40) else []
            l["muxs"] = [{"sn": n, "uid": self.nuid()} for n in names("mux", 0, 1)]
            l["reqs"] = [{"sn": n, "uid": self.nuid(), "params": []} for n in names("req", 1, 2)]
            l["poss"] = [{"sn": n, "uid": self.nuid(), "params": []} for n in names("pos", 0, 2)]
            l["negs"] = [{"sn": n, "uid": self.nuid(), "params": []} for n in names("neg", 0, 1)]
            l["svcs"] = [{"sn": n, "uid": self.nuid()} for n in names("svc", 0, 2)]
            l["cdatas"] = []
            if self.chance(60):
                l["cdatas"].append({"sn": "cd_xa" if esd else "cd_a", "uid": self.nuid(),
                                    "members": [{"sn": f"tm{i}", "uid": self.nuid()} for i in range(r.randint(1, 2))]})
            for t in l["tables"]:
                for i in range(r.randint(0, 2)):
                    t["rows"].append({"sn": f"r{i}", "uid": self.nuid()})
            for m in l["muxs"]:
                m["cases"] = [{"sn": f"k{i}", "uid": self.nuid()} for i in range(r.randint(0, 2))]
                m["default"] = {"sn": "kd", "uid": self.nuid()} if self.chance(40) else None
        have_tables = any(l["tables"] for l in layers)
        if not any(l["structs"] for l in layers):
            for l in layers:       # fields need a structure somewhere
                l["sfields"], l["demfs"] = [], []
        for l in layers:
            # parameter lists: kinds only, references are filled in later
            for lk, _, o in iter_param_lists(l):
                n = r.randint(0, 3) if lk != "reqs" else r.randint(1, 3)
                ps = o["params"]
                i = 0
                while len(ps) < n:
                    k = self.pick([("VALUE", 5), ("LENGTH-KEY", 1), ("TABLE-KEY", 2 if have_tables else 0)])
                    p = {"sn": f"p{i}", "uid": self.nuid(), "kind": k}
                    i += 1
                    ps.append(p)
                    if k == "TABLE-KEY" and self.chance(70):
                        ps.append({"sn": f"p{i}", "uid": self.nuid(), "kind": "TABLE-STRUCT", "_key": p["sn"]})
                        i += 1
        # ids: unique per container, deliberately colliding across containers (and specs)
        reuse_case = self.reuse if self.reuse is not None else self.chance(35)
        for c in case["containers"]:
            per_layer = []
            for l in c["layers"]:
                loc = []
                for lk in LAYER_LISTS:
                    for o in l.get(lk, []):
                        loc.append(o)
                        loc.extend(p for p in o.get("params", []) if p["kind"] in ("TABLE-KEY", "LENGTH-KEY"))
                        loc.extend(o.get("rows", []))
                        loc.extend(o.get("members", []))
                per_layer.append(loc)
            if reuse_case and len(c["layers"]) >= 2:
                # class "sibling-id-reuse" (R2b): every layer of the container draws the ids of its
                # layer-local objects from the SAME small pool; the container and layer elements get
                # ids outside that pool (unique in the document)
                nloc = max(len(x) for x in per_layer) + r.randint(0, 2)
                for loc in per_layer:
                    pool = list(range(nloc))
                    for o in loc:
                        o["id"] = _idstr(pool.pop(r.randint(0, len(pool) - 1)))
                elems = [c] + c["layers"]
                pool = list(range(nloc, nloc + len(elems) + r.randint(0, 2)))
                for o in elems:
                    o["id"] = _idstr(pool.pop(r.randint(0, len(pool) - 1)))
                top = nloc + len(elems) + 3
                c["_spare"] = [_idstr(top + 1), _idstr(top + 2)]
                continue
            need = [c] + c["layers"] + [o for loc in per_layer for o in loc]
            n = len(need) + r.randint(0, 3 + len(need) // 2)     # gaps: ids that only other documents carry
            pool = list(range(n))
            for o in need:
                o["id"] = _idstr(pool.pop(r.randint(0, len(pool) - 1)))
            c["_spare"] = [_idstr(x) for x in pool] + [_idstr(n + 1), _idstr(n + 2)]
        for s in case["specs"]:
            s["id"] = _idstr(r.randint(0, 8))
        self.case = case
        # structure: parent targets, then imports (never an ancestor), comparam spec
        esds = [l for l in layers if l["type"] == "ECU-SHARED-DATA"]
        for l in layers:
            l["parents"], l["imports"], l["commrefs"], l["cpspec"] = [], [], [], None
        targets_p = {}
        for l in layers:
            cands = [p for p in layers if p["type"] in ALLOWED_PARENTS[l["type"]] and p["type"] != "ECU-SHARED-DATA"]
            chosen = []
            if cands and self.chance(75):
                chosen.append(cands[r.randint(0, len(cands) - 1)])
            if esds and l["type"] != "ECU-SHARED-DATA" and self.chance(25):
                chosen.append(esds[r.randint(0, len(esds) - 1)])
            targets_p[l["sn"]] = chosen

        def anc(sn, acc):
            for p in targets_p[sn]:
                if p["sn"] not in acc:
                    acc.add(p["sn"])
                    anc(p["sn"], acc)
            return acc
        m = Model(_strip(case), sites=False)
        for l in layers:
            if l["type"] == "PROTOCOL":
                s = case["specs"][r.randint(0, len(case["specs"]) - 1)]
                l["cpspec"] = {"f": "id", "id": s["id"], "doc": [s["sn"], "COMPARAM-SPEC"]}
            if l["type"] == "ECU-SHARED-DATA" or not esds:
                continue
            if self.chance(55):
                a = anc(l["sn"], set())
                cands = [e for e in esds if e["sn"] not in a]
                own_c = m.layer_cont[l["sn"]]
                for _ in range(2 if self.chance(25) else 1):
                    if cands:
                        # imports from other documents matter most: the ids of the own container are visible anyway
                        far = [e for e in cands if m.layer_cont[e["sn"]] != own_c]
                        pool = far if far and self.chance(75) else cands
                        e = pool[r.randint(0, len(pool) - 1)]
                        cands.remove(e)
                        l["imports"].append(self.id_ref_to(m, l, e["uid"], with_imports=False))
        m = Model(_strip(case), sites=False)
        for l in layers:
            for p in targets_p[l["sn"]]:
                l["parents"].append(self.id_ref_to(m, l, p["uid"]))
        # all other references
        m = Model(_strip(case), sites=False)
        self.fill_refs(m, layers)
        case = _strip(case, keep_spare=True)
        m = Model(_strip(case))
        # a layer to retarget to: prefer layers with parents
        with_par = [l["sn"] for l in layers if m._parents.get(l["sn"])]
        if with_par and self.chance(85):
            case["retarget"] = with_par[r.randint(0, len(with_par) - 1)]
        elif self.chance(50):
            case["retarget"] = layers[r.randint(0, len(layers) - 1)]["sn"]
        neg = self.negative if self.negative is not None else self.chance(45)
        if neg:
            self.inject(case, m)
        elif self.chance(85):
            h = self.gen_history(case, m)
            if h:
                case["history"] = h
        return _strip(case)

    # ---- positive references ---------------------------------------------
    def id_ref_to(self, m, layer, uid, allow_plain=True, with_imports=True):
        """an ID reference (with or without DOCREF) that names uid according to the model"""
        o = m.obj[uid]
        opts = []
        if o["kind"] == "spec":
            return {"f": "id", "id": o["id"], "doc": [o["container"], "COMPARAM-SPEC"]}
        if allow_plain:
            st, al, _, _ = m.resolve_id({"f": "id", "id": o["id"], "doc": None}, layer["sn"], with_imports=with_imports)
            if st == "ok" and al == [uid]:
                opts.append((None, 4))
        if o["layer"] is not None:
            opts.append(([o["layer"], "LAYER"], 2))
        cdoc = [o["container"], "CONTAINER"]
        st, al, _, _ = m.resolve_id({"f": "id", "id": o["id"], "doc": cdoc}, layer["sn"], with_imports=with_imports)
        if (st == "ok" and al == [uid]) or not opts:
            opts.append((cdoc, 2))
        return {"f": "id", "id": o["id"], "doc": self.pick(opts)}

    def choose_target(self, m, layer, kinds, exclude_layers=()):
        """pick an object of one of the kinds, biased towards interesting locations"""
        sn = layer["sn"]
        cont = m.layer_cont[sn]
        imps = set(m._imports.get(sn, []))
        b = {"own": [], "cont": [], "imp": [], "other": []}
        for uid, o in m.obj.items():
            if o["kind"] not in kinds or o["layer"] in exclude_layers:
                continue
            if o["layer"] == sn:
                b["own"].append(uid)
            elif o["layer"] in imps:
                b["imp"].append(uid)
            elif o["container"] == cont:
                b["cont"].append(uid)
            else:
                b["other"].append(uid)
        w = [(k, {"own": 4, "cont": 2, "imp": 4, "other": 2}[k]) for k in b if b[k]]
        if not w:
            return None
        lst = b[self.pick(w)]
        return lst[self.r.randint(0, len(lst) - 1)]

    def make_ref(self, m, layer, rk_base, params=None):
        """a valid reference for the site; SNREF form where ODX offers it"""
        rk_sn = rk_base[:-4] + "-SNREF"
        kinds, _ = RK[rk_base]
        sn = layer["sn"]
        if rk_sn in RK and self.chance(50):
            cat = RK[rk_sn][1]
            if cat == "params":
                names = [p["sn"] for p in params if p["kind"] == "TABLE-KEY"]
                names = [n for n in names if sum(1 for p in params if p["sn"] == n) == 1]
            else:
                v = m.view(sn, cat)
                names = sorted(n for n, u in v.items() if len(u) == 1 and m.obj[next(iter(u))]["kind"] in kinds)
                inh = [n for n in names if m.obj[next(iter(v[n]))]["layer"] != sn]
                if inh and self.chance(60):
                    names = inh
            if names:
                return {"f": "sn", "n": names[self.r.randint(0, len(names) - 1)]}
        t = self.choose_target(m, layer, kinds)
        if t is None:
            return None
        return self.id_ref_to(m, layer, t)

    def fill_refs(self, m, layers):
        r = self.r
        # ADMIN-DATA on DATA-OBJECT-PROPs only in some sets (one decision per set)
        dop_admin = self.chance(40)
        for l in layers:
            # services
            for s in l["svcs"]:
                s["request"] = self.make_ref(m, l, "REQUEST-REF")
                s["pos"] = [x for x in (self.make_ref(m, l, "POS-RESPONSE-REF") for _ in range(r.randint(0, 2))) if x]
                s["neg"] = [x for x in (self.make_ref(m, l, "NEG-RESPONSE-REF") for _ in range(r.randint(0, 1))) if x]
                prots = sorted(m.protocols(l["sn"]))
                if prots and self.chance(60):
                    s["prot"] = [{"f": "sn", "n": prots[r.randint(0, len(prots) - 1)]}]
            if self.chance(40):
                t = self.choose_target(m, l, ("svc",), exclude_layers=(l["sn"],))
                if t is not None and m.obj[t]["sn"] not in [s["sn"] for s in l["svcs"]]:
                    l["commrefs"].append(self.id_ref_to(m, l, t))
            if any(x["cdatas"] for x in layers):
                holders = [l] if self.chance(55) else []
                holders += [o for lk in ("reqs", "svcs") for o in l[lk] if self.chance(20)]
                if dop_admin:
                    holders += [o for o in l["dops"] if self.chance(35)]
                for h in holders:
                    a = {"cdis": [], "revs": []}
                    cd = self.make_ref(m, l, "COMPANY-DATA-REF")
                    if cd is not None:
                        a["cdis"].append({"cd": cd, "tm": self.make_ref(m, l, "TEAM-MEMBER-REF") if self.chance(70) else None})
                    if self.chance(60):
                        tm = self.make_ref(m, l, "DOC-REVISION/TEAM-MEMBER-REF")
                        if tm is not None:
                            a["revs"].append({"tm": tm})
                    if a["cdis"] or a["revs"]:
                        h["admin"] = a
            for lk, _, o in iter_param_lists(l):
                keep = []
                for p in o["params"]:
                    if p["kind"] in ("VALUE", "LENGTH-KEY"):
                        p["dop"] = self.make_ref(m, l, "DOP-REF")
                    elif p["kind"] == "TABLE-KEY":
                        ref = None
                        if self.chance(35):
                            ref = self.make_ref(m, l, "TABLE-ROW-REF")
                            if ref is not None:
                                p["row"] = ref
                        if ref is None:
                            ref = self.make_ref(m, l, "TABLE-REF")
                            if ref is None:
                                continue          # no table anywhere: drop the parameter
                            p["table"] = ref
                    elif p["kind"] == "TABLE-STRUCT":
                        key = p.pop("_key")
                        if not any(q["sn"] == key for q in keep):
                            continue
                        if self.chance(50):
                            p["key"] = {"f": "sn", "n": key}
                        else:
                            # usually the key of the same list, sometimes any TABLE-KEY
                            kp = [q for q in keep if q["sn"] == key][0]
                            if self.chance(75) and "id" in kp:
                                p["key"] = self.id_ref_to(m, l, kp["uid"])
                            else:
                                ref = self.make_ref(m, l, "TABLE-KEY-REF", params=keep)
                                p["key"] = ref if ref is not None else {"f": "sn", "n": key}
                    keep.append(p)
                o["params"] = keep
            # dops with a PARAM-LENGTH-INFO-TYPE
            for d in l["dops"]:
                if self.chance(25):
                    ref = self.make_ref(m, l, "LENGTH-KEY-REF")
                    if ref is not None:
                        d["lenkey"] = ref
            keepf = []
            for f in l["sfields"]:
                f["struct"] = self.make_ref(m, l, "BASIC-STRUCTURE-REF")
                if f["struct"] is not None:
                    keepf.append(f)
            l["sfields"] = keepf
            keepf = []
            for f in l["demfs"]:
                f["struct"] = self.make_ref(m, l, "BASIC-STRUCTURE-REF")
                f["enddop"] = self.plain_dop_ref(m, l, "DYN-END-DOP-REF")
                if f["struct"] is not None and f["enddop"] is not None:
                    keepf.append(f)
            l["demfs"] = keepf
            keepm = []
            for mx in l["muxs"]:
                mx["key"] = self.plain_dop_ref(m, l, "SWITCH-KEY/DATA-OBJECT-PROP-REF")
                if mx["key"] is None:
                    continue
                for c in mx["cases"]:
                    c["struct"] = self.make_ref(m, l, "CASE/STRUCTURE-REF")
                mx["cases"] = [c for c in mx["cases"] if c["struct"] is not None]
                if mx["default"] is not None:
                    mx["default"]["struct"] = self.make_ref(m, l, "DEFAULT-CASE/STRUCTURE-REF")
                    if mx["default"]["struct"] is None:
                        mx["default"] = None
                keepm.append(mx)
            l["muxs"] = keepm
            for t in l["tables"]:
                t["keydop"] = self.plain_dop_ref(m, l, "KEY-DOP-REF") if self.chance(70) else None
                for row in t["rows"]:
                    row["tkind"] = "struct" if self.chance(50) else "dop"
                    base = "TABLE-ROW/STRUCTURE-REF" if row["tkind"] == "struct" else "TABLE-ROW/DATA-OBJECT-PROP-REF"
                    ref = self.make_ref(m, l, base)
                    if ref is None and row["tkind"] == "struct":
                        row["tkind"] = "dop"
                        ref = self.make_ref(m, l, "TABLE-ROW/DATA-OBJECT-PROP-REF")
                    row["target"] = ref
                # rows defined by other tables, included by TABLE-ROW-REF (preferably of other layers)
                if self.chance(40):
                    own_rows = {row["uid"] for row in t["rows"]}
                    far = [u for u, o in m.obj.items() if o["kind"] == "row" and u not in own_rows
                           and (o["layer"] != l["sn"] or self.chance(25))]
                    if far:
                        t["rows"].append({"ref": self.id_ref_to(m, l, far[r.randint(0, len(far) - 1)])})
            l["svcs"] = [s for s in l["svcs"] if s["request"] is not None]

    def plain_dop_ref(self, m, layer, rk):
        """reference to a DATA-OBJECT-PROP with a STANDARD-LENGTH-TYPE (these sites read the DOP at load time)"""
        # a DOP that will get a LENGTH-KEY-REF is still a DATA-OBJECT-PROP: fine for the loader
        t = self.choose_target(m, layer, ("dop",))
        return self.id_ref_to(m, layer, t) if t is not None else None

    # ---- history: edits of the loaded tree, each followed by refresh() ----------------
    EDIT_LISTS = ("dops", "structs", "tables", "reqs", "poss", "negs", "svcs", "sfields", "muxs")

    def gen_history(self, case, m):
        r = self.r
        refd_id = {u for s in m.sites if s["status"] == "ok" and s["form"] == "id" for u in s["allowed"]}
        refd_sn = {u for s in m.sites if s["status"] == "ok" and s["form"] == "sn" for u in s["allowed"]}
        cands = []
        for c, l in iter_layers(case):
            for lk in self.EDIT_LISTS:
                for i, o in enumerate(l.get(lk, [])):
                    w = 1 + (6 if o["uid"] in refd_id else 0) + (4 if o["uid"] in refd_sn else 0)
                    cands.append(((c, l, lk, i, o), w))
        if not cands:
            return []
        c, l, lk, i, o = self.pick(cands)
        pat = self.pick([("remove-restore", 4), ("rename-back", 3), ("replace", 5), ("remove", 2)])
        if pat == "replace" and (lk != "dops" or o.get("lenkey") is not None):
            pat = "remove-restore"
        if pat == "rename-back" and lk == "tables":
            pat = "remove-restore"       # the rows of a table keep a reference to the table's id
        at = {"layer": l["sn"], "lk": lk, "i": i}
        if pat == "remove":
            return [dict(at, op="remove")]
        if pat == "remove-restore":
            return [dict(at, op="remove"), {"op": "restore", "layer": l["sn"], "lk": lk}]
        if pat == "replace":
            return [dict(at, op="replace", uid=self.nuid())]
        own = m.ids_cont[c["sn"]]
        other = sorted({x for cn, mp in m.ids_cont.items() if cn != c["sn"] for x in mp if x not in own})
        new = other[r.randint(0, len(other) - 1)] if other and self.chance(70) else c["_spare"][0]
        return [dict(at, op="rename", id=new), dict(at, op="rename", id=o["id"])]

    # ---- negative cases -----------------------------------------------------
    def inject(self, case, m):
        """corrupt one (sometimes two) references so that the model classifies them as bad"""
        r = self.r
        slots = []
        for c, l in iter_layers(case):
            for path, base, holder, key in iter_sites(l):
                slots.append((c, l, path, base, holder, key))
        if not slots:
            return
        # balance over reference kinds: first a kind, then one of its sites
        by_kind: dict = {}
        for sl in slots:
            by_kind.setdefault(rk_name(sl[3], sl[4][sl[5]]), []).append(sl)
        kinds = sorted(by_kind)
        n = 1 if self.chance(85) else 2
        for _ in range(n):
            group = by_kind[kinds[r.randint(0, len(kinds) - 1)]]
            c, l, path, base, holder, key = group[r.randint(0, len(group) - 1)]
            ref = holder[key]
            new = self.corrupt(case, m, c, l, path, base, ref)
            if new is not None:
                holder[key] = new

    def corrupt(self, case, m, c, l, path, base, ref):
        r = self.r
        sn = l["sn"]
        cont = c["sn"]
        if ref["f"] == "id":
            plain = lambda i: m.resolve_id({"f": "id", "id": i, "doc": None}, sn,
                                           with_imports=(base != "IMPORT-REF"))[0]
            opts = []
            # (a) id carried by another document but not visible here
            other = sorted({i for cn, mp in list(m.ids_cont.items()) + list(m.ids_spec.items()) if cn != cont
                            for i in mp if plain(i) == "bad"})
            if other:
                opts.append(("other-document", 4))
            # (d) id only visible to a sibling layer (same container) through that sibling's import
            sib = sorted({i for s2 in c["layers"] if s2["sn"] != sn for e in m._imports.get(s2["sn"], [])
                          for i in m.ids_layer[e] if plain(i) == "bad"})
            if sib:
                opts.append(("sibling-import", 6))
            # (e) DOCREF to a layer / container that merely imports the id
            imp = []
            for _, l2 in iter_layers(case):
                if l2["sn"] == sn:
                    continue
                for e in m._imports.get(l2["sn"], []):
                    for i in m.ids_layer[e]:
                        if i not in m.ids_layer[l2["sn"]]:
                            imp.append((i, [l2["sn"], "LAYER"]))
                        c2 = m.layer_cont[l2["sn"]]
                        if i not in m.ids_cont[c2] and c2 != cont:
                            imp.append((i, [c2, "CONTAINER"]))
            if imp:
                opts.append(("docref-to-importer", 6))
            # (c) DOCREF to an existing fragment that does not carry the (otherwise valid) id
            frs = [[x, "LAYER"] for x in m.ids_layer if ref["id"] not in m.ids_layer[x]] + \
                  [[x, "CONTAINER"] for x in m.ids_cont if ref["id"] not in m.ids_cont[x]]
            frs = [f for f in frs if f[0] not in (sn, cont)]
            if frs:
                opts.append(("wrong-docref", 4))
            opts.append(("unknown-docref", 2))
            opts.append(("nonexistent-id", 1))
            if ref.get("doc") is not None and plain(ref["id"]) == "bad":
                opts.append(("dropped-docref", 9))
            k = self.pick(opts)
            if k == "other-document":
                return {"f": "id", "id": other[r.randint(0, len(other) - 1)], "doc": None, "tag": k}
            if k == "sibling-import":
                return {"f": "id", "id": sib[r.randint(0, len(sib) - 1)], "doc": None, "tag": k}
            if k == "docref-to-importer":
                i, d = imp[r.randint(0, len(imp) - 1)]
                return {"f": "id", "id": i, "doc": d, "tag": k}
            if k == "wrong-docref":
                return {"f": "id", "id": ref["id"], "doc": frs[r.randint(0, len(frs) - 1)], "tag": k}
            if k == "unknown-docref":
                return {"f": "id", "id": ref["id"], "doc": ["nx", "LAYER" if self.chance(50) else "CONTAINER"], "tag": k}
            if k == "dropped-docref":
                return {"f": "id", "id": ref["id"], "doc": None, "tag": k}
            return {"f": "id", "id": "cccccc", "doc": None, "tag": k}
        # short-name references
        rk = rk_name(base, ref)
        kinds, cat = RK[rk]
        if cat == "params":
            params = l[path[0]][path[1]]["params"]
            opts = [("nonexistent-name", 3)]
            elsewhere = sorted({p["sn"] for _, l2 in iter_layers(case) for _, _, o in iter_param_lists(l2)
                                for p in o["params"] if p["kind"] == "TABLE-KEY"} - {p["sn"] for p in params})
            if elsewhere:
                opts.append(("name-elsewhere", 4))
            opts.append(("ambiguous-param", 4))
            k = self.pick(opts)
            if k == "nonexistent-name":
                return {"f": "sn", "n": "nx", "tag": k}
            if k == "name-elsewhere":
                return {"f": "sn", "n": elsewhere[r.randint(0, len(elsewhere) - 1)], "tag": k}
            dref = self.make_dup_dop_ref(m, l)
            if dref is None:
                return {"f": "sn", "n": "nx", "tag": "nonexistent-name"}
            params.append({"sn": ref["n"], "uid": self.nuid(), "kind": "VALUE", "dop": dref})
            return {"f": "sn", "n": ref["n"], "tag": k}
        if cat == "protocols":
            others = sorted(x for x in m.layer if x not in m.protocols(sn))
            if others and self.chance(80):
                # a layer (preferably a protocol) that is not one of the protocols of this layer
                pr = [x for x in others if m.layer[x]["type"] == "PROTOCOL"] or others
                return {"f": "sn", "n": pr[r.randint(0, len(pr) - 1)], "tag": "name-elsewhere"}
            return {"f": "sn", "n": "nx", "tag": "nonexistent-name"}
        view = m.view(sn, cat)
        st, al, _ = m.resolve_sn(ref["n"], sn, cat)
        local = st == "ok" and m.obj[al[0]]["layer"] == sn
        opts = [("nonexistent-name", 1)]
        imported = m.imported_names(sn, cat)
        elsewhere = sorted({o["sn"] for u, o in m.obj.items() if o["kind"] in kinds} - set(view) - imported)
        if elsewhere:
            opts.append(("name-elsewhere", 4))
        if local and c.get("_spare"):
            opts.append(("ambiguous-same-category", 4))
            if cat == "alldops":
                opts.append(("ambiguous-cross-category", 4))
        k = self.pick(opts)
        if k == "nonexistent-name":
            return {"f": "sn", "n": "nx", "tag": k}
        if k == "name-elsewhere":
            return {"f": "sn", "n": elsewhere[r.randint(0, len(elsewhere) - 1)], "tag": k}
        tk = m.obj[al[0]]["kind"]
        if k == "ambiguous-cross-category":
            tk = "struct" if tk != "struct" else "dop"
        new = {"sn": ref["n"], "uid": self.nuid(), "id": c["_spare"].pop(0)}
        if tk == "struct":
            new["params"] = []
        elif tk == "table":
            new["rows"] = []
        elif tk != "dop":
            # fields / muxes need references of their own: duplicate as a plain DOP of the same name instead
            tk = "dop"
            k = "ambiguous-cross-category"
        if r.randint(0, 1):
            l[KIND_LIST[tk]].append(new)
        else:
            l[KIND_LIST[tk]].insert(0, new)
        return {"f": "sn", "n": ref["n"], "tag": k}

    def make_dup_dop_ref(self, m, l):
        for d in l.get("dops", []):
            return {"f": "id", "id": d["id"], "doc": None}
        return None


def apply_edit(case, op, stash):
    """IR side of one history step -> edited deep copy of the case.  `stash` carries the object
    taken out by the last "remove" for a following "restore"."""
    import copy
    case = copy.deepcopy(case)
    l = [x for _, x in iter_layers(case) if x["sn"] == op["layer"]][0]
    lst = l.setdefault(op["lk"], [])
    if op["op"] == "remove":
        stash["ir"] = lst.pop(op["i"])
    elif op["op"] == "restore":
        lst.append(copy.deepcopy(stash["ir"]))
    elif op["op"] == "rename":
        lst[op["i"]]["id"] = op["id"]
    elif op["op"] == "replace":
        o = lst.pop(op["i"])
        o["uid"] = op["uid"]
        lst.append(o)
    else:
        raise ValueError(f"unknown edit {op}")
    return case


def _strip(o, keep_spare=False):
    """deep copy without generator-private keys"""
    if isinstance(o, dict):
        return {k: _strip(v, keep_spare) for k, v in o.items()
                if not (k.startswith("_") and not (keep_spare and k == "_spare")) and v is not None or k in ("retarget",)}
    if isinstance(o, list):
        return [_strip(v, keep_spare) for v in o]
    return o


def gen_case(rnd, negative=None, big=False, reuse=None):
    return Gen(rnd, negative=negative, big=big, reuse=reuse).build()
