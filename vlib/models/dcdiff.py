"""Recursive differ for dataclass object graphs (C11).

`first_diff(a, b)` walks two object graphs in lock step, exactly along the
members that the dataclass-generated `__eq__` compares (fields with
compare=True, list elements, dict items) and returns the first place where they
differ as a `Diff` whose `key` is the `Class.field` that owns the differing
value.  That key is the root-cause key of a round-trip finding: one template
line (or one parser line) is responsible for one `Class.field`.

The differ never looks at private attributes (resolved references, caches), so
it compares what the parser read from XML and nothing else.
"""
from __future__ import annotations

import dataclasses
from dataclasses import dataclass
from enum import Enum
from typing import Any, List, Optional, Tuple


@dataclass
class Diff:
    path: List[Tuple[str, str, Optional[int]]]   # (class name, field name, list index or None)
    kind: str                                     # "value" | "type" | "len" | "keys"
    a: Any
    b: Any

    @property
    def key(self) -> str:
        if not self.path:
            return "<root>"
        c, f, _ = self.path[-1]
        return f"{c}.{f}"

    @property
    def mode(self) -> str:
        """`dropped`: the second graph lost a value the first one has; `altered`: anything else."""
        if self.kind == "len":
            return "dropped" if len(self.b) < len(self.a) else "altered"
        if self.kind == "keys":
            return "dropped" if set(self.b) < set(self.a) else "altered"
        if _is_empty(self.b) and not _is_empty(self.a):
            return "dropped"
        return "altered"

    def path_str(self) -> str:
        out = []
        for c, f, i in self.path:
            out.append(f"{c}.{f}" + ("" if i is None else f"[{i}]"))
        return "/".join(out) or "<root>"

    def describe(self) -> str:
        return f"{self.path_str()}: {self.kind} {short(self.a)} -> {short(self.b)}"


def _is_empty(v: Any) -> bool:
    return v is None or (isinstance(v, (list, tuple, dict, str)) and len(v) == 0)


def short(v: Any, n: int = 60) -> str:
    if dataclasses.is_dataclass(v) and not isinstance(v, type):
        r = f"<{type(v).__name__}>"
    elif isinstance(v, (list, tuple)):
        r = f"<{type(v).__name__} len={len(v)}>"
    else:
        r = repr(v)
    return r if len(r) <= n else r[:n - 3] + "..."


def _walk(a: Any, b: Any, path: list, out: List[Diff], limit: int) -> None:
    if len(out) >= limit:
        return
    if dataclasses.is_dataclass(a) and not isinstance(a, type):
        if type(a) is not type(b):
            out.append(Diff(path, "type", a, b))
            return
        for f in dataclasses.fields(a):
            if not f.compare:
                continue
            _walk(getattr(a, f.name), getattr(b, f.name), path + [(type(a).__name__, f.name, None)], out, limit)
        return
    if isinstance(a, (list, tuple)):
        if not isinstance(b, (list, tuple)):
            out.append(Diff(path, "type", a, b))
            return
        if len(a) != len(b):
            out.append(Diff(path, "len", a, b))
            return
        for i, (x, y) in enumerate(zip(a, b)):
            p = path
            if path:
                c, f, _ = path[-1]
                p = path[:-1] + [(c, f, i)]
            _walk(x, y, p, out, limit)
        return
    if isinstance(a, dict):
        if not isinstance(b, dict):
            out.append(Diff(path, "type", a, b))
            return
        if set(a.keys()) != set(b.keys()):
            out.append(Diff(path, "keys", a, b))
            return
        for k in a:
            _walk(a[k], b[k], path, out, limit)
        return
    if not (a == b):
        out.append(Diff(path, "value", a, b))


def all_diffs(a: Any, b: Any, limit: int = 50) -> List[Diff]:
    """all leaf differences in walk order (at most `limit`); a length or type mismatch is a leaf"""
    out: List[Diff] = []
    _walk(a, b, [], out, limit)
    return out


def first_diff(a: Any, b: Any) -> Optional[Diff]:
    d = all_diffs(a, b, limit=1)
    return d[0] if d else None


def equal_consistent(a: Any, b: Any) -> Optional[Diff]:
    """first_diff plus a cross-check against the objects' own `==` (the oracle named in the
    property).  Raises AssertionError (harness error) when the two disagree."""
    d = first_diff(a, b)
    eq = (a == b)
    if eq != (d is None):
        raise AssertionError(f"differ and dataclass equality disagree: ==:{eq} differ:{d and d.describe()}")
    return d
