"""Reference model of ODX value inheritance (C09).  No odxtools import.

For a hierarchy IR (see hier_xml.py) and a category the model computes, for every layer,
the view {short_name -> uid} prescribed by

    view(L) = local(L)  (+)  for every parent reference r of L:  view(r.layer) - not_inherited(r)

* a local definition wins outright;
* otherwise the candidates offered by the parents with the highest inheritance priority
  (ECU-SHARED-DATA > ECU-VARIANT > BASE-VARIANT > FUNCTIONAL-GROUP > PROTOCOL, priority of the
  *direct* parent the candidate is offered by) win;
* the same object (same uid) offered several times is no clash;
* two or more unequal top-priority candidates for a name without local definition are an
  unresolvable conflict (clashes below the top priority are settled and no error).

ECU-SHARED-DATA layers have no parents; their view is their local content.
"""
from __future__ import annotations

from vlib.models.hier_xml import CATEGORIES, DOP_KINDS

PRIORITY = {"PROTOCOL": 1, "FUNCTIONAL-GROUP": 2, "BASE-VARIANT": 3, "ECU-VARIANT": 4,
            "ECU-SHARED-DATA": 100}

# which NOT-INHERITED list of a parent reference applies to which category (None: no exclusion possible)
NI_LIST = {"diag_comms": "diag_comms", "tables": "tables", "gnrs": "gnrs",
           "unit_groups": None, "fcs": None, "state_charts": None, "audiences": None}
for _k in DOP_KINDS:
    NI_LIST[_k] = "dops"

# PARENT-REF combinations every reading of ODX allows
ALLOWED_PARENTS = {
    "ECU-VARIANT": ["BASE-VARIANT", "ECU-SHARED-DATA"],
    "BASE-VARIANT": ["FUNCTIONAL-GROUP", "PROTOCOL", "ECU-SHARED-DATA"],
    "FUNCTIONAL-GROUP": ["PROTOCOL", "ECU-SHARED-DATA"],
    "PROTOCOL": ["ECU-SHARED-DATA"],
    "ECU-SHARED-DATA": [],
}


class Model:

    def __init__(self, hier: dict):
        self.hier = hier
        self.layers = {l["name"]: l for l in hier["layers"]}
        self._views: dict = {}
        self.conflicts: list = []     # (layer, category, short name, sorted uids)
        self._seen_conf: set = set()
        self.cands: dict = {}         # (layer, category) -> {name: [(priority, uid, parent layer)]}  (after exclusion)
        self.excluded: dict = {}      # (layer, category) -> [(parent layer, name)]  exclusions that removed something

    # ---- local content -----------------------------------------------------
    def local(self, lname: str, cat: str) -> dict:
        """{short_name -> uid} of the objects defined in (or, for diag-comms, referenced by) the layer"""
        objs = self.layers[lname].get("objs", {}).get(cat, {})
        if cat != "diag_comms":
            return {n: (e["uid"] if isinstance(e, dict) else e) for n, e in objs.items()}
        out = {}
        for n, e in objs.items():
            if e["kind"] == "ref":
                tgt = self.layers[e["layer"]]["objs"]["diag_comms"][e["name"]]
                assert tgt["kind"] != "ref" and n == e["name"]
                out[n] = tgt["uid"]
            else:
                out[n] = e["uid"]
        return out

    def kind_of_uid(self) -> dict:
        """uid -> "service" | "job" over all diag-comms of the hierarchy"""
        out = {}
        for l in self.hier["layers"]:
            for e in l.get("objs", {}).get("diag_comms", {}).values():
                if e["kind"] != "ref":
                    out[e["uid"]] = e["kind"]
        return out

    # ---- views ---------------------------------------------------------------
    def view(self, lname: str, cat: str) -> dict:
        key = (lname, cat)
        if key in self._views:
            return self._views[key]
        layer = self.layers[lname]
        local = self.local(lname, cat)
        cand: dict = {}    # name -> list of (priority of the offering parent, uid, parent)
        excl_eff: list = []
        if layer["type"] != "ECU-SHARED-DATA":
            for pref in layer.get("parents", []):
                parent = self.layers[pref["layer"]]
                excluded = set()
                if NI_LIST[cat] is not None:
                    excluded = set(pref.get("ni", {}).get(NI_LIST[cat], []))
                for n, uid in self.view(parent["name"], cat).items():
                    if n in excluded:
                        excl_eff.append((parent["name"], n))
                        continue
                    cand.setdefault(n, []).append((PRIORITY[parent["type"]], uid, parent["name"]))
        self.cands[key] = cand
        self.excluded[key] = excl_eff
        out = {}
        for n, cs in cand.items():
            if n in local:
                continue
            top = max(c[0] for c in cs)
            uids = sorted({c[1] for c in cs if c[0] == top})
            if len(uids) > 1:
                ck = (lname, cat, n)
                if ck not in self._seen_conf:
                    self._seen_conf.add(ck)
                    self.conflicts.append((lname, cat, n, uids))
            out[n] = uids[0]       # meaningless when conflicting; loading must fail then
        out.update(local)
        self._views[key] = out
        return out

    def all_views(self) -> dict:
        """{layer -> {category -> {short_name -> uid}}}; fills self.conflicts"""
        return {ln: {c: self.view(ln, c) for c in CATEGORIES} for ln in self.layers}

    # ---- derived facts used for the non-triviality rule and class histogram -----
    def ancestors(self, lname: str) -> set:
        out = set()
        todo = [lname]
        while todo:
            cur = todo.pop()
            for p in self.layers[cur].get("parents", []):
                if p["layer"] not in out:
                    out.add(p["layer"])
                    todo.append(p["layer"])
        return out

    def closure(self, lname: str) -> set:
        """layers needed to load `lname` alone: itself, its ancestors and the targets of DIAG-COMM-REFs"""
        out = {lname} | self.ancestors(lname)
        changed = True
        while changed:
            changed = False
            for ln in list(out):
                for e in self.layers[ln].get("objs", {}).get("diag_comms", {}).values():
                    if e["kind"] == "ref" and e["layer"] not in out:
                        out.add(e["layer"])
                        out |= self.ancestors(e["layer"])
                        changed = True
        return out


def check_envelope(hier: dict) -> None:
    """raise ValueError when the IR is outside the supported envelope (harness error, not a finding)"""
    layers = {l["name"]: l for l in hier["layers"]}
    if len(layers) != len(hier["layers"]):
        raise ValueError("duplicate layer names")
    for l in hier["layers"]:
        nbv = 0
        for p in l.get("parents", []):
            pt = layers[p["layer"]]["type"]
            if pt not in ALLOWED_PARENTS[l["type"]]:
                raise ValueError(f"{l['type']} must not inherit from {pt}")
            nbv += pt == "BASE-VARIANT"
        if len({p["layer"] for p in l.get("parents", [])}) != len(l.get("parents", [])):
            raise ValueError("a layer is referenced twice as parent")
        if l["type"] == "ECU-VARIANT" and nbv > 1:
            raise ValueError("ECU-VARIANT with more than one BASE-VARIANT")
