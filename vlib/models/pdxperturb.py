"""Perturbation engine for C11 (PDX write -> load round trip).

The engine walks the dataclass object graph of a loaded odxtools database, classifies
every `Class.field` by its resolved type hint into a *perturbation kind*, and applies
single-attribute perturbations that are *sound*: the perturbed value is one that the
odxtools parser itself could have produced for that field from some XML document.

Soundness rules (DESIGN C11):

* free text (`str` fields read with `.get()` / `.findtext()`): the XML metacharacter string;
* `Description.text` is the inner XHTML of DESC: plain text `a&b<c>"d'e` (what the parser
  returns for `<DESC>a&amp;b&lt;c&gt;"d'e</DESC>`) and an element variant;
* values that are re-parsed in the context of a data type (`*_raw`, `V`, limits, keys, default
  values): the metacharacter string only if the context type is a string type, else `7`;
* booleans flipped / set, integers changed inside the legal range of the field, enums set to
  another member, optional sub-elements and empty lists filled with a donor instance taken from
  a second load of the same file (ids renamed, references re-homed);
* never touched: ids, short names, ODXLINK and SNREF references, fields that the parser does
  not read from the element but receives from its context (`Limit.value_type`,
  `CompuScale.domain_type`, `Response.response_type`, layer `variant_type`, ...) and the enum
  fields that *are* that context (`BASE-DATA-TYPE`, compu `CATEGORY`);
* after a perturbation `__post_init__` of the object and of all its ancestors and
  `Database.refresh()` are re-run in strict mode; a perturbation that makes any of them raise is
  rolled back and counted as discarded (the parser could not have produced that database).
"""
from __future__ import annotations

import dataclasses
import enum
import os
import typing
import warnings
from dataclasses import dataclass, field
from typing import Any, Dict, List, Optional, Tuple

META = "a&b<c>\"d'e\tf\ng"
META_XHTML = "<p>a&amp;b&lt;c&gt;\"d'e</p>"
ID_SUFFIX = ".c11donor"
DESC_XML = ["<DESC>a&amp;b&lt;c&gt;\"d'e</DESC>", "<DESC><p>a&amp;b&lt;c&gt;\"d'e</p>\n tail &amp; more</DESC>"]


def desc_text(xml: str) -> str:
    from xml.etree import ElementTree
    from odxtools.description import Description
    return Description.from_et(ElementTree.fromstring(xml), []).text

EXAMPLES = {
    "somersault": "examples/somersault.pdx",
    "somersault_modified": "examples/somersault_modified.pdx",
}


def repo_dir() -> str:
    return os.environ.get("VERIF_REPO_DIR", "/repo")


def example_path(name: str) -> str:
    return os.path.join(repo_dir(), EXAMPLES[name])


def set_strict(value: bool = True) -> None:
    import odxtools.exceptions
    odxtools.exceptions.strict_mode = value


def load_example(name: str):
    import odxtools
    set_strict(True)
    with warnings.catch_warnings():
        warnings.simplefilter("ignore")
        return odxtools.load_pdx_file(example_path(name))


def roots(db) -> list:
    return list(db.diag_layer_containers) + list(db.comparam_subsets) + list(db.comparam_specs)


# ---------------------------------------------------------------------------
# walking
# ---------------------------------------------------------------------------
NEVER_TARGET = {"OdxLinkId", "OdxLinkRef", "OdxDocFragment"}


@dataclass
class Node:
    obj: Any
    parents: Tuple[Any, ...]      # from the root down to the direct owner
    ordinal: int = 0              # index among the instances of the same class, walk order

    @property
    def cls(self) -> str:
        return type(self.obj).__name__


def _is_dc(o: Any) -> bool:
    return dataclasses.is_dataclass(o) and not isinstance(o, type)


def walk(root_objs: list) -> List[Node]:
    """every dataclass instance reachable through dataclass fields and lists, once, in a
    deterministic order (field declaration order, list order)"""
    out: List[Node] = []
    seen: set = set()

    def rec(o: Any, parents: Tuple[Any, ...]) -> None:
        if _is_dc(o):
            if id(o) in seen:
                return
            seen.add(id(o))
            out.append(Node(o, parents))
            p2 = parents + (o,)
            for f in dataclasses.fields(o):
                rec(getattr(o, f.name), p2)
        elif isinstance(o, (list, tuple)):
            for x in o:
                rec(x, parents)
        elif isinstance(o, dict):
            for x in o.values():
                rec(x, parents)

    for r in root_objs:
        rec(r, ())
    counts: Dict[str, int] = {}
    for n in out:
        n.ordinal = counts.get(n.cls, 0)
        counts[n.cls] = n.ordinal + 1
    return out


class Index:
    """walk of one database, addressable by (class name, ordinal)"""

    def __init__(self, db):
        self.db = db
        self.nodes = walk(roots(db))
        self.by_cls: Dict[str, List[Node]] = {}
        qual: Dict[str, str] = {}
        for n in self.nodes:
            self.by_cls.setdefault(n.cls, []).append(n)
            q = type(n.obj).__module__ + "." + type(n.obj).__qualname__
            if qual.setdefault(n.cls, q) != q:
                raise AssertionError(f"two dataclasses named {n.cls}: {q} and {qual[n.cls]}")

    def get(self, cls: str, ordinal: int) -> Node:
        return self.by_cls[cls][ordinal]


# ---------------------------------------------------------------------------
# classification of Class.field
# ---------------------------------------------------------------------------
CONTEXT_DERIVED = {
    ("Limit", "value_type"), ("CompuConst", "data_type"), ("CompuScale", "domain_type"),
    ("CompuScale", "range_type"), ("CompuRationalCoeffs", "value_type"),
    ("InternalConstr", "value_type"), ("ScaleConstr", "value_type"),
    ("Response", "response_type"), ("CompuInverseValue", "data_type"),
    ("CompuDefaultValue", "data_type"),
}
# string fields that the parser re-interprets in the context of a data type
RAW_NAMES = {"value_raw", "v", "key_raw", "physical_default_value_raw", "physical_constant_value_raw",
             "termination_value_raw", "expected_value", "physical_default_value", "value",
             "coded_value_raw"}


def _strip_optional(t: Any) -> Tuple[Any, bool]:
    if typing.get_origin(t) is typing.Union:
        args = [a for a in typing.get_args(t) if a is not type(None)]
        opt = len(args) != len(typing.get_args(t))
        if len(args) == 1:
            return args[0], opt
        return typing.Union[tuple(args)], opt  # type: ignore
    return t, False


def _dc_classes_of(t: Any) -> List[type]:
    """dataclass types named by a hint (a class or a Union of classes), references excluded"""
    if typing.get_origin(t) is typing.Union:
        out: List[type] = []
        for a in typing.get_args(t):
            out += _dc_classes_of(a)
        return out
    if isinstance(t, type) and dataclasses.is_dataclass(t) and t.__name__ not in NEVER_TARGET:
        return [t]
    return []


def _is_ref_name(name: str) -> bool:
    return (name.endswith(("_ref", "_refs", "_snpathref", "_snpathrefs")) or "snref" in name)


def classify(cls: type, fname: str, hint: Any) -> Tuple[str, Any]:
    """-> (kind, info).  kind starts with 'skip:' when the field is not perturbed."""
    cname = cls.__name__
    if cname in NEVER_TARGET:
        return "skip:reference-class", None
    if fname in ("odx_id", "short_name"):
        return "skip:id", None
    if _is_ref_name(fname) or fname.startswith("not_inherited_"):
        return "skip:reference", None
    if (cname, fname) in CONTEXT_DERIVED or fname == "variant_type":
        return "skip:context-derived", None
    if cname.endswith("CompuMethod") and fname in ("category", "physical_type", "internal_type"):
        return "skip:context-derived", None
    if fname == "base_data_type":
        return "skip:context-source", None
    if fname == "diag_layer_raw":
        return "skip:wrapper", None
    inner, opt = _strip_optional(hint)
    origin = typing.get_origin(inner)
    if inner is str:
        if cname == "Description" and fname == "text":
            return "xhtml", None
        if fname in RAW_NAMES:
            return "raw", None
        return "text", None
    if inner is bool:
        return "bool", opt
    if inner is int:
        return "int", opt
    if inner is float:
        return "float", opt
    if isinstance(inner, type) and issubclass(inner, enum.Enum):
        return "enum", inner
    dcs = _dc_classes_of(inner)
    if dcs and origin in (None, typing.Union):
        return ("sub", dcs) if opt else ("skip:mandatory-sub-element", None)
    if origin in (list, typing.List) or (isinstance(origin, type) and issubclass(origin, list)):
        (elem,) = typing.get_args(inner) or (Any,)
        if elem is str:
            return "strlist", None
        edcs = _dc_classes_of(elem)
        if edcs:
            return "sublist", edcs
        eargs = set(typing.get_args(elem)) if typing.get_origin(elem) is typing.Union else {elem}
        if eargs and eargs <= {int, float}:
            return "numlist", None
        if {int, str} <= eargs and not any(typing.get_origin(a) for a in eargs):
            return "typedlist", None
        if fname in ("value", "physical_default_value"):
            return "complexvalue", opt
        return "skip:unhandled-list", None
    if origin is typing.Union:
        args = set(typing.get_args(inner))
        if {int, str} <= args and not any(typing.get_origin(a) for a in args):
            return "typed", None
        if str in args and fname in ("value", "physical_default_value"):
            return "rawunion", None
    return "skip:unhandled-type", None


_HINT_CACHE: Dict[type, Dict[str, Any]] = {}


def hints_of(cls: type) -> Dict[str, Any]:
    if cls not in _HINT_CACHE:
        try:
            _HINT_CACHE[cls] = typing.get_type_hints(cls)
        except Exception:
            _HINT_CACHE[cls] = {}
    return _HINT_CACHE[cls]


def field_kind(cls: type, fname: str) -> Tuple[str, Any]:
    h = hints_of(cls)
    if fname not in h:
        return "skip:unresolved-hint", None
    return classify(cls, fname, h[fname])


# ---------------------------------------------------------------------------
# context data type of raw values
# ---------------------------------------------------------------------------
def _ctx_type(obj: Any, fname: str):
    """the odxtools DataType in whose context the parser re-reads the raw string, or None"""
    from odxtools.odxtypes import DataType
    cname = type(obj).__name__
    t = None
    try:
        if cname == "Limit":
            t = obj.value_type
        elif cname in ("CompuConst", "CompuInverseValue", "CompuDefaultValue"):
            t = obj.data_type
        elif cname == "TableRow":
            kd = obj.table.key_dop
            t = kd.physical_type.base_data_type if kd is not None else DataType.A_UNICODE2STRING
        elif cname in ("ValueParameter", "PhysicalConstantParameter", "Comparam"):
            t = obj.dop.physical_type.base_data_type
        elif cname == "ComparamInstance":
            t = obj.spec.dop.physical_type.base_data_type
    except Exception:
        t = None
    return t if isinstance(t, DataType) else None


def _is_string_type(t) -> bool:
    return t is not None and t.name in ("A_UNICODE2STRING", "A_UTF8STRING", "A_ASCIISTRING")


# ---------------------------------------------------------------------------
# candidate values
# ---------------------------------------------------------------------------
def _int_candidates(obj: Any, fname: str, cur: Optional[int]) -> List[int]:
    c = cur
    if fname == "bit_position":
        cands = [1, 2] if c is None else [c + 1, c - 1, 1]
        cands = [x for x in cands if 0 <= x <= 7]
    elif fname == "bit_length":
        cands = [c + 8, c + 1, c - 1, c - 8] if c is not None else [8, 16]
        cands = [x for x in cands if x > 0]
    elif fname == "bit_mask":
        bl = getattr(obj, "bit_length", 8) or 8
        cands = [1, (1 << bl) - 2, 0x0F]
        cands = [x for x in cands if 0 < x < (1 << bl)]
    elif fname == "max_length":
        mn = getattr(obj, "min_length", 0) or 0
        cands = ([c + 1, c - 1] if c is not None else []) + [mn + 1, mn + 8]
        cands = [x for x in cands if x >= max(mn, 1)]
    elif fname == "min_length":
        mx = getattr(obj, "max_length", None)
        cands = [c + 1, c - 1] if c is not None else [1]
        cands = [x for x in cands if x >= 0 and (mx is None or x <= mx)]
    elif fname == "byte_size":
        cands = [64, 32] if c is None else [c + 1, c + 8]
    elif fname.endswith("_exp"):
        cands = [(c or 0) + 1, (c or 0) - 1]
    elif c is None:
        cands = [1, 2, 8]
    else:
        cands = [c + 1] + ([c - 1] if c > 0 else [])
    return [x for x in dict.fromkeys(cands) if x != cur]


def _typed_candidates(cur: Any) -> list:
    if isinstance(cur, bool):
        return [not cur]
    if isinstance(cur, int):
        return [cur + 1] + ([cur - 1] if cur > 0 else [])
    if isinstance(cur, float):
        return [cur + 1.5]
    if isinstance(cur, str):
        return [META]
    if isinstance(cur, (bytes, bytearray)):
        b = bytes(cur)
        return [type(cur)(bytes([(b[0] + 1) % 256]) + b[1:])] if b else [type(cur)(b"\x07")]
    return []


def _complex_value_variant(cur: Any) -> Optional[list]:
    """replace the first leaf string of a ComplexValue by '7'"""
    if not isinstance(cur, list):
        return None
    out = []
    done = False
    for x in cur:
        if done:
            out.append(x)
        elif isinstance(x, str):
            out.append("7" if x != "7" else "8")
            done = True
        elif isinstance(x, list):
            sub = _complex_value_variant(x)
            if sub is not None:
                out.append(sub)
                done = True
            else:
                out.append(x)
        else:
            out.append(x)
    return out if done else None


def variants(node: Node, fname: str, kind: str, info: Any, idx: "Index") -> List[List[dict]]:
    """-> list of variants; each variant is an ordered list of candidate operations
    (the first one that passes the validity guard is used)."""
    obj = node.obj
    cur = getattr(obj, fname)
    vs = _variants(node, fname, kind, info, idx)
    if kind in ("text", "xhtml", "raw", "bool", "int", "float", "enum") and cur is not None \
            and is_optional(type(obj), fname) and (type(obj).__name__, fname) not in NO_UNSET:
        # the parser yields None when the optional attribute / element is absent
        vs = vs + [[{"op": "set", "value": None}]]
    return vs


# optional attributes whose *absence* is a context switch for the parser (CATEGORY absent = ODX 2.0
# COMPARAM-SPEC semantics: other document type in every id of the document)
NO_UNSET = {("ComparamSubset", "category")}


def is_optional(cls: type, fname: str) -> bool:
    h = hints_of(cls).get(fname)
    return h is not None and _strip_optional(h)[1]


def _variants(node: Node, fname: str, kind: str, info: Any, idx: "Index") -> List[List[dict]]:
    obj = node.obj
    cur = getattr(obj, fname)

    def sets(vals: list) -> List[dict]:
        return [{"op": "set", "value": v} for v in vals if v != cur or type(v) is not type(cur)]

    if kind == "text":
        return [sets([META])]
    if kind == "xhtml":
        # the value is whatever the parser itself makes of these DESC elements
        return [[{"op": "parse_desc", "xml": x}] for x in DESC_XML if desc_text(x) != cur]
    if kind == "raw":
        t = _ctx_type(obj, fname)
        if _is_string_type(t):
            return [sets([META])]
        return [sets(["7", "07", "8"])]
    if kind == "rawunion":
        if isinstance(cur, str):
            t = _ctx_type(obj, fname)
            return [sets([META] if _is_string_type(t) else ["7", "07", "8"])]
        v = _complex_value_variant(cur)
        return [sets([v])] if v is not None else []
    if kind == "complexvalue":
        v = _complex_value_variant(cur)
        return [sets([v])] if v is not None else []
    if kind == "bool":
        if info:   # Optional[bool]
            return [sets([v]) for v in (True, False) if v is not cur]
        return [sets([not cur])]
    if kind == "int":
        c = _int_candidates(obj, fname, cur)
        return [sets(c)] if c else []
    if kind == "float":
        return [sets([2.5 if cur is None else cur + 1.5])]
    if kind == "enum":
        return [[{"op": "enum", "value": m.name}] for m in info if m is not cur]
    if kind == "strlist":
        return [[{"op": "set", "value": list(cur) + [META]}]]
    if kind == "numlist":
        if not cur:
            return []
        return [sets([list(cur[:-1]) + [cur[-1] + 1]])]
    if kind == "typed":
        c = _typed_candidates(cur)
        return [sets(c)] if c else []
    if kind == "typedlist":
        if not cur:
            return []
        c = _typed_candidates(cur[-1])
        return [sets([list(cur) + [c[0]]])] if c else []
    if kind in ("sub", "sublist"):
        if kind == "sub" and cur is not None:
            return []
        if kind == "sublist" and len(cur) > 0:
            return []
        home = home_fragments(node.parents + (obj,))
        cands = []
        tsig = context_signature(node.parents + (obj,))
        for dcls in info:
            for dn in _donor_nodes(idx, dcls):
                if dn.obj is obj or any(p is dn.obj for p in node.parents):
                    continue
                if _has_context_fields(dn.obj) and (type(obj).__name__, fname) not in _FIXUP_FIELDS \
                        and context_signature(dn.parents) != tsig:
                    # the donor carries values its parser received from the surrounding element
                    # (data types); it only fits below an owner with the same context
                    continue
                # prefer a donor from the same document and one that differs from every sibling
                # sub-element of the new owner (so that a writer mixing up two siblings is visible)
                twin = any(_is_dc(getattr(obj, g.name)) and getattr(obj, g.name) == dn.obj
                           for g in dataclasses.fields(obj))
                cands.append((0 if home_fragments(dn.parents + (dn.obj,)) == home else 1,
                              1 if twin else 0, len(cands), dn))
        cands.sort(key=lambda t: t[:3])
        ops = [{"op": "donor", "donor_cls": dn.cls, "donor_inst": dn.ordinal} for *_, dn in cands[:4]]
        return [ops] if ops else []
    return []


_CONTEXT_CLASSES = {c for c, _ in CONTEXT_DERIVED}


def _has_context_fields(o: Any) -> bool:
    return any(n.cls in _CONTEXT_CLASSES or n.cls.endswith("CompuMethod") for n in walk([o]))


def context_signature(chain: Tuple[Any, ...]) -> tuple:
    """the data types visible along an owner chain (own fields and fields of direct sub-elements):
    what the parser would hand down as context to a sub-element created below that chain"""
    from odxtools.odxtypes import DataType
    sig = []
    for o in chain[-4:]:
        for f in dataclasses.fields(o):
            v = getattr(o, f.name)
            if isinstance(v, DataType):
                sig.append((type(o).__name__, f.name, v.name))
            elif _is_dc(v):
                for g in dataclasses.fields(v):
                    w = getattr(v, g.name)
                    if isinstance(w, DataType):
                        sig.append((type(o).__name__, f.name, g.name, w.name))
    return tuple(sig)


def _donor_nodes(idx: "Index", dcls: type) -> List[Node]:
    out = []
    for cname, nodes in idx.by_cls.items():
        if nodes and isinstance(nodes[0].obj, dcls):
            out += nodes
    return out


def home_fragments(chain: Tuple[Any, ...]) -> Optional[list]:
    """doc fragments that the parser hands to the children of the innermost id-carrying object"""
    for o in reversed(chain):
        oid = getattr(o, "odx_id", None)
        if oid is not None and hasattr(oid, "doc_fragments"):
            return list(oid.doc_fragments)
    return None


# ---------------------------------------------------------------------------
# the matrix
# ---------------------------------------------------------------------------
def _profile(obj: Any) -> tuple:
    out = []
    for f in dataclasses.fields(obj):
        v = getattr(obj, f.name)
        out.append(v is None or (isinstance(v, (list, tuple, str)) and len(v) == 0))
    return tuple(out)


def matrix(db_name: str, idx: "Index", per_field_instances: int = 3) -> Tuple[List[dict], Dict[str, int]]:
    """-> (points, statistics).  A point names db, class, field, instance ordinal and variant index."""
    points: List[dict] = []
    stats: Dict[str, int] = {}
    for cname in sorted(idx.by_cls):
        nodes = idx.by_cls[cname]
        cls = type(nodes[0].obj)
        for f in dataclasses.fields(cls):
            if not f.compare:
                continue
            kind, info = field_kind(cls, f.name)
            stats["fields"] = stats.get("fields", 0) + 1
            stats[f"kind:{kind}"] = stats.get(f"kind:{kind}", 0) + 1
            if kind.startswith("skip:"):
                continue
            chosen: List[Node] = []
            profiles: set = set()
            for n in nodes:
                vs = variants(n, f.name, kind, info, idx)
                if not vs:
                    continue
                p = _profile(n.obj)
                if p in profiles:
                    continue
                profiles.add(p)
                chosen.append(n)
                for vi in range(len(vs)):
                    points.append({"db": db_name, "cls": cname, "field": f.name, "inst": n.ordinal,
                                   "variant": vi, "kind": kind})
                if len(chosen) >= per_field_instances:
                    break
            if not chosen:
                stats["no-applicable-instance"] = stats.get("no-applicable-instance", 0) + 1
    for pt in samename_points(db_name, idx):
        points.append(pt)
        stats["kind:samename"] = stats.get("kind:samename", 0) + 1
    return points, stats


# ---------------------------------------------------------------------------
# two documents of different category with the same short name
# ---------------------------------------------------------------------------
def samename_ops(idx: "Index", node: Node) -> List[List[dict]]:
    """variants for renaming a document (ODX category) to the short name of a document of another
    category: a COMPARAM-SPEC or a DIAG-LAYER-CONTAINER gets the name of a COMPARAM-SUBSET.  (Not a
    subset itself: printProtStack derives the DOCREF of a subset reference from its id.)"""
    if node.cls not in ("ComparamSpec", "DiagLayerContainer"):
        return []
    names = [n.obj.short_name for n in idx.by_cls.get("ComparamSubset", [])]
    if node.cls == "DiagLayerContainer":
        names = names + [n.obj.short_name for n in idx.by_cls.get("ComparamSpec", [])]
    names = [x for x in dict.fromkeys(names) if x != node.obj.short_name]
    return [[{"op": "rename_doc", "value": x}] for x in names]


def samename_points(db_name: str, idx: "Index") -> List[dict]:
    pts = []
    for cname in ("ComparamSpec", "DiagLayerContainer"):
        for n in idx.by_cls.get(cname, []):
            for vi in range(len(samename_ops(idx, n))):
                pts.append({"db": db_name, "cls": cname, "field": "short_name", "inst": n.ordinal,
                            "variant": vi, "kind": "samename"})
    return pts


def _rename_doc(db, obj: Any, new_name: str):
    """rename the document `obj` (an ODX category) and everything the parser derives from its short
    name: the OdxDocFragment in the doc_fragments of every id and in the ref_docs of every
    reference of the database.  Returns an undo function."""
    from odxtools.odxlink import OdxDocFragment, OdxLinkId, OdxLinkRef
    frags = getattr(obj, "odx_id").doc_fragments
    old = frags[0]
    new = OdxDocFragment(new_name, old.doc_type)
    old_name = obj.short_name
    touched: List[Tuple[list, int]] = []
    seen: set = set()

    def fix_list(lst: list) -> None:
        if id(lst) in seen:
            return
        seen.add(id(lst))
        for i, fr in enumerate(lst):
            if fr == old:
                lst[i] = new
                touched.append((lst, i))

    def rec(o: Any) -> None:
        if isinstance(o, OdxLinkId):
            fix_list(o.doc_fragments)
        elif isinstance(o, OdxLinkRef):
            fix_list(o.ref_docs)
        elif _is_dc(o):
            if id(o) in seen:
                return
            seen.add(id(o))
            for f in dataclasses.fields(o):
                rec(getattr(o, f.name))
        elif isinstance(o, (list, tuple)):
            for x in o:
                rec(x)

    for r in roots(db):
        rec(r)
    obj.short_name = new_name

    def undo() -> None:
        for lst, i in touched:
            lst[i] = old
        obj.short_name = old_name

    return undo


# ---------------------------------------------------------------------------
# applying
# ---------------------------------------------------------------------------
class Discarded(Exception):
    """the perturbed database is not one the parser could have produced"""


def _rerun_post_init(chain: Tuple[Any, ...]) -> None:
    for o in reversed(chain):
        pi = getattr(o, "__post_init__", None)
        if pi is not None:
            pi()


def _validate(db, chain: Tuple[Any, ...]) -> None:
    set_strict(True)
    with warnings.catch_warnings():
        warnings.simplefilter("ignore")
        _rerun_post_init(chain)
        db.refresh()


def _retarget_donor(donor_node: Node, new_home: Optional[list]) -> None:
    """give the donor subtree fresh ids and the doc fragments of its new home"""
    from odxtools.odxlink import OdxLinkId, OdxLinkRef
    old_home = home_fragments(donor_node.parents + (donor_node.obj,))
    sub = walk([donor_node.obj])
    renamed = set()
    for n in sub:
        oid = getattr(n.obj, "odx_id", None)
        if isinstance(oid, OdxLinkId):
            renamed.add(oid.local_id)
            frags = new_home if (new_home is not None and list(oid.doc_fragments) == old_home) else oid.doc_fragments
            n.obj.odx_id = OdxLinkId(oid.local_id + ID_SUFFIX, list(frags))

    def fix_refs(o: Any, seen: set) -> None:
        if isinstance(o, OdxLinkRef):
            if o.ref_id in renamed:
                o.ref_id = o.ref_id + ID_SUFFIX
            if new_home is not None and list(o.ref_docs) == old_home:
                o.ref_docs = list(new_home)
        elif _is_dc(o):
            if id(o) in seen:
                return
            seen.add(id(o))
            for f in dataclasses.fields(o):
                fix_refs(getattr(o, f.name), seen)
        elif isinstance(o, (list, tuple)):
            for x in o:
                fix_refs(x, seen)

    fix_refs(donor_node.obj, set())


_RESPONSE_LISTS = {"positive_responses": "POSITIVE", "negative_responses": "NEGATIVE",
                   "global_negative_responses": "GLOBAL_NEGATIVE"}


def _concrete_value(node: Node, fname: str, op: dict, donor_loader) -> Any:
    obj = node.obj
    cur = getattr(obj, fname)
    if op["op"] == "set":
        v = op["value"]
        if isinstance(cur, list) and isinstance(v, list) and type(cur) is not list:
            return type(cur)(v)          # NamedItemList stays a NamedItemList
        return v
    if op["op"] == "parse_desc":
        return desc_text(op["xml"])
    if op["op"] == "enum":
        kind, info = field_kind(type(obj), fname)
        if kind != "enum":
            raise AssertionError(f"{type(obj).__name__}.{fname} is not an enum field")
        return info[op["value"]]
    if op["op"] == "donor":
        didx: Index = donor_loader()
        dn = didx.get(op["donor_cls"], op["donor_inst"])
        _retarget_donor(dn, home_fragments(node.parents + (obj,)))
        if fname in _RESPONSE_LISTS and hasattr(dn.obj, "response_type"):
            # the response type is the tag name, i.e. the list the element stands in
            from odxtools.response import ResponseType
            dn.obj.response_type = ResponseType[_RESPONSE_LISTS[fname]]
        _fixup_donor_context(obj, fname, dn.obj)
        if isinstance(cur, list):
            return type(cur)([dn.obj])
        return dn.obj
    raise AssertionError(f"unknown op {op}")


_FIXUP_FIELDS = {("CompuScale", "compu_inverse_value"), ("CompuScale", "compu_const"),
                 ("DataObjectProperty", "internal_constr"), ("DataObjectProperty", "physical_constr")}


def _fixup_donor_context(owner: Any, fname: str, donor: Any) -> None:
    """context-derived fields of a donor follow the element it is put into (what the parser of the
    owner would have handed down)"""
    cname = type(owner).__name__
    if cname == "CompuScale" and fname in ("compu_inverse_value", "compu_const"):
        donor.data_type = owner.domain_type if fname == "compu_inverse_value" else owner.range_type
        if not _is_string_type(donor.data_type) and donor.v is None:
            # a text constant does not fit a numeric context: <V>7</V> instead of <VT>...</VT>
            donor.v, donor.vt = "7", None
        donor.__post_init__()
    elif cname == "DataObjectProperty" and fname in ("internal_constr", "physical_constr"):
        t = (owner.diag_coded_type.base_data_type if fname == "internal_constr"
             else owner.physical_type.base_data_type)
        donor.value_type = t
        limits = [donor.lower_limit, donor.upper_limit]
        for sc in donor.scale_constrs:
            sc.value_type = t
            limits += [sc.lower_limit, sc.upper_limit]
        for lim in limits:
            if lim is not None:
                lim.value_type = t
                lim.__post_init__()


def apply_op(db, node: Node, fname: str, op: dict, donor_loader) -> None:
    """apply one concrete operation; rolls back and raises Discarded if the result is not a
    database that passes __post_init__/refresh() in strict mode"""
    obj = node.obj
    if op["op"] == "rename_doc":
        undo = _rename_doc(db, obj, op["value"])
        try:
            _validate(db, node.parents + (obj,))
        except Exception as e:
            undo()
            _validate(db, node.parents + (obj,))
            raise Discarded(f"{type(e).__name__}: {e}") from None
        return
    old = getattr(obj, fname)
    set_strict(True)
    try:
        new = _concrete_value(node, fname, op, donor_loader)
    except AssertionError:
        raise
    except Exception as e:          # the donor does not fit into its new context
        raise Discarded(f"{type(e).__name__}: {e}") from None
    chain = node.parents + (obj,)
    setattr(obj, fname, new)
    try:
        _validate(db, chain)
    except Exception as e:          # any complaint of odxtools about the perturbed database
        setattr(obj, fname, old)
        _validate(db, chain)        # must succeed: the database was valid before
        raise Discarded(f"{type(e).__name__}: {e}") from None


def is_nondefault(node: Node, fname: str, before: Any) -> bool:
    return getattr(node.obj, fname) != before or type(getattr(node.obj, fname)) is not type(before)


@dataclass
class Prepared:
    db: Any
    applied: List[dict] = field(default_factory=list)      # concrete, replayable specs
    discarded: List[dict] = field(default_factory=list)


def apply_points(db_name: str, points: List[dict]) -> Prepared:
    """resolve matrix points (candidate search) on a fresh load of the example"""
    db = load_example(db_name)
    idx = Index(db)
    donor_cache: list = []

    def donor_loader() -> Index:
        # a fresh second load per donor operation: a donor object is moved, not shared
        return Index(load_example(db_name))

    prep = Prepared(db)
    for pt in points:
        node = idx.get(pt["cls"], pt["inst"])
        kind, info = field_kind(type(node.obj), pt["field"])
        if pt.get("kind") == "samename":
            kind, vs = "samename", samename_ops(idx, node)
        else:
            vs = variants(node, pt["field"], kind, info, idx)
        if pt["variant"] >= len(vs):
            prep.discarded.append({**pt, "why": "variant no longer applicable"})
            continue
        ok = False
        why = "no candidate"
        for op in vs[pt["variant"]]:
            try:
                apply_op(db, node, pt["field"], op, donor_loader)
            except Discarded as e:
                why = str(e)[:200]
                continue
            prep.applied.append({"cls": pt["cls"], "field": pt["field"], "inst": pt["inst"],
                                 "kind": kind, **op})
            ok = True
            break
        if not ok:
            prep.discarded.append({**pt, "why": why})
    del donor_cache
    return prep


def apply_concrete(db_name: str, specs: List[dict]) -> Prepared:
    """replay: apply exactly the recorded operations"""
    db = load_example(db_name)
    idx = Index(db)
    prep = Prepared(db)
    for sp in specs:
        node = idx.get(sp["cls"], sp["inst"])
        op = {k: sp[k] for k in ("op", "value", "donor_cls", "donor_inst", "xml") if k in sp}
        try:
            apply_op(db, node, sp["field"], op, lambda: Index(load_example(db_name)))
            prep.applied.append(sp)
        except Discarded as e:
            prep.discarded.append({**sp, "why": str(e)[:200]})
    return prep
